#!/bin/bash
# Confirms a seeded change (produced by an independent sub-agent) in a FRESH scratch worktree of /repo and stores it under
# /verif/seeded/<id>/ :  tools/seeded_verify.sh <id> <property> <dir containing patch.diff + mutant_demo.rs [+ notes.md]>
# Checks: demo passes on the unchanged tree; patch applies; workspace compiles; existing yrs lib tests pass; demo fails with the patch.
set -u
ID=$1; PROP=$2; SRC=$3
W=/tmp/sv-$ID-$$
OUT=/verif/seeded/$ID
mkdir -p $OUT
git -C /repo worktree add -q $W HEAD || exit 2
cleanup() { git -C /repo worktree remove --force $W 2>/dev/null; rm -rf $W; }
trap cleanup EXIT
cp $SRC/patch.diff $OUT/patch.diff
cp $SRC/mutant_demo.rs $OUT/mutant_demo.rs
[ -f $SRC/notes.md ] && cp $SRC/notes.md $OUT/notes.md
cp $SRC/mutant_demo.rs $W/yrs/tests/mutant_demo.rs 2>/dev/null || { mkdir -p $W/yrs/tests; cp $SRC/mutant_demo.rs $W/yrs/tests/mutant_demo.rs; }
cd $W
export CARGO_TARGET_DIR=$W/target
( cargo test -p yrs --features weak --test mutant_demo --offline 2>&1 | tail -5 ) > $OUT/demo_without.log; grep -q "test result: ok" $OUT/demo_without.log; DEMO_BASE=$?
git apply $OUT/patch.diff; APPLY=$?
( cargo build -p yrs --features weak --offline 2>&1 && cargo build -p yffi --offline 2>&1 ) | tail -3 > $OUT/build.log; grep -q "^error" $OUT/build.log; BUILD_ERR=$?
( cargo test -p yrs --features weak --lib --offline -- --skip test_medium_data_set --skip edit_trace_automerge --skip edit_trace_sephblog1 2>&1 | grep -E "^test result|FAILED|failed" | tail -5 ) > $OUT/suite.log; grep -q "test result: ok" $OUT/suite.log; SUITE=$?
( cargo test -p yrs --features weak --test mutant_demo --offline 2>&1 | tail -8 ) > $OUT/demo_with.log; grep -q "test result: FAILED\|panicked\|error\[" $OUT/demo_with.log; DEMO_MUT=$?
python3 - <<PY
import json
meta = {"id": "$ID", "property": "$PROP", "patch_applies": $APPLY == 0, "compiles": $BUILD_ERR != 0,
        "existing_tests_pass_with_change": $SUITE == 0, "demo_passes_without_change": $DEMO_BASE == 0, "demo_fails_with_change": $DEMO_MUT == 0,
        "ran": ["cargo test -p yrs --features weak --test mutant_demo --offline (unchanged tree)", "git apply patch.diff",
                "cargo build -p yrs --features weak --offline; cargo build -p yffi --offline",
                "cargo test -p yrs --features weak --lib --offline -- --skip test_medium_data_set --skip edit_trace_automerge --skip edit_trace_sephblog1",
                "cargo test -p yrs --features weak --test mutant_demo --offline (changed tree)"],
        "suite_result": open("$OUT/suite.log").read().strip()[-300:]}
meta["confirmed"] = all(meta[k] for k in ("patch_applies", "compiles", "existing_tests_pass_with_change", "demo_passes_without_change", "demo_fails_with_change"))
try:
    old = json.load(open("$OUT/meta.json"))
    old.update(meta); meta = old
except Exception:
    pass
json.dump(meta, open("$OUT/meta.json", "w"), indent=1)
print(json.dumps(meta))
PY
