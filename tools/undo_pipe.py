"""G -> X -> V pipeline of property C12 (undo / redo), engine `undo`.

G  : spec/MC_Undo.tla enumerates PROGRAMS (tracked edits, ticks / stop, every undo/redo word, foreign local edits, remote
     edits with delayed delivery) per tracked root kind (text, array, map, XML fragment); this module adds configuration,
     an out-of-scope prologue, for the XML groups `p*` the prepared content of another origin, the closing deliveries to
     the observers 8 / 9 and the closing syncs.  Seeded deep programs (long random words over the same alphabet, tracked
     scopes incl. two roots; a separate family `deepx` for XML scopes) complement the enumeration.
X  : harness extension harness/src/ext/undo.rs through `yx yata-run --repeat 5` (the library is hash-order
     nondeterministic in undo: every behaviour is executed five times, differing outcomes give a `nondet` event).
     The schedule file is split and executed by several yx processes.
V  : spec/Trace_Undo.tla (EXTENDS Trace_Yata, Undo)."""
import hashlib
import json
import os
import random
import shutil
import time
from concurrent.futures import ThreadPoolExecutor

import vlib
import yata_pipe

ENGINE = "undo"
ENGINE_TEXT = "TLA+/TLC program enumeration + design invariants (MC_Undo), programs executed 5x on yrs UndoManager (ext/undo.rs), TLC trace validation (Trace_Undo)"
TRACE = ("Trace_Undo", "Trace_Undo.cfg")
REPEAT = 5
REPLAY = ("yx", lambda s, t: ["yata-run", "--in", s, "--out", t, "--seed", str(vlib.seed()), "--repeat", str(REPEAT)], TRACE[0], TRACE[1])
PAR = max(1, int(os.environ.get("VERIF_PAR", "10")))      # upper bound of parallel processes / TLC workers (shared machines)
XPAR = min(10, PAR)

# name -> (G config, kind, {tier: sample size or None = all})
G_GROUPS = {
    "c3t": ("G_undo_c3t.cfg", "t", {"quick": 2000, "thorough": None}),
    "c3a": ("G_undo_c3a.cfg", "a", {"quick": 2000, "thorough": None}),
    "c3m": ("G_undo_c3m.cfg", "m", {"quick": 2000, "thorough": None}),
    "k4": ("G_undo_k4.cfg", "m", {"quick": 1500, "thorough": None}),
    "f2t": ("G_undo_f2t.cfg", "t", {"quick": 2000, "thorough": None}),
    "f2a": ("G_undo_f2a.cfg", "a", {"quick": 2000, "thorough": None}),
    "f2m": ("G_undo_f2m.cfg", "m", {"quick": 2000, "thorough": None}),
    "k5": ("G_undo_k5.cfg", "m", {"thorough": None}),
    "k4f": ("G_undo_k4f.cfg", "m", {"thorough": 12000}),
    "c4t": ("G_undo_c4t.cfg", "t", {"thorough": 15000}),
    "c4a": ("G_undo_c4a.cfg", "a", {"thorough": 15000}),
    "c4m": ("G_undo_c4m.cfg", "m", {"thorough": 20000}),
    "f3t": ("G_undo_f3t.cfg", "t", {"thorough": 12000}),
    "f3a": ("G_undo_f3a.cfg", "a", {"thorough": 12000}),
    "f3m": ("G_undo_f3m.cfg", "m", {"thorough": 12000}),
    "g2t": ("G_undo_g2t.cfg", "t", {"thorough": 10000}),
    "g2a": ("G_undo_g2a.cfg", "a", {"thorough": 10000}),
    "g2m": ("G_undo_g2m.cfg", "m", {"thorough": 10000}),
    # XML scope (root fragment x): from the empty fragment (c*, f*, g*), with content of another origin prepared before the
    # manager starts (p*: trimmed edit menu), deep histories of ONE attribute of one element (xk*)
    "c3x": ("G_undo_c3x.cfg", "x", {"quick": 400, "thorough": 6000}),
    "p2x": ("G_undo_p2x.cfg", "xp", {"quick": 250, "thorough": 4000}),
    "f2x": ("G_undo_f2x.cfg", "x", {"quick": 400, "thorough": 4000}),
    "xk4": ("G_undo_xk4.cfg", "x", {"quick": 200, "thorough": 3000}),
    "pf2x": ("G_undo_pf2x.cfg", "xp", {"thorough": 3000}),
    "p3x": ("G_undo_p3x.cfg", "xp", {"thorough": 4000}),
    "c4x": ("G_undo_c4x.cfg", "x", {"thorough": 4000}),
    "f3x": ("G_undo_f3x.cfg", "x", {"thorough": 3000}),
    "g2x": ("G_undo_g2x.cfg", "x", {"thorough": 3000}),
    "xk5": ("G_undo_xk5.cfg", "x", {"thorough": 3000}),
    # "wiggle" shapes (MC_Undo constant Shape): prepared content, every edit its own capture step, then U^p (R U)^j U U R R:
    # an outer step is undone / redone / undone ... before older steps are undone (content re-created several times)
    "w2t": ("G_undo_w2t.cfg", "wt", {"quick": None, "thorough": None}),
    "w2a": ("G_undo_w2a.cfg", "wa", {"quick": None, "thorough": None}),
    "w2m": ("G_undo_w2m.cfg", "wm", {"quick": None, "thorough": None}),
    "w2x": ("G_undo_w2x.cfg", "wx", {"quick": None, "thorough": None}),
    # flat wiggles from the empty root: 3 edits in 3 capture steps (e.g. ins a | ins b | del both), then U R U U U R R
    "wz3t": ("G_undo_wz3t.cfg", "t", {"quick": None, "thorough": None}),
    "wz3a": ("G_undo_wz3a.cfg", "a", {"quick": None, "thorough": None}),
    "wz3m": ("G_undo_wz3m.cfg", "m", {"thorough": None}),
    "wf1x": ("G_undo_wf1x.cfg", "wx", {"quick": 100, "thorough": 1500}),
    "wf2x": ("G_undo_wf2x.cfg", "wx", {"thorough": 2000}),
    "wf2t": ("G_undo_wf2t.cfg", "wt", {"thorough": 1000}),
    "wf2a": ("G_undo_wf2a.cfg", "wa", {"thorough": 1000}),
    "wf2m": ("G_undo_wf2m.cfg", "wm", {"thorough": 1000}),
    "w3t": ("G_undo_w3t.cfg", "wt", {"thorough": 1500}),
    "w3a": ("G_undo_w3a.cfg", "wa", {"thorough": 1500}),
    "w3m": ("G_undo_w3m.cfg", "wm", {"thorough": 1500}),
    "w3x": ("G_undo_w3x.cfg", "wx", {"thorough": 2500}),
}
XML_GROUPS = [g for g in G_GROUPS if G_GROUPS[g][1] in ("x", "xp", "wx")]
# multi-operation transactions: programs of the base group in which every run of >= 2 consecutive tracked edits (no tick
# between them: one capture step anyway) is ONE transaction (step `umulti`); in every second variant the transaction also edits
# a root outside the scope.  name -> (base group, {tier: sample size})
MULTI_GROUPS = {
    "mt": ("c3t", {"quick": 60, "thorough": 1000}),
    "ma": ("c3a", {"quick": 60, "thorough": 1000}),
    "mm": ("c3m", {"quick": 60, "thorough": 1000}),
    "mx": ("c3x", {"quick": 60, "thorough": 1000}),
}
TIERS = {
    # "combined": several small groups share ONE X + V run (the fixed cost of a TLC start is paid once)
    "quick": {"gen": ["c3t", "c3a", "c3m", "k4", "f2t", "f2a", "f2m"],
              "combined": {"xml": ["c3x", "p2x", "f2x", "xk4", "deepx00"],
                           "wiggle": ["w2t", "w2a", "w2m", "w2x", "wz3t", "wz3a", "wf1x"],
                           "multi": ["mt", "ma", "mm", "mx"]},
              "deep": 2, "deep_n": 400, "deepx": 0, "deepx_n": 100},
    "thorough": {"gen": [g for g in G_GROUPS if g[0] != "w"], "combined": {"wiggle": [g for g in G_GROUPS if g[0] == "w"],
                                                                              "multi": list(MULTI_GROUPS)},
                 "deep": 12, "deep_n": 1500, "deepx": 4, "deepx_n": 1000},
}

OTHER = {"t": "m", "a": "t", "m": "a", "x": "m"}

# kind "xp": content created in the XML fragment by an UNTRACKED origin before the first tracked edit (MC_Undo constant Pre):
# X[<e.. id=..>[T("c")], T("cc")]
XML_PRE = [
    {"a": "uop", "op": "ins", "r": 1, "p": ["x"], "i": 0, "n": 1, "k": "E", "key": "", "o": ""},
    {"a": "uop", "op": "set", "r": 1, "p": ["x", "#e0"], "i": 0, "n": 1, "k": "u", "key": "id", "o": ""},
    {"a": "uop", "op": "ins", "r": 1, "p": ["x", "#e0"], "i": 0, "n": 1, "k": "X", "key": "", "o": ""},
    {"a": "uop", "op": "ins", "r": 1, "p": ["x"], "i": 1, "n": 2, "k": "X", "key": "", "o": ""},
]


def _h(*a):
    return int(hashlib.sha256(("|".join(str(x) for x in a)).encode()).hexdigest()[:12], 16)


def _u(op, p, i=0, n=1, k="u", key=""):
    return {"a": "uop", "op": op, "r": 1, "p": p, "i": i, "n": n, "k": k, "key": key, "o": ""}


# kinds "wt" / "wa" / "wm" / "wx": content prepared for the wiggle shapes (C0 of MC_Undo): "ccc" / [u, {k1:u}, u] /
# {k1:[u,u], k2:u} / the XML content above; created by the tracked origin (one capture step) or by another origin
WIGGLE_PRE = {
    "t": [_u("ins", ["t"], 0, 3)],
    "a": [_u("ins", ["a"], 0, 1), _u("ins", ["a"], 1, 1, k="M"), _u("ins", ["a"], 2, 1)],
    "m": [_u("set", ["m"], key="k1", k="A"), _u("ins", ["m", "k1"], 1, 1), _u("set", ["m"], key="k2")],
    "x": XML_PRE,
}


def _prologue(kind):
    """an edit of the TRACKED origin on a root outside the scope: must neither be captured nor ever be touched"""
    o = OTHER[kind[0]]
    if o == "m":
        return {"a": "uop", "op": "set", "r": 1, "p": ["m"], "key": "k9", "k": "u", "i": 0, "n": 1, "o": "U"}
    return {"a": "uop", "op": "ins", "r": 1, "p": [o], "i": 0, "n": 2 if o == "t" else 1, "k": "u", "key": "", "o": "U"}


def _closing(steps, idx):
    n = sum(1 for s in steps if s["a"] in ("uop", "umulti", "undo", "redo"))      # every such step takes one update slot
    out = list(steps)
    for i in range(1, n + 1):
        out.append({"a": "dlv", "r": 8, "u": [i], "enc": "v1" if (i + idx) % 2 else "v2", "shape": "flat", "diff": False})
    out.append({"a": "dlv", "r": 9, "u": list(range(1, n + 1)), "enc": "v2" if idx % 2 else "v1", "shape": "flat", "diff": False})
    for j, a in enumerate((1, 2)):
        out.append({"a": "sync", "f": 8, "t": a, "how": "diff" if (idx + j) % 2 == 0 else "state", "sv": "own", "closing": True})
    return out


def _cfg(idx, scope):
    c = {"replicas": [{"id": 1, "gc": True}, {"id": 2, "gc": idx % 2 == 0}, {"id": 8, "gc": True}, {"id": 9, "gc": False}],
         "followers": idx % 4 == 0, "offset": "utf16" if idx % 2 == 0 else "bytes", "ext": ["undo"],
         "undo": {"r": 1, "scope": scope, "origin": "U", "timeout": 500}}
    if "x" in scope:
        c["xml"] = True           # every replica declares the XML fragment root
    return c


def make_schedules(hists, gname, kind):
    out = []
    wiggle = kind[0] == "w"
    kind = kind[1] if wiggle else kind
    pre0 = WIGGLE_PRE[kind] if wiggle else XML_PRE if kind == "xp" else []
    kind = kind[0]
    for idx, h in enumerate(hists):
        # wiggle: the prepared content is of the tracked origin (captured, the bottom of the undo stack) in every second behaviour
        pre = [dict(s, o="U" if wiggle and idx % 2 == 1 else "") for s in pre0]
        steps = pre + [_prologue(kind), {"a": "tick", "ms": 600}]
        for s in h:
            s = dict(s)
            if s["a"] == "dlv":
                s["u"] = [x + 1 + len(pre) for x in s["u"]]      # the prepared content and the prologue took the first slots
            steps.append(s)
        # every fourth behaviour tracks the prologue's root as well (two tracked types, the prologue becomes a step)
        scope = [kind, OTHER[kind]] if idx % 4 == 3 else [kind]
        out.append({"bid": "%s-%06d" % (gname, idx), "cfg": _cfg(idx, scope), "steps": _closing(steps, idx)})
    return out


def _xml_edit(rnd, r, o):
    """one random edit of the XML fragment: root children, an element (attributes, children), a text node (characters,
    formatting), nodes nested in an element"""
    i = rnd.randrange(4)
    y = rnd.random()
    if y < 0.30:
        p = ["x"]
    elif y < 0.55:
        p = ["x", "#e%d" % rnd.randrange(2)]
    elif y < 0.80:
        p = ["x", "#t%d" % rnd.randrange(2)]
    elif y < 0.90:
        p = ["x", "#e%d" % rnd.randrange(2), "#t%d" % rnd.randrange(2)]
    else:
        p = ["x", "#e%d" % rnd.randrange(2), "#e%d" % rnd.randrange(2)]
    if p[-1].startswith("#t"):
        op = rnd.choice(["ins", "ins", "del", "fmt", "fmt"])
        return {"a": "uop", "op": op, "r": r, "p": p, "i": i, "n": rnd.choice([1, 1, 2]), "k": "u", "key": "b" if op == "fmt" else "", "o": o}
    if len(p) == 1 or rnd.random() < 0.5:
        op = rnd.choice(["ins", "ins", "del"])
        return {"a": "uop", "op": op, "r": r, "p": p, "i": i, "n": rnd.choice([1, 1, 2]), "k": rnd.choice(["E", "X"]) if op == "ins" else "u", "key": "", "o": o}
    return {"a": "uop", "op": rnd.choice(["set", "set", "rem"]), "r": r, "p": p, "i": 0, "n": 1, "k": "u", "key": rnd.choice(["id", "id", "cl"]), "o": o}


def _mop(s):
    return {k: s[k] for k in ("op", "p", "i", "n", "k", "key") if k in s}


def _outside(kind, j):
    """an operation on a root outside the scope (alternating insertion / removal)"""
    o = OTHER[kind]
    if o == "m":
        return {"op": "set" if j % 2 == 0 else "rem", "p": ["m"], "i": 0, "n": 1, "k": "u", "key": "k9"}
    return {"op": "ins" if j % 2 == 0 else "del", "p": [o], "i": 0, "n": 1, "k": "u", "key": ""}


def multi_variant(h, kind, mix):
    """the history with every run of >= 2 consecutive tracked edits merged into one transaction; None if there is no such run"""
    out, run, merged = [], [], 0

    def flush():
        nonlocal run, merged
        if len(run) >= 2:
            ops = [_mop(s) for s in run]
            if mix:
                ops.insert((merged + 1) % (len(ops) + 1), _outside(kind, merged))
            out.append({"a": "umulti", "r": 1, "o": "U", "ops": ops})
            merged += 1
        else:
            out.extend(run)
        run = []

    for s in h:
        if s["a"] == "uop" and s.get("o") == "U" and s["r"] == 1:
            run.append(s)
        else:
            flush()
            out.append(s)
    flush()
    return out if merged else None


def multi_scheds(gname, tier, workdir):
    base, samples = MULTI_GROUPS[gname]
    kind = G_GROUPS[base][1]
    hists, gstats = gen_hists(base, tier, workdir)
    vs = []
    for i, h in enumerate(hists):
        if any(s["a"] == "dlv" for s in h):
            continue                               # slot numbers of remote deliveries would have to be renumbered
        v = multi_variant(h, kind, i % 2 == 1)
        if v:
            vs.append(v)
    n = samples.get(tier)
    if n and len(vs) > n:
        rnd = random.Random(_h(vlib.seed(), gname))
        vs = [vs[i] for i in sorted(rnd.sample(range(len(vs)), n))]
    return make_schedules(vs, gname, kind)


def run_multi(gname, tier, workdir):
    return run_scheds(gname, multi_scheds(gname, tier, workdir), tier, workdir)


def run_combined(cname, members, tier, workdir):
    """the schedules of several groups (G groups, multi groups, `deepxNN`) in ONE X + V run; r["parts"] = per member
    {"n": schedules, "g": G statistics or None}"""
    scheds, parts = [], {}
    for g in members:
        if g in MULTI_GROUPS:
            sc, gs = multi_scheds(g, tier, workdir), None
        elif g.startswith("deepx"):
            sc, gs = deep_schedules(int(g[5:]), TIERS[tier]["deepx_n"], vlib.seed(), xml=True), None
        else:
            hists, gs = gen_hists(g, tier, workdir)
            sc = make_schedules(hists, g, G_GROUPS[g][1])
        parts[g] = {"n": len(sc), "g": gs}
        scheds += sc
    r = run_scheds("%s-%s" % (cname, hashlib.sha256(",".join(members).encode()).hexdigest()[:8]), scheds, tier, workdir)
    r["parts"] = parts
    return r


def deep_schedules(ix, n, seed, xml=False):
    """seeded long programs: addresses are resolved by X against the current state, so any word is executable.
    xml: the XML fragment is (one of) the tracked root(s); a separate seeded family (the draws of the other one are unchanged)"""
    rnd = random.Random(_h(seed, "deepx" if xml else "deep", ix))
    scopes = [["x"], ["x"], ["x", "m"], ["t", "x"]] if xml else [["t"], ["a"], ["m"], ["t", "m"], ["a", "m"], ["t", "a", "m"]]
    out = []
    for b in range(n):
        scope = scopes[rnd.randrange(len(scopes))]
        nops = rnd.choice([10, 14, 20, 30])
        pf = rnd.choice([0.0, 0.0, 0.1, 0.25])        # share of foreign activity
        steps, slots, inflight = [], 0, []

        def edit(r, o):
            root = rnd.choice(scope) if rnd.random() < 0.85 else rnd.choice(["t", "a", "m"])
            if root == "x":
                return _xml_edit(rnd, r, o)
            i = rnd.randrange(4)
            if root == "t":
                return {"a": "uop", "op": rnd.choice(["ins", "ins", "del"]), "r": r, "p": ["t"], "i": i, "n": rnd.choice([1, 1, 2]), "k": "u", "key": "", "o": o}
            if root == "a":
                if rnd.random() < 0.3:
                    return {"a": "uop", "op": rnd.choice(["set", "set", "rem", "ins", "del"]), "r": r, "p": ["a", "#%d" % rnd.randrange(2)],
                            "i": i, "n": 1, "k": "u", "key": rnd.choice(["k1", "k3"]), "o": o}
                return {"a": "uop", "op": rnd.choice(["ins", "ins", "del"]), "r": r, "p": ["a"], "i": i, "n": 1,
                        "k": rnd.choice(["u", "u", "u", "M", "A"]), "key": "", "o": o}
            key = rnd.choice(["k1", "k2"])
            if rnd.random() < 0.35:
                return {"a": "uop", "op": rnd.choice(["ins", "ins", "del", "set", "rem"]), "r": r, "p": ["m", key], "i": i, "n": 1, "k": "u",
                        "key": rnd.choice(["k1", "k3"]), "o": o}
            return {"a": "uop", "op": rnd.choice(["set", "set", "rem"]), "r": r, "p": ["m"], "key": key, "k": rnd.choice(["u", "u", "A", "M"]),
                    "i": 0, "n": 1, "o": o}

        # thresholds of tracked edit / tick / undo / redo (rest: stop) among the manager's own activity
        te, tt, tu, tr = (0.55, 0.68, 0.84, 0.96) if xml else (0.45, 0.60, 0.80, 0.96)
        if xml:
            # the fragment starts with some structure (tracked: captured as one or several steps; or of another origin)
            o = rnd.choice(["U", "U", ""])
            for st in XML_PRE[:rnd.choice([2, 3, 4, 4])]:
                steps.append(dict(st, o=o))
                slots += 1
                if o == "U" and rnd.random() < 0.5:
                    steps.append({"a": "tick", "ms": 600})
        for _ in range(nops):
            x = rnd.random()
            if x < pf:
                y = rnd.random()
                if y < 0.4:
                    steps.append(edit(1, rnd.choice(["X", ""])))
                    slots += 1
                elif y < 0.8:
                    if rnd.random() < 0.7:
                        steps.append({"a": "sync", "f": 1, "t": 2, "how": rnd.choice(["state", "diff"]), "sv": "own"})
                    steps.append(edit(2, ""))
                    slots += 1
                    inflight.append(slots)
                elif inflight:
                    steps.append({"a": "dlv", "r": 1, "u": [inflight.pop(rnd.randrange(len(inflight)))]})
            elif x < pf + te * (1 - pf):
                if xml and rnd.random() < 0.15:
                    # several operations in ONE tracked transaction (now and then one of them outside the scope)
                    ops = [_mop(edit(1, "U")) for _ in range(rnd.choice([2, 2, 3]))]
                    steps.append({"a": "umulti", "r": 1, "o": "U", "ops": ops})
                else:
                    steps.append(edit(1, "U"))
                slots += 1
            elif x < pf + tt * (1 - pf):
                steps.append({"a": "tick", "ms": rnd.choice([600, 600, 200])})
            elif x < pf + tu * (1 - pf):
                steps.append({"a": "undo", "r": 1})
                slots += 1
            elif x < pf + tr * (1 - pf):
                steps.append({"a": "redo", "r": 1})
                slots += 1
            else:
                steps.append({"a": "ustop", "r": 1})
        for s in inflight:
            steps.append({"a": "dlv", "r": 1, "u": [s]})
        out.append({"bid": "deep%s%02d-%05d" % ("x" if xml else "", ix, b), "cfg": _cfg(b, scope), "steps": _closing(steps, b)})
    return out


def nontrivial(s):
    """a behaviour is non-trivial when an undo or redo call follows at least one captured edit"""
    seen = False
    for st in s["steps"]:
        if st["a"] in ("uop", "umulti") and st.get("o") == "U" and st["r"] == 1:
            seen = True
        if st["a"] in ("undo", "redo") and seen:
            return True
    return False


# ------------------------------------------------------------------------------------------------

def gen_hists(gname, tier, workdir):
    seed = vlib.seed()
    cpath = yata_pipe._cache_path(vlib.tree_hash(), "Gundo", gname, tier, seed)
    if os.path.exists(cpath):
        with open(cpath) as f:
            d = json.load(f)
        return d["hists"], d["stats"]
    cfg, kind, samples = G_GROUPS[gname]
    g = vlib.generate("MC_Undo", cfg, os.path.join(workdir, gname, "g"), workers=min(10, PAR))
    hists = g["replay"]
    total = len(hists)
    hists.sort(key=lambda h: json.dumps(h, sort_keys=True))
    n = samples.get(tier)
    if n and len(hists) > n:
        # stratified by number of foreign edits so that clean and mixed programs are both represented
        rnd = random.Random(_h(seed, gname))
        strata = {}
        for h in hists:
            k = sum(1 for s in h if s["a"] == "uop" and s.get("o") != "U")
            strata.setdefault(k, []).append(h)
        per = max(1, n // len(strata))
        hists, rest = [], []
        for k in sorted(strata):
            pick = set(rnd.sample(range(len(strata[k])), min(per, len(strata[k]))))
            hists += [h for i, h in enumerate(strata[k]) if i in pick]
            rest += [h for i, h in enumerate(strata[k]) if i not in pick]
        if len(hists) < n:
            hists += rnd.sample(rest, min(n - len(hists), len(rest)))
        hists.sort(key=lambda h: json.dumps(h, sort_keys=True))
    stats = {"distinct": g["distinct"], "generated": g["generated"], "depth": g["depth"], "wall": g["wall"], "replay": total,
             "coverage": g.get("coverage", {})}
    with open(cpath, "w") as f:
        json.dump({"hists": hists, "stats": stats}, f)
    return hists, stats


def _yx(sf, tf):
    """one yx process; returns (stats or None, rc).  rc < 0 / 128+n = killed by a signal (the library crashed)"""
    rc, out = vlib.sh([vlib.YX, "yata-run", "--in", sf, "--out", tf, "--seed", str(vlib.seed()), "--repeat", str(REPEAT)], timeout=3600)
    if rc == 0:
        try:
            return json.loads(out.strip().splitlines()[-1]), 0
        except Exception:
            return {}, 0
    return None, rc


def _crashed(rc):
    return rc < 0 or rc in (134, 139)


def run_x_parallel(scheds, wd):
    """splits the schedules, runs XPAR yx processes, concatenates the traces in schedule order.  A process killed by a
    signal (memory fault inside the library: cannot be caught in-process) is re-run behaviour by behaviour; a behaviour
    that kills its process is recorded as a `crash` event (V: C12_NoFailure)."""
    per = max(1, (len(scheds) + XPAR - 1) // XPAR)
    parts = [scheds[i:i + per] for i in range(0, len(scheds), per)]
    files = []
    for i, p in enumerate(parts):
        sf = os.path.join(wd, "s%02d.ndjson" % i)
        with open(sf, "w") as f:
            for s in p:
                f.write(json.dumps(s) + "\n")
        files.append((sf, os.path.join(wd, "t%02d.ndjson" % i), p))

    def one(ft):
        sf, tf, part = ft
        st, rc = _yx(sf, tf)
        if st is not None:
            return st
        if not _crashed(rc):
            raise vlib.ToolError("yx yata-run failed (rc %d) on %s" % (rc, sf))
        tot = {"behaviours": 0, "events": 0, "crashes": 0}
        with open(tf, "w") as out:
            for k, s in enumerate(part):
                s1, t1 = sf + ".one", tf + ".one"
                with open(s1, "w") as f:
                    f.write(json.dumps(s) + "\n")
                st1, rc1 = _yx(s1, t1)
                if st1 is not None:
                    with open(t1) as f:
                        shutil.copyfileobj(f, out)
                    tot["events"] += st1.get("events", 0)
                elif _crashed(rc1):
                    out.write(json.dumps({"bid": s["bid"], "cfg": s["cfg"], "k": "reset"}) + "\n")
                    out.write(json.dumps({"k": "crash", "rc": rc1}) + "\n")
                    tot["crashes"] += 1
                    tot["events"] += 1
                else:
                    raise vlib.ToolError("yx yata-run failed (rc %d) on behaviour %s" % (rc1, s["bid"]))
                tot["behaviours"] += 1
                for x in (s1, t1):
                    if os.path.exists(x):
                        os.remove(x)
        return tot

    with ThreadPoolExecutor(max_workers=XPAR) as ex:
        stats = list(ex.map(one, files))
    tfile = os.path.join(wd, "trace.ndjson")
    with open(tfile, "w") as out:
        for _, tf, _ in files:
            with open(tf) as f:
                shutil.copyfileobj(f, out)
            os.remove(tf)
    for sf, _, _ in files:
        os.remove(sf)
    return tfile, {"behaviours": sum(s.get("behaviours", 0) for s in stats), "events": sum(s.get("events", 0) for s in stats),
                   "crashes": sum(s.get("crashes", 0) for s in stats)}


def _slim(e):
    """what known-finding patterns may look at (tools/patterns.py): the C12-relevant part of an event"""
    out = {k: e[k] for k in ("k", "r", "t", "call", "ret", "us", "rs", "uv", "uc", "stk", "alias", "outcome", "u") if k in e}
    if "upd" in e:
        out["upd"] = {"ins": [{k: u[k] for k in ("id", "o", "ro", "cont", "sub", "par", "kind")} for u in e["upd"].get("ins", [])],
                      "del": e["upd"].get("del", [])}
    if "obs" in e and e.get("k") == "loc":
        out["obs"] = {"lst": e["obs"].get("lst", {}), "dead": e["obs"].get("dead", []), "gone": e["obs"].get("gone", [])}
    if e.get("k") == "nondet" and isinstance(e.get("alt"), dict):
        out["at"] = e.get("at")
        out["alt"] = _slim(e["alt"])           # the first differing event as the OTHER execution recorded it
    return out


def run_scheds(gname, scheds, tier, workdir, gstats=None):
    """X -> V for a list of schedules; result dict in the format of yata_pipe._xv (cached by tree hash)"""
    seed = vlib.seed()
    cpath = yata_pipe._cache_path(vlib.tree_hash(), ENGINE, gname, tier, seed)
    if os.path.exists(cpath):
        with open(cpath) as f:
            r = json.load(f)
        r["cached"] = True
        return r
    wd = os.path.join(workdir, ENGINE + "-" + gname)
    shutil.rmtree(wd, ignore_errors=True)
    os.makedirs(wd)
    t0 = time.time()
    tfile, xs = run_x_parallel(scheds, wd)
    tv = time.time()
    merged = vlib.validate(TRACE[0], TRACE[1], tfile, os.path.join(wd, "v"), parallel=min(10, PAR))
    by_bid = {s["bid"]: s for s in scheds}
    bad = {}
    for bid, pred, line in merged["viol"]:
        bad.setdefault(bid, []).append([pred, line])
    evs = {}
    if bad:
        cur = None
        with open(tfile) as f:
            for ln in f:
                if ln.startswith('{"bid":'):
                    cur = json.loads(ln)["bid"]
                    cur = cur if cur in bad else None
                    if cur:
                        evs[cur] = []
                elif cur:
                    evs[cur].append(json.loads(ln))
    res_bad = {}
    for b, preds in bad.items():
        k = min(p[1] for p in preds)
        tr = evs.get(b, [])
        res_bad[b] = {"preds": preds, "schedule": by_bid.get(b, {}),
                      "event": _slim(tr[k - 1]) if 1 <= k <= len(tr) else None,
                      "trace": [_slim(e) for e in tr[:k]]}
    nt = [hashlib.sha256(json.dumps(s["steps"], sort_keys=True).encode()).hexdigest()[:16] for s in scheds if nontrivial(s)]
    res = {"group": gname, "engine": ENGINE, "g": gstats, "x": xs, "x_wall": tv - t0, "v_wall": time.time() - tv, "merged": merged,
           "bad": res_bad, "nontrivial": sorted(set(nt)),
           "samples": scheds[:1] + scheds[len(scheds) // 2:len(scheds) // 2 + 1], "wall": time.time() - t0, "cached": False}
    with open(cpath, "w") as f:
        json.dump(res, f)
    if not bad:
        try:
            os.remove(tfile)
        except OSError:
            pass
    return res


def run_group(gname, tier, workdir):
    hists, gstats = gen_hists(gname, tier, workdir)
    return run_scheds(gname, make_schedules(hists, gname, G_GROUPS[gname][1]), tier, workdir, gstats)


def run_deep(ix, tier, workdir):
    return run_scheds("deep%02d" % ix, deep_schedules(ix, TIERS[tier]["deep_n"], vlib.seed()), tier, workdir)


def run_deepx(ix, tier, workdir):
    return run_scheds("deepx%02d" % ix, deep_schedules(ix, TIERS[tier]["deepx_n"], vlib.seed(), xml=True), tier, workdir)


# ------------------------------------------------------------------------------------------------
# plugin interface

PROPS = ["C12"]
PREFIXES = ["C12_"]


def check(prop, tier):
    ev = vlib.Evidence(prop, tier)
    bt = vlib.build_harness("yx")
    wd = os.path.join(vlib.WORK, "run-%s" % prop)
    plan = dict(TIERS[tier])
    only = os.environ.get("VERIF_ONLY_GROUPS")      # development aid (mutant triage): e.g. "c3x,p2x,deepx00"; never set by registered checks
    if only:
        only = set(only.split(","))
        plan["gen"] = [g for g in plan["gen"] if g in only]
        plan["multi"] = [g for g in plan.get("multi", []) if g in only]
        plan["combined"] = {c: [g for g in ms if g in only] for c, ms in plan.get("combined", {}).items()}
        plan["deep_ix"] = [i for i in range(plan["deep"]) if "deep%02d" % i in only]
        plan["deepx_ix"] = [i for i in range(plan["deepx"]) if "deepx%02d" % i in only]
    results = []
    exhaustive = []
    for g in plan["gen"]:
        r = run_group(g, tier, wd)
        results.append(r)
        gs = r["g"]
        # the G run is also the design check of the inverse-law operators (invariants of MC_Undo in every state)
        ev.add_tlc(G_GROUPS[g][0], {"distinct": gs["distinct"], "generated": gs["generated"], "depth": gs["depth"], "wall": gs["wall"],
                                    "replay": [0] * gs["replay"], "coverage": gs.get("coverage")}, "G")
        ev.add_v(g, r["merged"], r["nontrivial"], r["v_wall"])
        if r["merged"]["cnt"]["beh"] == gs["replay"]:
            exhaustive.append(g)
        for s in r["samples"]:
            ev.sample(s)
    for g in plan.get("multi", []):
        r = run_multi(g, tier, wd)
        results.append(r)
        ev.add_v(r["group"], r["merged"], r["nontrivial"], r["v_wall"])
    xml_counts = {}
    for cname, members in plan.get("combined", {}).items():
        if not members:
            continue
        r = run_combined(cname, members, tier, wd)
        results.append(r)
        for g, part in r["parts"].items():
            gs = part["g"]
            if gs:
                ev.add_tlc(G_GROUPS[g][0], {"distinct": gs["distinct"], "generated": gs["generated"], "depth": gs["depth"], "wall": gs["wall"],
                                            "replay": [0] * gs["replay"], "coverage": gs.get("coverage")}, "G")
                if part["n"] == gs["replay"]:
                    exhaustive.append(g)
            if g in XML_GROUPS or g.startswith("deepx") or g == "mx":
                xml_counts[g] = part["n"]
        ev.add_v(cname + ":" + "+".join(members), r["merged"], r["nontrivial"], r["v_wall"])
        for sm in r["samples"]:
            ev.sample(sm)
    for i in plan.get("deep_ix", range(plan["deep"])):
        r = run_deep(i, tier, wd)
        results.append(r)
        ev.add_v(r["group"], r["merged"], r["nontrivial"], r["v_wall"])
    for i in plan.get("deepx_ix", range(plan["deepx"])):
        r = run_deepx(i, tier, wd)
        results.append(r)
        ev.add_v(r["group"], r["merged"], r["nontrivial"], r["v_wall"])
    ev.cov["rule"] = ("behaviours = programs enumerated by TLC from MC_Undo (per tracked root kind text / array with nested map / "
                      "map with nested arrays / XML fragment [elements with attributes and children, text nodes with characters and "
                      "formatting; from the empty fragment and on content prepared by another origin]: "
                      "every sequence of tracked edits within the bound, every grouping into capture steps "
                      "by ticks / stop, every undo/redo word of the given length at every position, foreign local edits and remote "
                      "edits of replica 2 with delayed delivery) -- sampled per stratum (number of foreign edits) where the group is "
                      "larger than the tier's budget -- plus seeded deep programs; each executed 5 times on the real library and "
                      "validated by TLC against Trace_Undo; non-trivial = an undo/redo call follows a captured edit; "
                      "groups enumerated completely: " + (", ".join(exhaustive) or "none"))
    ev.cov["exhaustive"] = False
    ev.cov["exhaustive_groups"] = exhaustive
    ev.cov["repeat_per_behaviour"] = REPEAT
    xml_counts.update({r["group"]: r["merged"]["cnt"]["beh"] for r in results
                       if r["group"] in XML_GROUPS or r["group"].startswith("deepx")})
    ev.cov["xml_groups"] = xml_counts
    ev.cov["harness_build_s"] = round(bt, 1)
    ev.assumptions = ["TLC, CommunityModules", "harness adapters and observation functions (obs.rs, codec.rs, ext/undo.rs)",
                      "hook H1 (yrs::verif) reports the item lists faithfully",
                      "content views are compared by value (canonical rendering through the public read API)"]
    rc = vlib.report(prop, ev, results, PREFIXES)
    ev.write()
    return rc


def manifest_entries():
    return [{
        "property_id": "C12",
        "quick_cmd": "./check C12 --tier quick",
        "thorough_cmd": "./check C12 --tier thorough",
        "evidence_file": "evidence/C12.json",
        "replay_cmd_template": "./check replay {path}",
        "engine": "TLC (MC_Undo: program enumeration + design invariants; Trace_Undo: trace validation) + harness ext/undo.rs",
        "level_claimed": {"category": "model_checking",
                          "text": "bounded: TLC-enumerated undo/redo programs over text, array, map and XML scopes (<= 3 tracked edits "
                                  "x every undo/redo word of length 3 quick; <= 4-5 edits, <= 2 foreign edits thorough) and seeded "
                                  "deep programs, executed on the real UndoManager and validated against the inverse-law / isolation "
                                  "specification",
                          "design_ref": "DESIGN.md section 6/C12, section 3.5"},
        "level_note": "inverse law checked wherever no other origin edited a tracked type since the boundary; otherwise isolation "
                      "predicates only (re-creation position is implementation freedom); XML scope = one fragment root with "
                      "elements (attributes, children), text nodes (characters, one format key), nesting depth <= 3; XML hooks / "
                      "embeds inside XML text are not generated",
        "technique": "explicit TLA+ specification + TLC + conformance binding (G->X->V)",
    }]
