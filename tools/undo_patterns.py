"""Structural patterns of the C12 (undo / redo) known-finding candidates.  To be imported by tools/patterns.py
(`from undo_patterns import *`).  Each function gets the info dict of one violating behaviour as produced by
tools/undo_pipe.py: {"preds": [[pred, event ordinal]], "schedule": {...}, "event": failing event (slim),
"trace": [slim events up to and including the failing one]}.  Slim events carry k, r, call, ret, us, rs, uv, stk
(id sets of every stack item BEFORE an undo/redo call), upd {ins: [{id,o,ro,cont,sub,par,kind}], del}, obs {lst, dead, gone},
alias (undo / redo calls only: classes of element ids that carried the same value, in order of creation = an element and its
re-created copies, including the copies made by this call)."""

INVERSE = {"C12_OneStep", "C12_InverseUndo", "C12_InverseRedo", "C12_ReturnValue"}


def _ids(ranges):
    return {(c, k) for c, a, b in ranges for k in range(a, b)}


def _mgr(info):
    u = (info.get("schedule") or {}).get("cfg", {}).get("undo") or {}
    return u.get("r", 1), u.get("origin", "")


def _is_pop(e):
    return bool(e) and e.get("k") == "loc" and e.get("call", {}).get("a") in ("undo", "redo")


def _own_ids(info):
    """ids created at the manager's replica by transactions of the tracked origin or by undo / redo calls"""
    r, origin = _mgr(info)
    own = set()
    for e in info.get("trace") or []:
        if e.get("k") == "loc" and e.get("r") == r and (_is_pop(e) or (e.get("call", {}).get("o") or "") == origin):
            own.update(tuple(u["id"]) for u in e.get("upd", {}).get("ins", []))
    return own


def c12_redo_refused_own_tombstone_neighbour(info):
    """The inverse law fails at an undo / redo call that had to re-create a MAP ENTRY (an entry of a map, or an ATTRIBUTE of
    an XML element / text node: both are keyed chains `<parent>|<key>`) and did not: in the entry's chain
    everything to the right of it is a tombstone created by the manager's own replica under the tracked origin (or by an
    earlier undo / redo) -- no element of another origin is involved -- and at least one of these tombstones is recorded as
    deleted in no stack item that still existed when the entry was processed (its own stack item was passed over and
    dropped as net-zero, consumed by an earlier call, or cleared with the redo stack).  ItemPtr::redo takes such a right
    neighbour for a change of another client and refuses."""
    e = info.get("event")
    if not _is_pop(e) or "stk" not in e or "obs" not in e:
        return False
    if not all(p[0] in INVERSE for p in info["preds"] if p[0].startswith("C12_")):
        return False
    undo = e["call"]["a"] == "undo"
    stack = e["stk"]["u" if undo else "r"]
    other = e["stk"]["r" if undo else "u"]
    left = e["us"] if undo else e["rs"]
    if left >= len(stack):
        return False
    own = _own_ids(info)
    dead = {tuple(x) for x in e["obs"]["dead"]}
    lst = {c: [tuple(x) for x in v] for c, v in e["obs"]["lst"].items()}
    new_conts = {u["cont"] for u in e["upd"]["ins"]}
    other_del = set()
    for it in other:
        other_del |= _ids(it["del"])
    for j in range(len(stack) - 1, left - 1, -1):          # consumed items, top first
        item = stack[j]
        below_del = set(other_del)
        for it in stack[:j]:
            below_del |= _ids(it["del"])
        ins = _ids(item["ins"])
        for d in _ids(item["del"]) - ins:
            for c, chain in lst.items():
                if d not in chain or c.split("|", 1)[1] == "":
                    continue
                right = chain[chain.index(d) + 1:]
                if (d in dead and c not in new_conts and right
                        and all(x in dead and x in own for x in right)
                        and any(x not in below_del and x not in ins for x in right)):
                    return True
    return False


def _nondet_candidates(info):
    """C12_Deterministic: the event at which two executions of the same schedule differed, as recorded by either execution
    (the slim `nondet` event carries `at` and `alt`); element ids of the two executions are unrelated, so a candidate may
    only be examined through what it carries itself (stk, alias, upd, obs)"""
    e = info.get("event") or {}
    trace = info.get("trace") or []
    out = []
    if e.get("k") == "nondet" and e.get("at"):
        if 1 <= e["at"] <= len(trace):
            out.append(trace[e["at"] - 1])
        if isinstance(e.get("alt"), dict):
            out.append(e["alt"])
    return out


def _wrong_copy_removed(e):
    """an undo / redo call removed the re-created copy of an element that NO consumed stack item records as inserted, while
    the copy of an element that IS recorded stays alive in the same chain (Store::follow_redone continued with the `redone`
    pointer of a squashed block without the offset of the unit it was following)"""
    if not _is_pop(e) or "stk" not in e or "obs" not in e or not e.get("alias"):
        return False
    undo = e["call"]["a"] == "undo"
    stack = e["stk"]["u" if undo else "r"]
    left = e["us"] if undo else e["rs"]
    if left >= len(stack):
        return False
    cls = {}
    for g in e["alias"]:
        g = [tuple(x) for x in g]
        for x in g:
            cls[x] = g
    ins = set()
    for item in stack[left:]:
        ins |= _ids(item["ins"])
    dead = {tuple(x) for x in e["obs"]["dead"]} | {tuple(x) for x in e["obs"].get("gone", [])}
    lst = {c: [tuple(x) for x in v] for c, v in e["obs"]["lst"].items()}
    made_now = {tuple(u["id"]) for u in e["upd"]["ins"]}
    for d in (tuple(x) for x in e["upd"]["del"]):
        g = cls.get(d)
        if d in ins or d in made_now or not g or g[0] == d or any(x in ins for x in g):
            continue                                  # d is a copy of an element the consumed steps did not insert
        for chain in lst.values():
            if d not in chain:
                continue
            # an element recorded as inserted (or a copy of one) is still alive in that chain
            if any(z not in dead and (z in ins or any(x in ins for x in cls.get(z, []))) for z in chain):
                return True
    return False


def c12_undo_misses_split_copy(info):
    """The inverse law fails at an undo / redo call that had to remove what a captured step inserted: two consecutive units
    x, x+1 of ONE inserted run (text characters / array values: x+1 was inserted with origin x by the same transaction), both
    recorded as insertions of a consumed stack item, had been deleted and re-created by an earlier undo / redo (the item's
    `redone` pointer names the copy of its FIRST unit), and the copy was split afterwards (something was inserted between the
    two copies, or one of them was deleted and re-created again): the call removed the copy of x and left the copy of x+1
    alive.  UndoManager::try_process follows `redone` once per captured item and deletes only the block that starts there
    and looks at no unit behind the first fragment.
    (A second form of the same routine - Store::follow_redone dropped the offset inside a squashed block on later hops, the
    call removed the copy of ANOTHER unit, hash-order dependent - was repaired in /repo by 78d3388; `_wrong_copy_removed` /
    `_nondet_candidates` recognise it and are kept for triage only, no known finding refers to them.)"""
    e = info.get("event")
    if not _is_pop(e) or "stk" not in e or "obs" not in e or not e.get("alias"):
        return False
    if not all(p[0] in INVERSE for p in info["preds"] if p[0].startswith("C12_")):
        return False
    undo = e["call"]["a"] == "undo"
    stack = e["stk"]["u" if undo else "r"]
    left = e["us"] if undo else e["rs"]
    if left >= len(stack):
        return False
    cls = {}
    for g in e["alias"]:
        g = [tuple(x) for x in g]
        for x in g:
            cls[x] = g
    origin_of, born = {}, {}
    for n, ev in enumerate(info.get("trace") or []):
        for u in ev.get("upd", {}).get("ins", []):
            origin_of[tuple(u["id"])] = tuple(u["o"])
            born[tuple(u["id"])] = n
    dead = {tuple(x) for x in e["obs"]["dead"]} | {tuple(x) for x in e["obs"].get("gone", [])}
    lst = {c: [tuple(x) for x in v] for c, v in e["obs"]["lst"].items()}
    removed_now = {tuple(x) for x in e["upd"]["del"]}

    def chain_of(z):
        for c, chain in lst.items():
            if z in chain:
                return chain
        return None

    for item in stack[left:]:
        ins = _ids(item["ins"])
        for x in ins:
            y = (x[0], x[1] + 1)
            if y not in ins or x not in dead or y not in dead or origin_of.get(y) != x or born.get(x) != born.get(y):
                continue
            cx, cy = cls.get(x, [x])[1:], cls.get(y, [y])[1:]
            gone_x = [z for z in cx if z in removed_now]
            alive_y = [z for z in cy if z not in dead and chain_of(z) is not None]
            for a in gone_x:
                for b in alive_y:
                    chain = chain_of(b)
                    if a not in chain:
                        continue
                    split = (a[0], a[1] + 1) != b or chain.index(b) != chain.index(a) + 1
                    if split:
                        return True
    return False


def c12_redo_splits_collected_block(info):
    """The inverse law fails at an undo / redo call that had to re-create a nested sequence (array, text, XML text node)
    TOGETHER WITH its elements: one element z that the call had to re-create (recorded as deleted in a consumed stack item, its
    container's owner as well) was not re-created, and z is (a) itself the re-created copy of an element w that still sits to
    its right in the old chain (w.redone -> z) and (b) a non-first unit of a squashed block (its left neighbour in the chain has
    the preceding clock of the same client and is recorded in the same deletions).  ItemPtr::redo, tracing the right neighbours
    of the block it re-creates (or of another block to its left) through their `redone` pointers, materializes w.redone = z and
    thereby SPLITS the collected block; the split-off part is in no `to_redo` entry and is never re-created."""
    e = info.get("event")
    if not _is_pop(e) or "stk" not in e or "obs" not in e or not e.get("alias"):
        return False
    if not all(p[0] in INVERSE for p in info["preds"] if p[0].startswith("C12_")):
        return False
    undo = e["call"]["a"] == "undo"
    stack = e["stk"]["u" if undo else "r"]
    left = e["us"] if undo else e["rs"]
    if left >= len(stack):
        return False
    cls = {}
    for g in e["alias"]:
        g = [tuple(x) for x in g]
        for x in g:
            cls[x] = g
    dead = {tuple(x) for x in e["obs"]["dead"]}
    made_now = {tuple(u["id"]) for u in e["upd"]["ins"]}
    want = set()
    for item in stack[left:]:
        want |= _ids(item["del"]) - _ids(item["ins"])
    for c, chain in e["obs"]["lst"].items():
        head, sub = c.split("|", 1)
        if sub != "" or ":" not in head:
            continue                                     # nested sequences only
        owner = tuple(int(x) for x in head.split(":"))
        if owner not in want or owner not in dead:
            continue
        chain = [tuple(x) for x in chain]
        for i, z in enumerate(chain):
            if i == 0 or z not in want or z not in dead or z not in cls:
                continue
            g = cls[z]
            earlier = g[:g.index(z)]
            if any(x in made_now for x in g):
                continue                                 # z was re-created by this call
            y = chain[i - 1]
            if y != (z[0], z[1] - 1) or y not in want:
                continue
            if any(w in chain[i + 1:] for w in earlier):
                return True
    return False


def c12_redo_right_origin_is_origin(info):
    """An undo / redo call re-created a nested container together with its children and one re-created child carries a right
    origin EQUAL to its origin (ill-formed position: C04_Between, reported for the call as C12_Replicated / C12_Converge).
    ItemPtr::redo finds the right neighbour in the new parent by following the `redone` pointers of the old right siblings; an
    original sits to the right of its own copy in the old chain, so the newest copy of such a sibling can be the item already
    chosen as LEFT neighbour."""
    e = info.get("event")
    if not _is_pop(e):
        return False
    preds = {p[0] for p in info["preds"] if p[0].startswith("C12_")}
    if not preds <= {"C12_Replicated", "C12_Converge"}:
        return False
    if not any(u["kind"] == "type" for u in e["upd"]["ins"]):
        return False
    return any(tuple(u["o"]) != (0, 0) and tuple(u["o"]) == tuple(u["ro"]) for u in e["upd"]["ins"])


def _recreated_families(trace):
    """(container element, children) re-created together by one undo / redo call"""
    fams = []
    for e in trace:
        if not _is_pop(e):
            continue
        units = e.get("upd", {}).get("ins", [])
        for t in units:
            if t["kind"] == "type":
                kids = [tuple(u["id"]) for u in units if tuple(u["par"]) == tuple(t["id"]) and u["sub"] == ""]
                if len(kids) >= 2:
                    fams.append((tuple(t["id"]), set(kids)))
    return fams


def c12_recreated_siblings_squashed(info):
    """F12: an undo / redo call re-created a container TOGETHER WITH >= 2 of its sequence elements (UndoManager::try_process
    walks a HashSet<ItemPtr>: the clocks given to the copies depend on hash order; copies with consecutive clocks are
    squashed into one block) and a LATER call, following an element's `redone` pointer, deleted the whole squashed block
    (>= 2 re-created siblings with consecutive clocks) -- or repeated executions diverged after such a re-creation."""
    trace = info.get("trace") or []
    fams = _recreated_families(trace[:-1])
    if not fams:
        return False
    preds = {p[0] for p in info["preds"] if p[0].startswith("C12_")}
    e = info.get("event") or {}
    if preds == {"C12_Deterministic"}:
        return e.get("k") == "nondet" and any(_is_pop(x) for x in trace)
    if not _is_pop(e) or not preds <= INVERSE:
        return False
    dele = {tuple(x) for x in e.get("upd", {}).get("del", [])}
    for _, kids in fams:
        hit = dele & kids
        if any((c, k + 1) in hit for c, k in hit):
            return True
    return False


def c12_entry_recreated_into_old_parent(info):
    """F13: an undo / redo call re-created a nested map (or array holding one) and, in the same transaction, an entry of
    that map whose `left` was taken from the chain of the OLD, deleted parent: the copy is wired into the deleted parent's
    chain (remote replicas integrate it there, the re-created parent stays empty -> divergence, C12_Replicated /
    C12_Converge, C04_Placed, C05_DeadExact, C07_FollowerEqual)."""
    e = info.get("event")
    if not _is_pop(e) or "obs" not in e:
        return False
    preds = {p[0] for p in info["preds"] if p[0].startswith("C12_")}
    if not preds <= {"C12_Replicated", "C12_Converge"}:
        return False
    units = e["upd"]["ins"]
    dead = {tuple(x) for x in e["obs"]["dead"]}
    types = [u for u in units if u["kind"] == "type"]
    for u in units:
        # a keyed unit whose (origin-inherited) parent element is dead although a container was re-created in this call
        if u["sub"] != "" and tuple(u["o"]) != (0, 0) and tuple(u["par"]) in dead and types:
            return True
    return False


PROPOSED_KNOWN = [
    {"id": "KF-C12-1", "property": "C12", "predicate": "C12_OneStep",
     "pattern": "c12_redo_refused_own_tombstone_neighbour",
     "what": "undo/redo does not restore a map entry although no other origin ever edited: ItemPtr::redo refuses to re-create "
             "an entry whose right neighbours in the key's chain are tombstones of the tracked origin itself that no remaining "
             "stack item records as deleted (set+remove inside one capture step that was passed over and dropped, or whose "
             "redo-stack item was consumed / cleared) -- e.g. S1 m.k1=2; S2 remove k1; S3 m.k1=5, remove k1; undo -> {} instead "
             "of {k1:2}. Same rule as Yjs (redoItem); a repair would have to tell own tombstones from foreign ones. "
             "Attributes of XML elements are keyed chains like map entries and show the same behaviour "
             "(<e id=2>; remove id; set id=5 + remove id; undo -> element removed instead of <e id=2>)."},
    {"id": "KF-C12-2", "property": "C12",
     "pattern": "c12_undo_misses_split_copy",
     "predicates": ["C12_OneStep", "C12_InverseUndo", "C12_InverseRedo", "C12_ReturnValue"],
     "what": "undo of an insertion leaves part of it behind: the inserted run (>= 2 text characters / array values in one item) "
             "was deleted and re-created by an earlier undo/redo, and the re-created copy was split afterwards (insertion "
             "between the copies, or partial deletion); UndoManager::try_process follows the item's `redone` pointer once and "
             "deletes only the first fragment of the copy -- e.g. "
             "S1 insert 'ab'; S2 delete 'ab'; undo; S3 insert 'c' between a and b; undo; undo -> 'b' instead of ''. "
             "Candidate repair: notes/undoxml-split-copy.patch.diff (walk the copy fragment by fragment)."},
    {"id": "KF-C12-3", "property": "C12", "predicate": "C12_OneStep",
     "pattern": "c12_redo_splits_collected_block",
     "what": "undo/redo that re-creates a nested sequence together with its elements loses an element: the element is itself a "
             "re-created copy that was squashed behind its left neighbour, and its original (redone -> the copy) still sits to "
             "its right; ItemPtr::redo traces the right neighbours through `redone`, materializes the copy and thereby splits "
             "the block it is re-creating (or a block still waiting in to_redo); the split-off part is never re-created -- e.g. "
             "S1 m.k1 = [r], insert q at 0; S2 delete r; undo; undo; redo -> {k1:[q]} instead of {k1:[q,r]} (same with an XML "
             "text node and its characters). Candidate repair: notes/undoxml-redo-splits-itself.patch.diff."},
    {"id": "KF-C12-4", "property": "C12", "predicate": "C12_Replicated",
     "pattern": "c12_redo_right_origin_is_origin",
     "what": "undo/redo that re-creates a nested container with its children gives a re-created child a right origin equal to "
             "its origin (ill-formed YATA position, C04_Between): ItemPtr::redo takes the newest copy of an old right sibling as "
             "right neighbour although that copy is the item already chosen as left neighbour (an original sits right of its own "
             "copy) -- e.g. <e>[T]; delete T; undo; insert <f> after T; delete <e>; undo. Content by value is right, all "
             "replicas seen so far converge. Candidate repair: notes/undoxml-redo-right-origin.patch.diff."},
]
