#!/bin/bash
# Runs a check against a MUTATED scratch copy of /repo without touching /repo or <framework>/harness/target.
#   tools/mutant_run.sh <patch.diff | -e 'sed-expr file'> -- <check args...>
#   e.g. tools/mutant_run.sh /tmp/m1.diff -- C01 --tier quick
#        tools/mutant_run.sh -e 's/a < b/a <= b/' yrs/src/ids.rs -- C16 --tier quick
# The scratch copy (repo, harness with its own target dir, work, evidence) lives under /tmp/mut-<pid> and is removed at the end.
set -u
# the framework this script belongs to (works from a clone of /verif as well)
V=$(dirname "$(dirname "$(readlink -f "$0")")")
S=/tmp/mut-$$
mkdir -p $S/repo
cleanup() { rm -rf "$S"; }
trap cleanup EXIT
( cd /repo && git ls-files -z | grep -zv '^assets/' | xargs -0 cp --parents -t $S/repo ) 2>/dev/null
# assets are only needed by fixtures: link them
ln -s /repo/assets $S/repo/assets 2>/dev/null
if [ "$1" = "-e" ]; then
  sed -i "$2" "$S/repo/$3" || exit 2
  if cmp -s "$S/repo/$3" "/repo/$3"; then echo "MUTANT-NOOP: sed expression changed nothing"; exit 2; fi
  shift 3
else
  ( cd $S/repo && git apply --unsafe-paths -p1 "$1" 2>/dev/null || patch -p1 -s < "$1" ) || { echo "MUTANT-ERROR: patch does not apply"; exit 2; }
  shift 1
fi
[ "${1:-}" = "--" ] && shift
mkdir -p $S/harness
( cd $V/harness && cp -r Cargo.toml .cargo src $S/harness/ )
sed -i "s#path = \"/repo/yrs\"#path = \"$S/repo/yrs\"#" $S/harness/Cargo.toml
grep -rl '"/repo/' $S/harness/src 2>/dev/null | xargs -r sed -i "s#\"/repo/#\"$S/repo/#g"
cp /repo/Cargo.lock $S/harness/Cargo.lock
cd $V
# MUTANT_CMD (development aid): run that command instead of ./check in the same environment
if [ -n "${MUTANT_CMD:-}" ]; then
  VERIF_REPO=$S/repo VERIF_HARNESS=$S/harness VERIF_WORK=$S/work VERIF_EVID=$S/evidence $MUTANT_CMD
else
  VERIF_REPO=$S/repo VERIF_HARNESS=$S/harness VERIF_WORK=$S/work VERIF_EVID=$S/evidence ./check "$@"
fi
rc=$?
echo "MUTANT-RESULT rc=$rc"
exit $rc
