"""Shared machinery of the /verif checks: harness build, TLC runner (design check, G, V),
schedule post-processing, verdict classification, known findings, evidence."""
import hashlib
import json
import os
import re
import shutil
import subprocess
import sys
import time
from concurrent.futures import ThreadPoolExecutor

VERIF = os.path.dirname(os.path.dirname(os.path.abspath(__file__)))
SPEC = os.path.join(VERIF, "spec")
# the three overrides exist for mutant runs on scratch copies (tools/mutant_run.sh); registered checks never set them
HARNESS = os.environ.get("VERIF_HARNESS", os.path.join(VERIF, "harness"))
WORK = os.environ.get("VERIF_WORK", os.path.join(VERIF, "work"))
EVID = os.environ.get("VERIF_EVID", os.path.join(VERIF, "evidence"))
REPO = os.environ.get("VERIF_REPO", "/repo")
YX = os.path.join(HARNESS, "target", "debug", "yx")

EXIT_OK, EXIT_VIOLATION, EXIT_TOOL = 0, 1, 2


class ToolError(Exception):
    pass


def log(*a):
    print(*a, file=sys.stderr, flush=True)


def seed():
    try:
        return int(os.environ.get("VERIF_SEED", "0"))
    except ValueError:
        return 0


def sh(cmd, timeout=None, env=None, cwd=None):
    e = dict(os.environ)
    if env:
        e.update(env)
    try:
        p = subprocess.run(cmd, shell=isinstance(cmd, str), cwd=cwd, env=e, timeout=timeout,
                           stdout=subprocess.PIPE, stderr=subprocess.STDOUT, text=True, errors="replace")
        return p.returncode, p.stdout
    except subprocess.TimeoutExpired as ex:
        out = ex.stdout or ""
        if isinstance(out, bytes):
            out = out.decode(errors="replace")
        return 124, out


# ------------------------------------------------------------------------------------------------
# build

def ensure_lock():
    lock = os.path.join(HARNESS, "Cargo.lock")
    if not os.path.exists(lock):
        shutil.copy(os.path.join(REPO, "Cargo.lock"), lock)


def build_harness(bin_name="yx"):
    """Builds one harness binary against /repo's current working tree (hooks on). Tool error on failure."""
    ensure_lock()
    t0 = time.time()
    rc, out = sh("cargo build --offline --bin %s 2>&1" % bin_name, timeout=1800, cwd=HARNESS,
                 env={"CARGO_NET_OFFLINE": "true"})
    if rc != 0:
        tail = "\n".join(out.splitlines()[-40:])
        raise ToolError("harness build failed (does /repo compile with --cfg y_crdt_y_crdt_verif?)\n" + tail)
    return time.time() - t0


def tree_hash():
    """Content hash of everything a check's outcome depends on: /repo sources, specs, harness, tools."""
    h = hashlib.sha256()
    roots = [os.path.join(REPO, "yrs", "src"), os.path.join(REPO, "yffi", "src"),
             os.path.join(REPO, "yrs", "Cargo.toml"), os.path.join(REPO, "Cargo.toml"),
             SPEC, os.path.join(HARNESS, "src"), os.path.join(HARNESS, "Cargo.toml"),
             os.path.join(VERIF, "tools"), os.path.join(VERIF, "known_findings.json")]
    for root in roots:
        if os.path.isfile(root):
            files = [root]
        else:
            files = []
            for d, _, fs in os.walk(root):
                if "__pycache__" in d:
                    continue
                for f in fs:
                    files.append(os.path.join(d, f))
        for f in sorted(files):
            h.update(f.encode())
            try:
                with open(f, "rb") as fh:
                    h.update(fh.read())
            except OSError:
                pass
    return h.hexdigest()[:20]


# ------------------------------------------------------------------------------------------------
# TLC

TLC_JAR = "/opt/veriftools/tla/tla2tools.jar"
_re_states = re.compile(r"(\d+) states generated, (\d+) distinct states found, (\d+) states left")
_re_depth = re.compile(r"The depth of the complete state graph search is (\d+)")
_re_print = re.compile(r'^<<"(REPLAY|VERDICT)", "(.*)">>$')
_re_cov = re.compile(r"^<(\w+) line (\d+), col \d+ to line \d+, col \d+ of module (\w+)>: (\d+):(\d+)")


def _unescape(s):
    return json.loads('"' + s + '"')


def run_tlc(module, cfg, workdir, workers=1, env=None, timeout=600, extra=None, deque=False, heap="4g",
            simulate=None, keep_out=None):
    """Runs TLC on spec/<module>.tla with spec/<cfg>. Returns a dict."""
    os.makedirs(workdir, exist_ok=True)
    md = os.path.join(workdir, "md")
    shutil.rmtree(md, ignore_errors=True)
    # shared machines: VERIF_WORKERS caps the TLC worker threads of every run (VERIF_PAR caps parallel TLC processes)
    workers = max(1, min(workers, int(os.environ.get("VERIF_WORKERS", "64"))))
    jopts = "-Xss1g -Xmx%s" % heap
    if deque:
        jopts += " -Dtlc2.tool.queue.IStateQueue=StateDeque"
    e = {"JAVA_TOOL_OPTIONS": jopts}
    if env:
        e.update(env)
    cmd = ["tlc", "-workers", str(workers), "-metadir", md, "-cleanup", "-noGenerateSpecTE",
           "-config", os.path.join(SPEC, cfg)]
    if simulate:
        cmd += ["-simulate", simulate]
    if extra:
        cmd += extra
    cmd.append(os.path.join(SPEC, module + ".tla"))
    t0 = time.time()
    rc, out = sh(cmd, timeout=timeout, env=e, cwd=workdir)
    shutil.rmtree(md, ignore_errors=True)
    shutil.rmtree(os.path.join(workdir, "states"), ignore_errors=True)
    res = {"rc": rc, "wall": time.time() - t0, "generated": 0, "distinct": 0, "depth": 0, "replay": [],
           "verdict": None, "coverage": {}, "error": None}
    if keep_out:
        with open(keep_out, "w") as f:
            f.write(out)
    errs = []
    for line in out.splitlines():
        m = _re_print.match(line)
        if m:
            try:
                val = json.loads(_unescape(m.group(2)))
            except Exception as ex:  # noqa
                errs.append("unparsable %s line: %s" % (m.group(1), ex))
                continue
            if m.group(1) == "REPLAY":
                res["replay"].append(val)
            else:
                res["verdict"] = val
            continue
        m = _re_states.search(line)
        if m:
            res["generated"], res["distinct"] = int(m.group(1)), int(m.group(2))
            continue
        m = _re_depth.search(line)
        if m:
            res["depth"] = int(m.group(1))
            continue
        m = _re_cov.match(line)
        if m:
            res["coverage"][m.group(1)] = res["coverage"].get(m.group(1), 0) + int(m.group(5))
            continue
        if line.startswith("Error:") or "Exception" in line or "is violated" in line or "Parse Error" in line:
            errs.append(line)
    if rc == 124:
        errs.append("TLC timed out after %ss" % timeout)
    if errs or rc != 0:
        res["error"] = "; ".join(errs[:6]) or ("tlc exit code %d" % rc)
        res["tail"] = "\n".join([ln for ln in out.splitlines() if not ln.startswith('<<"')][-30:])
    return res


def _workers(n):
    """VERIF_WORKERS caps the TLC worker threads of design checks / generators (shared machines)"""
    try:
        return max(1, min(n, int(os.environ.get("VERIF_WORKERS", n))))
    except ValueError:
        return n


def design_check(module, cfg, workdir, workers=10, timeout=1500, heap="5g"):
    workers = _workers(workers)
    """Exhaustive design check. A violated invariant here is a defect of the *specification's* algorithm
    (tool error for the purposes of a check), never a verdict about the code."""
    r = run_tlc(module, cfg, workdir, workers=workers, timeout=timeout, heap=heap, extra=["-coverage", "1"])
    if r["error"]:
        raise ToolError("design check %s/%s failed: %s\n%s" % (module, cfg, r["error"], r.get("tail", "")))
    return r


def generate(module, cfg, workdir, workers=10, timeout=1500, heap="5g", simulate=None):
    workers = _workers(workers)
    r = run_tlc(module, cfg, workdir, workers=workers, timeout=timeout, heap=heap, simulate=simulate)
    if r["error"] and not (simulate and r["rc"] in (0,)):
        raise ToolError("G %s/%s failed: %s\n%s" % (module, cfg, r["error"], r.get("tail", "")))
    return r


def run_x(cmd_args, timeout=1800):
    rc, out = sh([YX] + cmd_args, timeout=timeout)
    if rc != 0:
        raise ToolError("yx %s failed (rc %d): %s" % (" ".join(cmd_args[:1]), rc, out[-2000:]))
    try:
        return json.loads(out.strip().splitlines()[-1])
    except Exception:
        return {}


def crashed(rc):
    """the process was killed by a signal (memory fault / abort inside the library): data, not a tool error"""
    return rc < 0 or rc in (132, 134, 135, 136, 139)


def run_x_sched(scheds, sfile, tfile, extra=(), timeout=3600, binary=None):
    """yx yata-run over `scheds` (written to sfile, trace to tfile).  If the process is killed by a signal the
    schedules are bisected; a behaviour that kills its process on its own is recorded as
    reset + {"k": "crash"} (V: C01_NoFailure / the engine's own failure predicate).  Returns the stats dict."""
    binary = binary or YX

    def run(part, sf, tf):
        with open(sf, "w") as f:
            for s in part:
                f.write(json.dumps(s) + "\n")
        rc, out = sh([binary, "yata-run", "--in", sf, "--out", tf] + list(extra), timeout=timeout)
        if rc == 0:
            try:
                st = json.loads(out.strip().splitlines()[-1])
            except Exception:
                st = {}
            return {"behaviours": st.get("behaviours", len(part)), "events": st.get("events", 0), "crashes": 0}
        if not crashed(rc):
            raise ToolError("yx yata-run failed (rc %d) on %s: %s" % (rc, sf, out[-2000:]))
        if len(part) == 1:
            s = part[0]
            with open(tf, "w") as f:
                f.write(json.dumps({"bid": s["bid"], "cfg": s["cfg"], "k": "reset"}) + "\n")
                f.write(json.dumps({"k": "crash", "rc": rc}) + "\n")
            return {"behaviours": 1, "events": 1, "crashes": 1}
        h = len(part) // 2
        a = run(part[:h], sf + ".a", tf + ".a")
        b = run(part[h:], sf + ".b", tf + ".b")
        with open(tf, "w") as out_f:
            for x in (tf + ".a", tf + ".b"):
                with open(x) as f:
                    shutil.copyfileobj(f, out_f)
        for x in (sf + ".a", sf + ".b", tf + ".a", tf + ".b"):
            if os.path.exists(x):
                os.remove(x)
        return {k: a[k] + b[k] for k in a}

    st = run(scheds, sfile, tfile)
    # keep the complete schedule file for replay / debugging
    with open(sfile, "w") as f:
        for s in scheds:
            f.write(json.dumps(s) + "\n")
    return st


def run_x_random(sfile, tfile, args, behaviours, timeout=3600):
    """yx yata-random; survives process deaths: the journalled behaviour becomes reset + crash, the run resumes behind it.
    Returns (schedules, crashes)."""
    scheds, crashes, start = [], 0, 0
    open(tfile, "w").close()
    while start < behaviours:
        s1, t1 = sfile + ".part", tfile + ".part"
        rc, out = sh([YX, "yata-random", "--out-sched", s1, "--out", t1, "--behaviours", str(behaviours), "--from", str(start)] + list(args), timeout=timeout)
        done = []
        if os.path.exists(s1):
            with open(s1) as f:
                done = [json.loads(ln) for ln in f if ln.strip()]
        if rc != 0 and not crashed(rc):
            raise ToolError("yx yata-random failed (rc %d): %s" % (rc, out[-2000:]))
        # only complete behaviours of the trace (a crash may leave a partial tail only if flushing was interrupted)
        with open(tfile, "a") as o:
            if os.path.exists(t1):
                with open(t1) as f:
                    lines = f.readlines()
                if rc != 0:
                    starts = [i for i, ln in enumerate(lines) if ln.startswith('{"bid":')]
                    lines = lines[:starts[len(done)]] if len(starts) > len(done) else lines
                o.writelines(lines)
            scheds += done
            if rc == 0:
                break
            cur = sfile + ".part.cur"
            if not os.path.exists(cur):
                raise ToolError("yx yata-random was killed (rc %d) without a journal" % rc)
            with open(cur) as f:
                j = json.load(f)
            o.write(json.dumps({"bid": j["bid"], "cfg": j["cfg"], "k": "reset"}) + "\n")
            o.write(json.dumps({"k": "crash", "rc": rc}) + "\n")
            scheds.append({"bid": j["bid"], "cfg": j["cfg"], "steps": j["steps"]})
            crashes += 1
            start = j["b"] + 1
    for x in (sfile + ".part", tfile + ".part", sfile + ".part.cur"):
        if os.path.exists(x):
            os.remove(x)
    with open(sfile, "w") as f:
        for s in scheds:
            f.write(json.dumps(s) + "\n")
    return scheds, crashes


def split_trace(trace, parts, outdir):
    """Splits a trace at `reset` boundaries into <= parts files of similar size."""
    os.makedirs(outdir, exist_ok=True)
    with open(trace) as f:
        lines = f.readlines()
    starts = [i for i, ln in enumerate(lines) if ln.startswith('{"bid":')]
    if not starts:
        return []
    per = max(1, (len(lines) + parts - 1) // parts)
    files, cur, cur_n = [], [], 0
    bounds = starts + [len(lines)]
    for a, b in zip(bounds, bounds[1:]):
        cur.extend(lines[a:b])
        cur_n += b - a
        if cur_n >= per:
            files.append(cur)
            cur, cur_n = [], 0
    if cur:
        files.append(cur)
    paths = []
    for i, chunk in enumerate(files):
        p = os.path.join(outdir, "part%03d.ndjson" % i)
        with open(p, "w") as f:
            f.writelines(chunk)
        paths.append((p, len(chunk)))
    return paths


MAX_PART_LINES = 20000


def validate(trace_module, cfg, trace, workdir, parallel=8, timeout=1800):
    parallel = min(parallel, int(os.environ.get("VERIF_PAR", "8")))
    """V stage: TLC validates the recorded trace. Returns merged verdict dict
    {viol: [[bid, pred, line]], drift: [...], cnt: {...}, lines, states}."""
    # at most MAX_PART_LINES events per TLC process: the cost per event grows with the position in the trace (viol / drift sets,
    # the deserialized sequence), a part of 100 000 events of a thorough run did not finish within the time-out
    try:
        with open(trace, "rb") as f:
            total = sum(1 for _ in f)
    except OSError:
        total = 0
    nparts = max(parallel, (total + MAX_PART_LINES - 1) // MAX_PART_LINES)
    parts = split_trace(trace, nparts, os.path.join(workdir, "parts"))
    if not parts:
        return {"viol": [], "drift": [], "cnt": {"beh": 0, "ev": 0, "checks": 0}, "lines": 0, "states": 0}

    def one(ix_p):
        ix, (p, n) = ix_p
        r = run_tlc(trace_module, cfg, os.path.join(workdir, "v%03d" % ix), workers=1, env={"TRACE": p},
                    timeout=timeout, deque=True, heap="2g")
        return p, n, r

    with ThreadPoolExecutor(max_workers=parallel) as ex:
        results = list(ex.map(one, enumerate(parts)))
    merged = {"viol": [], "drift": [], "cnt": {"beh": 0, "ev": 0, "checks": 0}, "lines": 0, "states": 0}
    for p, n, r in results:
        if r["error"] or r["verdict"] is None:
            raise ToolError("V %s on %s failed: %s\n%s" % (trace_module, p, r["error"], r.get("tail", "")))
        v = r["verdict"]
        if v.get("lines") != n or r["depth"] != n + 1:
            raise ToolError("V did not consume the whole trace %s (%s of %d lines, depth %d)" % (p, v.get("lines"), n, r["depth"]))
        merged["viol"] += v.get("viol", [])
        merged["drift"] += v.get("drift", [])
        for k in merged["cnt"]:
            merged["cnt"][k] += v.get("cnt", {}).get(k, 0)
        merged["lines"] += n
        merged["states"] += r["distinct"]
    shutil.rmtree(os.path.join(workdir, "parts"), ignore_errors=True)
    return merged


# ------------------------------------------------------------------------------------------------
# known findings, reporting, evidence

def known_findings():
    p = os.path.join(VERIF, "known_findings.json")
    if not os.path.exists(p):
        return []
    with open(p) as f:
        return [e for e in json.load(f).get("known", [])]


def prop_of(pred):
    m = re.match(r"(C\d+)_", pred)
    return m.group(1) if m else None


class Evidence:
    def __init__(self, prop, tier, level="model_checking"):
        self.prop, self.tier, self.level = prop, tier, level
        self.t0 = time.time()
        self.cov = {"states": 0, "transitions": 0, "traces_validated_against_impl": 0, "evaluations": 0,
                    "distinct_nontrivial": 0, "samples": [], "stages": [], "drift": 0, "known_findings": 0,
                    "predicate_evaluations": 0, "exhaustive": False, "rule": ""}
        self.assumptions = []
        self.violations = 0
        self._nontrivial = set()

    def add_tlc(self, name, r, kind):
        self.cov["states"] += r.get("distinct", 0)
        self.cov["transitions"] += r.get("generated", 0)
        st = {"stage": kind, "config": name, "distinct_states": r.get("distinct", 0), "generated": r.get("generated", 0),
              "depth": r.get("depth", 0), "wall_s": round(r.get("wall", 0), 1)}
        if r.get("coverage"):
            st["action_coverage"] = r["coverage"]
        if kind == "G":
            st["behaviours"] = len(r.get("replay", []))
        self.cov["stages"].append(st)

    def add_v(self, name, merged, nontrivial_keys, wall):
        self.cov["traces_validated_against_impl"] += merged["cnt"]["beh"]
        self.cov["evaluations"] += merged["cnt"]["ev"]
        self.cov["predicate_evaluations"] += merged["cnt"]["checks"]
        self.cov["states"] += merged["states"]
        self.cov["transitions"] += merged["states"]
        self.cov["drift"] += len(merged["drift"])
        self._nontrivial.update(nontrivial_keys)
        self.cov["stages"].append({"stage": "V", "config": name, "behaviours": merged["cnt"]["beh"],
                                   "events": merged["cnt"]["ev"], "predicate_evaluations": merged["cnt"]["checks"],
                                   "violating": len({v[0] for v in merged["viol"]}), "drift": len(merged["drift"]),
                                   "wall_s": round(wall, 1)})

    def sample(self, s):
        if len(self.cov["samples"]) < 4:
            self.cov["samples"].append(s)

    def write(self):
        self.cov["distinct_nontrivial"] = len(self._nontrivial)
        os.makedirs(EVID, exist_ok=True)
        doc = {"property_id": self.prop, "tier": self.tier, "seed": seed(), "level": self.level,
               "coverage": self.cov, "assumptions": self.assumptions, "wall_s": round(time.time() - self.t0, 1),
               "violations": self.violations}
        with open(os.path.join(EVID, self.prop + ".json"), "w") as f:
            json.dump(doc, f, indent=1)


def write_replay(prop, bid, schedule, detail):
    d = os.path.join(WORK, "replay")
    os.makedirs(d, exist_ok=True)
    p = os.path.join(d, "%s-%s.json" % (prop, re.sub(r"[^A-Za-z0-9_.-]", "_", bid)))
    with open(p, "w") as f:
        json.dump({"property": prop, "bid": bid, "detail": detail, "schedule": schedule}, f, indent=1)
    return p


def match_known(known, preds, info):
    try:
        import patterns
    except ImportError:
        patterns = None
    for k in known:
        if k.get("predicate") and not any(p[0] == k["predicate"] for p in preds):
            continue
        # "predicates": every failing predicate of this behaviour (for the property) must be one of the listed ones
        if k.get("predicates") and not all(p[0] in k["predicates"] for p in preds):
            continue
        fn = getattr(patterns, k.get("pattern", ""), None) if patterns else None
        if k.get("pattern") and fn is None:
            continue
        if fn is None or fn(info):
            return k
    return None


def report(prop, ev, results, prefixes):
    """Prints VIOLATION / KNOWN-FINDING lines for `prop` from pipeline results
    (each result: {"bad": {bid: {"preds": [[pred, line], ...], "schedule": ...}}}); returns the exit code."""
    known = [k for k in known_findings() if k.get("property") == prop]
    nviol, nknown, printed = 0, 0, set()
    other = {}
    for res in results:
        for bid, info in sorted(res.get("bad", {}).items()):
            mine = [p for p in info["preds"] if any(p[0].startswith(x) for x in prefixes)]
            for p in info["preds"]:
                if p not in mine:
                    other[p[0]] = other.get(p[0], 0) + 1
            if not mine:
                continue
            kf = match_known(known, mine, info)
            if kf is not None:
                nknown += 1
                if kf["id"] not in printed:
                    printed.add(kf["id"])
                    print("KNOWN-FINDING: property=%s %s" % (prop, kf["what"]))
                continue
            nviol += 1
            if nviol <= 5:
                path = write_replay(prop, bid, info["schedule"], {"predicates": mine, "engine": res.get("engine", "yata")})
                print("VIOLATION property=%s replay=%s  # %s at trace line %s of behaviour %s"
                      % (prop, path, mine[0][0], mine[0][1], bid))
    if nviol > 5:
        print("# ... %d more violating behaviours of %s" % (nviol - 5, prop))
    for p, n in sorted(other.items()):
        print("# note: %d behaviours violate %s (reported by that property's own check)" % (n, p))
    dk = {}
    for res in results:
        for d in (res.get("merged") or {}).get("drift", []):
            dk[d[1]] = dk.get(d[1], 0) + 1
    for k, n in sorted(dk.items()):
        print("DRIFT property=%s %s at %d events  # exit 0: not demanded by the property as read by this check (see DESIGN.md section 12)" % (prop, k, n))
    ev.violations = nviol
    ev.cov["known_findings"] = nknown
    return EXIT_VIOLATION if nviol else EXIT_OK
