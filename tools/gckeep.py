"""C15, last clause: "content an undo manager may still need to restore is not collected".
Scripted programs (executed through the undo engine: real UndoManager with a controlled clock) in which a tracked
deletion is followed by a FORCED garbage collection and then undone / redone; the inverse-law predicates of Trace_Undo
decide; their violations in these behaviours are reported as C15_KeepNotCollected."""
import undo_pipe


def _uop(op, r, p, i=0, n=1, k="u", key="", o="U"):
    return {"a": "uop", "op": op, "r": r, "p": p, "i": i, "n": n, "k": k, "key": key, "o": o}


def schedules():
    out = []
    tick = {"a": "tick", "ms": 600}

    def add(name, scope, steps, gc1):
        idx = len(out)
        cfg = undo_pipe._cfg(idx, scope)
        cfg["replicas"][0]["gc"] = gc1
        cfg["replicas"][1]["gc"] = idx % 2 == 0
        out.append({"bid": "gckeep-%s-%03d" % (name, idx), "cfg": cfg, "steps": undo_pipe._closing(steps, idx)})

    for gc1 in (True, False):
        # text: typed run, a remote peer deletes the left part, the tracked origin deletes the right part (adjacent
        # tombstones of one block, only the right one kept), forced gc, undo, redo, forced gc, undo
        for n in (3, 4):
            for cut in range(1, n):
                for remote_first in (True, False):
                    s = [_uop("ins", 1, ["t"], 0, n), tick, {"a": "sync", "f": 1, "t": 2, "how": "state", "sv": "own"}]
                    rem = [_uop("del", 2, ["t"], 0, cut, o=""), {"a": "dlv", "r": 1, "u": [2]}]
                    loc = [_uop("del", 1, ["t"], 0 if remote_first else cut, n - cut), tick]
                    if remote_first:
                        s += rem + loc
                    else:
                        s += loc[:1] + [tick] + [_uop("del", 2, ["t"], 0, cut, o=""), {"a": "dlv", "r": 1, "u": [3]}]
                    s += [{"a": "gcf", "r": 1}, {"a": "undo", "r": 1}, {"a": "redo", "r": 1}, {"a": "gcf", "r": 1}, {"a": "undo", "r": 1}]
                    add("text", ["t"], s, gc1)
        # array of plain values and of nested types; map entries (overwrite / remove)
        for k in ("u", "M", "A"):
            s = [_uop("ins", 1, ["a"], 0, 1, k=k), _uop("ins", 1, ["a"], 1, 1), tick, _uop("del", 1, ["a"], 0, 1), tick,
                 {"a": "gcf", "r": 1}, {"a": "undo", "r": 1}, {"a": "gcf", "r": 1}, {"a": "redo", "r": 1}, {"a": "undo", "r": 1}]
            add("arr" + k, ["a"], s, gc1)
            s = [_uop("set", 1, ["m"], key="k1", k=k), tick, _uop("set", 1, ["m"], key="k1"), tick, _uop("rem", 1, ["m"], key="k1"), tick,
                 {"a": "gcf", "r": 1}, {"a": "undo", "r": 1}, {"a": "gcf", "r": 1}, {"a": "undo", "r": 1}, {"a": "redo", "r": 1}]
            add("map" + k, ["m"], s, gc1)
        # stale keep flags: a tracked edit inside a nested type marks the element AND its ancestors, clearing a stack
        # un-marks the ancestors although another element below them is still marked. The nested type is then removed and
        # collected - by a forced gc, or by the ordinary gc of the transaction in which a remote removal arrives - and the
        # replica's state is exported to the other replicas (closing exchange)
        for k, inner, inner2 in (("A", _uop("del", 1, ["m", "k1"], 0, 1), _uop("ins", 1, ["m", "k1"], 0, 1)),
                                 ("M", _uop("rem", 1, ["m", "k1"], key="k1"), _uop("set", 1, ["m", "k1"], key="k2"))):
            for ticks in (False, True):
                T = [tick] if ticks else []
                s = [_uop("set", 1, ["m"], key="k1", k=k)] + T + [inner] + T + [_uop("ins", 1, ["t"], 0, 2)] + T + \
                    [{"a": "undo", "r": 1}, _uop("set", 1, ["m"], key="k1"), {"a": "gcf", "r": 1}, {"a": "redo", "r": 1},
                     {"a": "undo", "r": 1}, {"a": "gcf", "r": 1}]
                add("stale" + k, ["t", "m"], s, gc1)
            for forced in (True, False):
                s = [_uop("set", 1, ["m"], key="k1", k=k), tick, {"a": "sync", "f": 1, "t": 2, "how": "state", "sv": "own"},
                     inner, tick, inner2, tick, {"a": "undo", "r": 1}, _uop("ins", 1, ["t"], 0, 1), tick,
                     _uop("rem", 2, ["m"], key="k1", o=""), {"a": "dlv", "r": 1, "u": [6]}]
                s += ([{"a": "gcf", "r": 1}] if forced else []) + [{"a": "undo", "r": 1}, {"a": "undo", "r": 1}, {"a": "redo", "r": 1}]
                add("staler" + k, ["t", "m"], s, gc1)
    # XML scope: an element with an attribute, a nested text node (characters, formatting) and a nested element, plus a
    # text node, built by the tracked origin (one captured step) or by another origin
    gcf, undo, redo = {"a": "gcf", "r": 1}, {"a": "undo", "r": 1}, {"a": "redo", "r": 1}
    build = [_uop("ins", 1, ["x"], 0, 1, k="E"), _uop("set", 1, ["x", "#e0"], key="id"), _uop("ins", 1, ["x", "#e0"], 0, 2, k="X"),
             _uop("fmt", 1, ["x", "#e0", "#t0"], 0, 1, key="b"), _uop("ins", 1, ["x", "#e0"], 1, 1, k="E"),
             _uop("ins", 1, ["x"], 1, 2, k="X"), tick]
    for gc1 in (True, False):
        for o in ("U", ""):
            b = [dict(s, o=o) if s["a"] == "uop" else s for s in build]
            # the whole subtree is removed by the tracked origin (tombstones the manager may have to restore)
            add("xmlsub", ["x"], b + [_uop("del", 1, ["x"], 0, 1), tick, gcf, undo, gcf, redo, gcf, undo], gc1)
            # attribute overwritten / removed, characters deleted, formatting replaced inside the kept subtree
            add("xmlin", ["x"], b + [_uop("set", 1, ["x", "#e0"], key="id"), tick, _uop("rem", 1, ["x", "#e0"], key="id"), tick,
                                     _uop("del", 1, ["x", "#e0", "#t0"], 0, 2), tick, _uop("fmt", 1, ["x", "#t0"], 0, 2, key="b"), tick,
                                     _uop("fmt", 1, ["x", "#t0"], 0, 1, key="b"), tick,
                                     gcf, undo, undo, gcf, undo, undo, undo, gcf, redo, redo, redo], gc1)
        # a remote peer removes the element the tracked origin edited inside; forced / ordinary gc; undo, redo
        for forced in (True, False):
            s = build + [{"a": "sync", "f": 1, "t": 2, "how": "state", "sv": "own"}, _uop("ins", 1, ["x", "#e0", "#t0"], 1, 1), tick,
                         _uop("set", 1, ["x", "#e0"], key="cl"), tick, _uop("del", 2, ["x"], 0, 1, o=""), {"a": "dlv", "r": 1, "u": [9]}]
            add("xmlrem", ["x"], s + ([gcf] if forced else []) + [undo, undo, redo, undo, undo], gc1)
    # Multi-operation transactions: ONE tracked transaction deletes content of the tracked type AND removes a nested type
    # outside the scope (that subtree is not kept: it is collected, the transaction's delete set holds a collected range next
    # to the kept tombstones).  Layouts: subtree created before / after the tracked content (clock order inside the delete
    # set), content of a remote client with a higher id, gc on / forced gc on a gc-off replica / no gc (control); then undo,
    # redo, undo, and the closing exchange with the other replicas.
    def mop(op, p, i=0, n=1, k="u", key=""):
        return {"op": op, "p": p, "i": i, "n": n, "k": k, "key": key}

    def multi(ops, o="U", r=1):
        return {"a": "umulti", "r": r, "o": o, "ops": ops}

    def slots(steps):
        return sum(1 for x in steps if x["a"] in ("uop", "umulti", "undo", "redo"))

    # (scope, tracked content, its partial deletion, out-of-scope subtree, its removal)
    shapes = [
        (["t"], _uop("ins", 1, ["t"], 0, 3), mop("del", ["t"], 0, 2), _uop("set", 1, ["m"], key="k1", k="M"), mop("rem", ["m"], key="k1")),
        (["t"], _uop("ins", 1, ["t"], 0, 3), mop("del", ["t"], 1, 2), _uop("ins", 1, ["a"], 0, 1, k="A"), mop("del", ["a"], 0, 1)),
        (["a"], _uop("ins", 1, ["a"], 0, 2), mop("del", ["a"], 0, 2), _uop("set", 1, ["m"], key="k1", k="A"), mop("rem", ["m"], key="k1")),
        (["m"], _uop("set", 1, ["m"], key="k2", k="A"), mop("rem", ["m"], key="k2"), _uop("ins", 1, ["a"], 0, 1, k="M"), mop("del", ["a"], 0, 1)),
        (["x"], _uop("ins", 1, ["x"], 0, 3, k="X"), mop("del", ["x", "#t0"], 0, 2), _uop("set", 1, ["m"], key="k1", k="M"), mop("rem", ["m"], key="k1")),
        (["x"], _uop("ins", 1, ["x"], 0, 1, k="E"), mop("del", ["x"], 0, 1), _uop("ins", 1, ["a"], 0, 1, k="M"), mop("del", ["a"], 0, 1)),
    ]
    for gc1 in (True, False):
        for scope, content, cdel, sub, sdel in shapes:
            for sub_first in (True, False):
                build = ([sub, content] if sub_first else [content, sub]) + [tick]
                for ops in ([sdel, cdel], [cdel, sdel]):
                    for forced in ((False, True) if gc1 else (True, False)):
                        s = build + [multi(ops), tick] + ([gcf] if forced else []) + [undo, redo] + ([gcf] if forced else []) + [undo]
                        add("multi" + scope[0], scope, s, gc1)
        # remote peers: the tracked content comes from replica 2 (higher client id: its tombstones follow the collected range of
        # client 1 in the delete set) / the subtree comes from replica 2 (control: collected range last)
        sync12 = {"a": "sync", "f": 1, "t": 2, "how": "state", "sv": "own"}
        for forced in (True, False):
            s = [_uop("set", 1, ["m"], key="k1", k="M"), tick, sync12, _uop("ins", 2, ["t"], 0, 3, o="")]
            s += [{"a": "dlv", "r": 1, "u": [slots(s)]}, multi([mop("rem", ["m"], key="k1"), mop("del", ["t"], 0, 2)]), tick]
            add("multirem", ["t"], s + ([gcf] if forced else []) + [undo, redo, undo], gc1)
            s = [_uop("ins", 1, ["t"], 0, 3), tick, sync12, _uop("set", 2, ["m"], key="k1", k="M", o="")]
            s += [{"a": "dlv", "r": 1, "u": [slots(s)]}, multi([mop("rem", ["m"], key="k1"), mop("del", ["t"], 0, 2)]), tick]
            add("multirem", ["t"], s + ([gcf] if forced else []) + [undo, redo, undo], gc1)
        # an UNTRACKED transaction removes the subtree and edits the tracked type (foreign edit: isolation only), then tracked steps
        s = [_uop("set", 1, ["m"], key="k1", k="M"), _uop("ins", 1, ["t"], 0, 3), tick,
             multi([mop("rem", ["m"], key="k1"), mop("del", ["t"], 0, 1)], o=""), _uop("del", 1, ["t"], 0, 1), tick, gcf, undo, undo, redo]
        add("multifor", ["t"], s, gc1)
    return out


def run(tier, workdir):
    r = undo_pipe.run_scheds("gckeep", schedules(), tier, workdir)
    # every inverse-law / failure violation in these behaviours is a violation of C15's undo clause
    for b, info in r.get("bad", {}).items():
        info["preds"] = [["C15_KeepNotCollected" if p[0].startswith("C12_") else p[0]] + p[1:] for p in info["preds"]]
    return r
