"""./check replay <file>: re-executes one violating behaviour against the real library (rebuilt from /repo's
working tree), validates the recorded trace with TLC again and prints what happened at the failing event."""
import importlib
import json
import os
import shutil
import sys

import vlib

# engine -> (harness binary, sub-command args builder, trace module, cfg)
ENGINES = {
    "yata": ("yx", lambda s, t: ["yata-run", "--in", s, "--out", t, "--seed", str(vlib.seed())], "Trace_Yata", "Trace_Yata.cfg"),
    "seqapi": ("yx_seqapi", lambda s, t: ["--in", s, "--out", t], "Trace_SeqApi", "Trace_SeqApi.cfg"),
}


def main(args):
    if not args:
        print("usage: ./check replay <replay.json> [--times N]")
        return 2
    with open(args[0]) as f:
        doc = json.load(f)
    times = int(args[args.index("--times") + 1]) if "--times" in args else 1
    engine = (doc.get("detail") or {}).get("engine", "yata")
    if engine not in ENGINES:
        # an engine may bring its own replay function
        try:
            m = importlib.import_module(engine + "_pipe")
            if hasattr(m, "replay"):
                import inspect
                first = list(inspect.signature(m.replay).parameters)[0]
                return m.replay(args[0] if first == "path" else doc)
        except ImportError:
            pass
    sched = doc["schedule"]
    wd = os.path.join(vlib.WORK, "replay-run")
    shutil.rmtree(wd, ignore_errors=True)
    os.makedirs(wd)
    sfile, tfile = os.path.join(wd, "s.ndjson"), os.path.join(wd, "t.ndjson")
    with open(sfile, "w") as f:
        f.write(json.dumps(sched) + "\n")
    if engine in ENGINES:
        binname, mk, tmod, tcfg = ENGINES[engine]
    else:
        # plugin engines describe their own replay: REPLAY = (binary, args builder, trace module, cfg)
        try:
            m = importlib.import_module(engine + "_pipe")
            binname, mk, tmod, tcfg = m.REPLAY
        except Exception as e:  # noqa
            print("no replay support for engine %s (%s)" % (engine, e))
            return 2
    vlib.build_harness(binname)
    fails = 0
    for i in range(times):
        rc, out = vlib.sh([os.path.join(vlib.HARNESS, "target", "debug", binname)] + mk(sfile, tfile), timeout=600)
        if vlib.crashed(rc):
            # the library killed the process (memory fault): that IS the reproduced failure
            print("run %d: the harness process was killed by a signal (rc %d) while executing the schedule" % (i + 1, rc))
            fails += 1
            continue
        if rc != 0:
            print("TOOL-ERROR: harness failed: %s" % out[-1000:])
            return 2
        merged = vlib.validate(tmod, tcfg, tfile, os.path.join(wd, "v"), parallel=1)
        viol = merged["viol"]
        print("run %d: %d events, violations: %s, drift: %s" % (i + 1, merged["cnt"]["ev"], viol, merged["drift"]))
        if viol:
            fails += 1
            k = min(v[2] for v in viol)
            with open(tfile) as f:
                lines = f.readlines()
            if 0 < k < len(lines):
                ev = json.loads(lines[k])
                brief = {key: ev[key] for key in ev if key not in ("obs", "fobs", "fol", "dump", "after")}
                print("failing event (#%d): %s" % (k, json.dumps(brief)[:3000]))
                for key in ("obs", "fobs"):
                    if key in ev:
                        print("%s: %s" % (key, json.dumps(ev[key])[:3000]))
    print("violating runs: %d of %d" % (fails, times))
    print("schedule: %s" % json.dumps(sched)[:4000])
    return 1 if fails else 0
