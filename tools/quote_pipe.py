"""C20 -- quotations and links. Design check (MC_Quote) + G (histories of MC_Yata) -> transform (quotations over
every range, boundary edits, dereference on every replica after every step) -> X (yx, extension `quote`) -> V (Trace_Quote)."""
import hashlib
import json
import os
import random
import shutil
import time

import vlib
import yata_pipe

PROPS = ["C20"]
ENGINE_TEXT = ("TLA+/TLC design check (MC_Quote) + TLC-enumerated histories extended with quotations over every range, "
               "executed on yrs (harness/src/ext/quote.rs) + TLC trace validation (Trace_Quote)")
TRACE = ("Trace_Quote", "Trace_Quote.cfg")
# ./check replay <file> (tools/replay.py): binary, argument builder, trace module, cfg
REPLAY = ("yx", lambda s, t: ["yata-run", "--in", s, "--out", t, "--seed", str(vlib.seed())], TRACE[0], TRACE[1])

# group -> (G group of yata_pipe, what is quoted, behaviours per tier)
GROUPS = {
    "qtext": ("seq3", "seq", {"quick": 1200, "thorough": 12000}),
    "qarr": ("nesta3", "seq", {"quick": 800, "thorough": 9000}),
    "qlink": ("map3", "link", {"quick": 400, "thorough": 4000}),
}
RANDOM = {"quick": 2, "thorough": 12}
# development aid (mutant runs on a loaded machine): percentage of the behaviours above; registered checks never set it
SCALE = max(1, min(100, int(os.environ.get("VERIF_C20_SCALE", "100") or 100)))
ATS = ["lo-", "lo", "lo+", "mid", "hi-", "hi", "hi+", "out-", "out+"]
LOCAL = ("ins", "del", "set", "rem", "quote", "link", "qdel", "qedit")


def _h(*a):
    return int(hashlib.sha256(("|".join(str(x) for x in a)).encode()).hexdigest()[:12], 16)


def _split(steps):
    """phase A (local operations and author syncs), deliveries to observer 8 (TLC's permutation), closing syncs"""
    a = [s for s in steps if s["a"] in ("ins", "del", "set", "rem") or (s["a"] == "sync" and not s.get("closing"))]
    b8 = [s for s in steps if s["a"] == "dlv" and s["r"] == 8]
    closing = [s for s in steps if s["a"] == "sync" and s.get("closing")]
    return a, b8, closing


def transform_one(sched, what, variant, seed, deg=False):
    """One executable C20 behaviour from a base schedule.
    variant: running number of the behaviour -- drives every systematic choice (quote point, ranges, edits)."""
    rnd = random.Random(_h(seed, sched["bid"], variant))
    a, b8, closing = _split(sched["steps"])
    # quote points: right after an operation that guarantees a non-empty source at its author
    pts = [k for k, s in enumerate(a) if (s["a"] == "ins" if what == "seq" else s["a"] == "set")]
    if not pts:
        return None
    k = pts[variant % len(pts)]
    author = a[k]["r"]
    other = 2 if author == 1 else 1
    steps, slot_of, nslot, mine = [], {}, 0, []   # slot_of: base slot -> new slot; mine: new slots of this extension
    base_slot = 0

    def push(s):
        nonlocal nslot, base_slot
        steps.append(s)
        if s["a"] in LOCAL:
            nslot += 1
            if s["a"] in ("ins", "del", "set", "rem"):
                base_slot += 1
                slot_of[base_slot] = nslot
            else:
                mine.append(nslot)

    def look(r=None):
        steps.append({"a": "unquote"} if r is None else {"a": "unquote", "r": r})

    def actor(s):
        return s["t"] if s["a"] == "sync" else s["r"]

    for s in a[:k + 1]:
        push(s)
    # the quotations: consecutive entries of the canonical range list, so that the variants of a group walk through
    # every range (the executor reduces `sel` modulo the number of ranges over the current length)
    handles = []
    if what == "seq":
        nq = 2 + variant % 2
        for q in range(nq):
            h = "q%d" % (q + 1)
            st = {"a": "quote", "r": author, "psel": variant // 7 + q, "sel": variant * 3 + q * 11, "key": h, "h": h}
            if deg:
                st["deg"] = True
            push(st)
            handles.append(h)
    else:
        key = a[k]["key"]
        push({"a": "link", "r": author, "key": key, "at": "l1", "h": "l1"})
        handles.append("l1")
        if variant % 2:
            okey = "k2" if key == "k1" else "k1"
            push({"a": "link", "r": author, "key": okey, "at": "l2", "h": "l2"})   # skipped when the entry never existed
            handles.append("l2")
    look()
    # the history continues (a step changes one replica only: that one is looked at)
    for s in a[k + 1:]:
        push(s)
        look(actor(s))
    # boundary edits, systematically: (editor, handle, op, place) walk through their product with the variant number
    if variant % 3 == 0:
        push({"a": "sync", "f": author, "t": other, "how": "state"})
        look(other)
    ne = 2 + variant % 3
    for e in range(ne):
        x = variant * 5 + e * 7
        editor = (author, other)[(x // 2) % 2] if e else (other if variant % 2 else author)
        h = handles[x % len(handles)]
        if what == "seq":
            op = ("ins", "del", "ins")[(x // 3) % 3]
            push({"a": "qedit", "r": editor, "h": h, "op": op, "at": ATS[(x // 9 + e) % len(ATS)], "n": 1 + (x // 5) % 2})
        else:
            push({"a": "qedit", "r": editor, "h": h, "op": ("set", "rem", "set")[(x // 3) % 3]})
        look(editor)
        if e == 0 and variant % 4 == 1:
            push({"a": "sync", "f": other, "t": author, "how": "state"})
            look(author)
    if variant % 5 == 2:
        push({"a": "qdel", "r": (author, other)[variant % 2], "h": handles[0]})
        look((author, other)[variant % 2])
    look()
    # observer 8: TLC's delivery order of the base updates; the new updates at seeded places
    order = [slot_of[s["u"][0]] for s in b8 if len(s["u"]) == 1 and s["u"][0] in slot_of]
    for m in mine:
        order.insert(rnd.randrange(len(order) + 1), m)
    for u in order:
        steps.append({"a": "dlv", "r": 8, "u": [u]})
        look(8)
    # observer 9: emission order
    for u in range(1, nslot + 1):
        steps.append({"a": "dlv", "r": 9, "u": [u]})
        look(9)
    for s in closing:
        steps.append(s)
        look(s["t"])
    steps.append({"a": "sync", "f": 8, "t": 9, "how": "diff", "sv": "own", "closing": True})
    look()
    cfg = dict(sched["cfg"])
    cfg["ext"] = ["quote"]
    cfg["followers"] = False
    # every third variant of a text history mixes characters outside the BMP (surrogate pairs) into the insertions: boundaries
    # on / behind such a character (defect F-wide-2, repaired in /repo)
    if variant % 3 == 2 and what != "link":
        cfg["wide"] = True
    return {"bid": "%s-v%d" % (sched["bid"], variant), "cfg": cfg, "steps": steps}


def make_transform(what, n, deg=False):
    def fn(scheds, seed, tier):
        if not scheds:
            return []
        rnd = random.Random(_h(seed, what, n))
        out, variant = [], 0
        pool = list(scheds)
        rnd.shuffle(pool)
        i = 0
        while len(out) < n and i < 4 * n:
            t = transform_one(pool[i % len(pool)], what, variant, seed, deg)
            i += 1
            variant += 1
            if t is not None:
                out.append(t)
        return out
    return fn


def trace_stats(tfile):
    """coverage read off the recorded trace, per group: which ranges were quoted, how often a dereference saw a change"""
    def fresh():
        return {"behaviours": 0, "quotes": 0, "links": 0, "qdel": 0, "ranges": set(), "skipped_steps": 0, "derefs": 0, "derefs_stored": 0,
                "derefs_changed": 0, "observer_firings": 0, "deleted_boundary_derefs": 0}
    out = {}
    st = fresh()
    last, bounds, dead = {}, {}, {}
    with open(tfile) as f:
        for ln in f:
            if ln.startswith('{"bid":'):
                last, bounds, dead = {}, {}, {}
                st = out.setdefault(group_of(json.loads(ln)["bid"]), fresh())
                st["behaviours"] += 1
                continue
            if '"k":"qloc"' not in ln and '"k":"unquote"' not in ln and '"k":"qskip"' not in ln:
                if '"obs":' in ln and bounds:
                    e = json.loads(ln)
                    r = e.get("r", e.get("t"))
                    dead[r] = {tuple(x) for x in e["obs"]["dead"]}
                continue
            e = json.loads(ln)
            if e["k"] == "qskip":
                st["skipped_steps"] += 1
            elif e["k"] == "qloc":
                c = e["call"]
                if e["outcome"] != "ok":
                    st["skipped_steps"] += 1
                elif c["a"] == "quote":
                    st["quotes"] += 1
                    st["ranges"].add((e["kind"], c["n"], c["su"], c["i"], c["si"], c["eu"], c["j"], c["ei"]))
                    bounds[e["h"]] = (tuple(e["wlo"]), tuple(e["whi"]))
                elif c["a"] == "link":
                    st["links"] += 1
                else:
                    st["qdel"] += 1
                dead[e["r"]] = {tuple(x) for x in e["obs"]["dead"]}
            else:
                for x in e["res"]:
                    st["derefs"] += 1
                    if x["present"]:
                        st["derefs_stored"] += 1
                        key = (x["r"], x["h"])
                        if key in last and last[key] != x["ids"]:
                            st["derefs_changed"] += 1
                        last[key] = x["ids"]
                        b = bounds.get(x["h"])
                        if b and (b[0] in dead.get(x["r"], ()) or b[1] in dead.get(x["r"], ())):
                            st["deleted_boundary_derefs"] += 1
                    st["observer_firings"] += x["fired"]
    for g in out:
        out[g]["distinct_ranges"] = len(out[g].pop("ranges"))
    return out


def group_of(bid):
    for g, (base, _, _) in GROUPS.items():
        if bid.startswith(base + "-"):
            return g
    return "qrand"


def judge(tfile, vdir):
    """V stage + classification of one recorded trace: (merged verdict, {bid: {"preds": [[pred, event ordinal, index of
    the failing unquote result or 0]], "ctx": context of every C20 violation (quote_patterns.context)}}, {bid: failing event})"""
    import quote_patterns
    merged = vlib.validate(TRACE[0], TRACE[1], tfile, vdir, parallel=10)
    bad = {}
    for v in merged["viol"]:
        bad.setdefault(v[0], []).append([v[1], v[2], v[3] if len(v) > 3 else 0])
    events, out = {}, {}
    if bad:
        evs, cur = {}, None
        with open(tfile) as f:
            for ln in f:
                if ln.startswith('{"bid":'):
                    cur = json.loads(ln)["bid"]
                    cur = cur if cur in bad else None
                    if cur:
                        evs[cur] = []
                elif cur:
                    evs[cur].append(json.loads(ln))
        for b, preds in bad.items():
            el = evs.get(b, [])
            # a base predicate that fails at the very event that delivers a quotation element is a C20 matter (no other
            # check delivers quotations): decided by TLC (C01_NoFailure / C01_DepClosed), named C20_QuotationDelivery here
            for pname, ln, _ in list(preds):
                if pname in ("C01_NoFailure", "C01_DepClosed") and 1 <= ln <= len(el):
                    e = el[ln - 1]
                    units = []
                    for part in ("upd", "full", "emit"):
                        units += (e.get(part) or {}).get("ins", [])
                    if e.get("k") in ("dlv", "sync") and any(u.get("t") == "weak" for u in units) \
                            and ["C20_QuotationDelivery", ln, 0] not in preds:
                        preds.append(["C20_QuotationDelivery", ln, 0])
            preds.sort(key=lambda p: (p[1], p[2], p[0]))
            k = min(p[1] for p in preds)
            if 1 <= k <= len(el):
                events[b] = el[k - 1]
            out[b] = {"preds": preds, "ctx": quote_patterns.context(el, preds)}
    return merged, out, events


def run_all(tier, workdir):
    """G per group, transform, then ONE X run (+ the seeded random runs) and ONE V run over the concatenated trace."""
    seed = vlib.seed()
    cpath = yata_pipe._cache_path(vlib.tree_hash(), "quote", "all", tier, seed, SCALE)
    if os.path.exists(cpath):
        with open(cpath) as f:
            r = json.load(f)
        r["cached"] = True
        return r
    t0 = time.time()
    wd = os.path.join(workdir, "quote-all")
    shutil.rmtree(wd, ignore_errors=True)
    os.makedirs(wd)
    gstats, scheds = [], []
    for g, (base, what, sizes) in GROUPS.items():
        hists, st = yata_pipe.gen_hists(base, tier, workdir)
        sc = make_transform(what, max(20, sizes[tier] * SCALE // 100))(yata_pipe.make_schedules(hists, base, seed), seed, tier)
        st = dict(st)
        st["group"], st["base"], st["used"] = g, base, len(sc)
        gstats.append(st)
        scheds += sc
    sfile, tfile = os.path.join(wd, "schedules.ndjson"), os.path.join(wd, "trace.ndjson")
    tx = time.time()
    xs = vlib.run_x_sched(scheds, sfile, tfile, ["--seed", str(seed), "--repeat", "1"])
    nrand = 0
    for i in range(RANDOM[tier]):
        rs, rt = os.path.join(wd, "rs%d.ndjson" % i), os.path.join(wd, "rt%d.ndjson" % i)
        rsch, _ncr = vlib.run_x_random(rs, rt, ["--seed", str(_h(seed, i, "quote") % (1 << 31)),
                                              "--ops", str(14 if i % 2 == 0 else 36), "--ext", "quote", "--gc-off", "1" if i % 3 == 2 else "0", "--wide", "3"],
                                       max(20, (120 if tier == "quick" else 300) * SCALE // 100))
        nrand += len(rsch)
        scheds += rsch
        with open(sfile, "a") as out, open(rs) as f:
            shutil.copyfileobj(f, out)
        with open(tfile, "a") as out, open(rt) as f:
            shutil.copyfileobj(f, out)
        os.remove(rs)
        os.remove(rt)
    qstats = trace_stats(tfile)
    tv = time.time()
    merged, bad, events = judge(tfile, os.path.join(wd, "v"))
    by_bid = {s["bid"]: s for s in scheds}
    nt = [hashlib.sha256(json.dumps(s["steps"], sort_keys=True).encode()).hexdigest()[:16] for s in scheds if yata_pipe.nontrivial(s)]
    viol_by_group = {}
    for b, info in bad.items():
        d = viol_by_group.setdefault(group_of(b), {})
        for pn in {p[0] for p in info["preds"]}:
            d[pn] = d.get(pn, 0) + 1
    res = {"group": "quote-all", "engine": "quote", "gstats": gstats, "x": xs, "random_behaviours": nrand,
           "x_wall": tv - tx, "v_wall": time.time() - tv, "merged": merged,
           "bad": {b: {"preds": p["preds"], "schedule": by_bid.get(b, {}), "event": events.get(b), "ctx": p["ctx"]} for b, p in bad.items()},
           "nontrivial": sorted(set(nt)), "samples": [scheds[i] for i in (0, len(scheds) // 2) if scheds],
           "qstats": qstats, "violating_by_group": viol_by_group, "wall": time.time() - t0, "cached": False}
    with open(cpath, "w") as f:
        json.dump(res, f)
    if not bad:
        for p in (tfile, sfile):
            try:
                os.remove(p)
            except OSError:
                pass
    return res


def run_design(tier, workdir):
    cpath = yata_pipe._cache_path(vlib.tree_hash(), "D", "d_quote")
    if os.path.exists(cpath):
        with open(cpath) as f:
            return json.load(f)
    r = vlib.design_check("MC_Quote", "D_quote.cfg", os.path.join(workdir, "d_quote"))
    r = {k: r[k] for k in ("distinct", "generated", "depth", "wall", "coverage")}
    with open(cpath, "w") as f:
        json.dump(r, f)
    return r


def check(prop, tier):
    ev = vlib.Evidence(prop, tier)
    bt = vlib.build_harness("yx")
    wd = os.path.join(vlib.WORK, "run-%s" % prop)
    ev.add_tlc("D_quote.cfg", run_design(tier, wd), "design")
    r = run_all(tier, wd)
    for g in r["gstats"]:
        ev.add_tlc(yata_pipe.G_GROUPS[g["base"]][1], {"distinct": g["distinct"], "generated": g["generated"], "depth": g["depth"],
                                                    "wall": g["wall"], "replay": [0] * g["replay"]}, "G")
    ev.add_v("qtext + qarr + qlink + %d random behaviours" % r["random_behaviours"], r["merged"], r["nontrivial"], r["v_wall"])
    for s in r["samples"]:
        ev.sample(s)
    ev.cov["groups"] = [{k: g[k] for k in ("group", "base", "replay", "used")} for g in r["gstats"]]
    ev.cov["quote"] = r["qstats"]
    ev.cov["violating_by_group"] = r["violating_by_group"]
    results = [r]
    ev.cov["rule"] = ("behaviour = a TLC-enumerated history of MC_Yata (text: seq3, arrays incl. nested: nesta3 sample, map entries: map3; "
                      "2 authors, 3 operations, every delivery order to an observer) in which, right after an insert (map write), "
                      "its author stores 2-3 quotations (links) in root map m -- the range walks through the canonical list of all "
                      "ranges over the current source (every i<=j x inclusive/exclusive ends, single unit, unbounded ends) -- then the "
                      "history continues, 2-4 edits are placed relative to the boundaries (before/at/after each boundary, middle, "
                      "outside; inserts and deletes; by either author, i.e. also concurrently), sometimes the quotation is deleted, "
                      "every update (the quotations' included) reaches observer 8 in a permuted and observer 9 in emission order; "
                      "every stored quotation is dereferenced on every replica after every step and compared by TLC (Trace_Quote) with "
                      "Quote!Content of that replica's recorded element list; plus seeded random schedules (ext/quote.rs random_step). "
                      "distinct_ranges = distinct (kind, source length, range) combinations actually quoted")
    ev.cov["harness_build_s"] = round(bt, 1)
    ev.assumptions = ["TLC, CommunityModules", "harness adapters and observation functions (obs.rs, codec.rs, ext/quote.rs)",
                      "hook H1 (yrs::verif) reports the item lists (incl. tombstones) faithfully",
                      "element identity through unique value tags (world.tags)"]
    rc = vlib.report(prop, ev, results, ["C20_"])
    ev.write()
    return rc


def manifest_entries():
    return [{
        "property_id": "C20", "quick_cmd": "./check C20 --tier quick", "thorough_cmd": "./check C20 --tier thorough",
        "evidence_file": "evidence/C20.json", "replay_cmd_template": "./check replay {path}", "engine": "quote",
        "level_claimed": {"category": "model_checking",
                          "text": ("Quote.tla defines the content of a quotation (not-deleted elements between the boundary elements in the "
                                   "replica's list, tombstoned boundaries keep their place; a link shows the entry's current value). MC_Quote "
                                   "checks on all reachable states of the document model that this meaning is replica-independent. TLC-enumerated "
                                   "histories are extended with quotations over every range, boundary-relative edits and deletion of the "
                                   "quotation, executed on real Docs; TLC validates every dereference on every replica after every step "
                                   "(C20_BoundariesRight, C20_UnquoteExact, C20_LinkDeref, C20_Reachable), observer notification when the quoted "
                                   "elements change (C20_NotifiedOnChange; C20_NotifiedAfterStashedOverwrite where the link chain depends on the "
                                   "order in which a stashed overwrite is applied; the strong reading 'any change of the content' is counted as "
                                   "drift notify-miss), that creating/deleting a quotation leaves the source untouched (C20_SourceUntouched), and "
                                   "that delivering a quotation element neither fails nor integrates it before its dependencies "
                                   "(C20_QuotationDelivery = C01_NoFailure / C01_DepClosed of Trace_Yata failing at such an event)."),
                          "design_ref": "DESIGN.md section 6/C20"},
        "level_note": ("Trusted: TLC + CommunityModules; harness adapters (harness/src/ext/quote.rs, obs.rs, codec.rs); hook H1. Small scope: "
                       "sources of <= 3-5 units, 2 authors, quotations stored in a root map; XML child lists, quotations embedded in text and "
                       "deep observers are not exercised; beyond the bounds seeded random schedules."),
        "technique": ("TLA+ spec (Quote over Yata) model-checked with TLC (MC_Quote); TLC-generated schedules extended with quotation steps "
                      "replayed on real yrs; recorded traces validated by TLC against Trace_Quote"),
    }]
