"""C19 -- the C API (yffi) is a faithful projection of the Rust API.

No specification of its own: the C API must satisfy the SAME specifications as the Rust API.  The harness binary `yx_ffi`
(harness/src/ffi.rs) is a second DRIVER of the SeqApi and Yata adapters that performs every operation through the exported
`extern "C"` functions of /repo/yffi/src/lib.rs (compiled into the harness), called with C values, and records traces in exactly
the format of the Rust drivers:

* seq part  -- TLC-enumerated SeqApi programs (G stage of seqapi_pipe) executed through ydoc_*/ytransaction_*/ytext_*/yarray_*/
  ymap_*/yxmlelem_*/yxmltext_* with every accessor read through the C API; validated by TLC against Trace_Ffi (= Trace_SeqApi
  unchanged + comparisons with a TWIN document driven natively by the same program).  C03_x / C17_x -> C19_Seq_x.
* repl part -- TLC-enumerated Yata histories (G stage of yata_pipe) executed in a World in which replica 1 and observer 8 (or 2 and
  9, or both authors) are C-driven and exchange updates with Rust-driven replicas; validated by Trace_Yata unchanged.
  Cxx_y -> C19_Repl_y.

A violating behaviour is re-executed with the Rust driver; if the same predicate fails there as well the defect is not one of the
C layer (it is reported by that property's own check) and is only noted."""
import hashlib
import json
import os
import random
import re
import shutil
import time
from concurrent.futures import ThreadPoolExecutor

import seqapi_pipe
import vlib
import yata_pipe

PROPS = ["C19"]
PREFIXES = ["C19_"]
BIN = lambda: os.path.join(vlib.HARNESS, "target", "debug", "yx_ffi")  # noqa: E731
# ./check replay: (harness binary, argument builder, trace module, cfg); the repl part has its own engine name (ffiy_pipe.py)
REPLAY = ("yx_ffi", lambda s, t: ["seqapi-run", "--in", s, "--out", t], "Trace_Ffi", "Trace_Ffi.cfg")
REPLAY_REPL = ("yx_ffi", lambda s, t: ["yata-run", "--in", s, "--out", t, "--seed", str(vlib.seed())], "Trace_Yata", "Trace_Yata.cfg")

SEQ_FAMILIES = [("text", "utf16"), ("text", "bytes"), ("array", "utf16"), ("map", "utf16"), ("xml", "utf16")]
TIERS = {
    # seq: programs sampled per (family, unit) from the exhaustive set / from the simulated long programs; repl: behaviours per group
    "quick": {"exh": 330, "sim": 100, "repl": {"seq3": 400, "map3": 400, "nestm3": 300}, "units": SEQ_FAMILIES,
              # long (simulated) programs: one offset unit per family is enough for the quick tier
              "sim_units": [("text", "utf16"), ("array", "utf16"), ("map", "utf16"), ("xml", "utf16")]},
    "thorough": {"exh": 6000, "sim": 2500, "repl": {"seq3": 3732, "map3": 6000, "nestm3": 6000, "nesta3": 4000},
                 "units": SEQ_FAMILIES + [("array", "bytes"), ("map", "bytes"), ("xml", "bytes")],
                 "sim_units": SEQ_FAMILIES + [("array", "bytes"), ("map", "bytes"), ("xml", "bytes")]},
}
# operations of the sequential model without a C counterpart: a program is cut before the first of them
NO_C_EQUIVALENT = ("mupd", "minit")
# input cell kinds beyond plain numbers (yinput_long/string/bool/null/binary/json_array/json_map/json)
CELL_KINDS = ["long", "str", "bool", "null", "buf", "jarr", "jmap", "json"]
VALUE_OPS = ("ains", "apushb", "apushf", "arange", "mset", "temb")


def _h(*a):
    return int(hashlib.sha256(("|".join(str(x) for x in a)).encode()).hexdigest()[:12], 16)


def _cache(*parts):
    cdir = os.path.join(vlib.WORK, "cache")
    os.makedirs(cdir, exist_ok=True)
    return os.path.join(cdir, "-".join(str(p) for p in parts) + ".json")


def relabel(pred, part):
    if pred.startswith("C19_"):
        return pred
    return re.sub(r"^C\d\d_", "C19_%s_" % part, pred)


# ------------------------------------------------------------------------------------------------
# seq part

def c_programs(scheds, seed, n, gname):
    """programs executable through C: cut before the first call without a C counterpart, de-duplicated, seeded sample of n,
    seeded choice of the input cell kind for value-carrying calls"""
    out, seen = [], set()
    for s in scheds:
        calls = []
        for c in s["calls"]:
            if c["op"] in NO_C_EQUIVALENT:
                break
            calls.append(dict(c))
        if not calls:
            continue
        calls[-1]["commit"] = True
        k = json.dumps([calls, s["cfg"]], sort_keys=True)
        if k in seen:
            continue
        seen.add(k)
        out.append({"bid": "c-" + s["bid"], "cfg": dict(s["cfg"]), "calls": calls})
    total = len(out)
    if len(out) > n:
        out = random.Random(_h(seed, gname, "c-sample")).sample(out, n)
    out.sort(key=lambda s: s["bid"])
    kix = 0
    for i, s in enumerate(out):
        rnd = random.Random(_h(seed, s["bid"], "vk"))
        varied = False
        if i % 2 == 1:
            for c in s["calls"]:
                # (an embed inside XML shows in the rendered XML string, which is compared with the twin: plain numbers there)
                if c["op"] in VALUE_OPS and c.get("kind", "u") == "u" and rnd.random() < 0.7 and not (c["op"] == "temb" and c["p"][0] == "x"):
                    c["vk"] = CELL_KINDS[kix % len(CELL_KINDS)]
                    kix += 1
                    if c["op"] == "temb" and c["vk"] == "str":
                        # an embedded STRING reads back as a string chunk, indistinguishable from text in the Rust API as well
                        c["vk"] = "jmap"
                    varied = True
        # twin comparisons of sticky indexes / snapshots / observers / undo need equal values on both sides
        s["cfg"]["extras"] = not varied
        # undo manager round trip (scope = the text root): programs of the text family only
        s["cfg"]["undo"] = (not varied) and "-text-" in s["bid"]
    return out, total


def seq_programs(tier, workdir):
    seed = vlib.seed()
    cpath = _cache(vlib.tree_hash(), "ffi-seq-G", tier, seed)
    if os.path.exists(cpath):
        with open(cpath) as f:
            d = json.load(f)
        return d["scheds"], d["gstats"]
    plan = TIERS[tier]
    scheds, gstats = [], []
    tasks = [(fam, unit, mode) for fam, unit in plan["units"] for mode in ("exh", "sim") if mode == "exh" or (fam, unit) in plan["sim_units"]]
    # TLC runs of different families are independent (own work directories): three at a time
    with ThreadPoolExecutor(max_workers=3) as ex:
        gens = list(ex.map(lambda t: seqapi_pipe.gen_family(t[0], t[1], tier, workdir, t[2]), tasks))
    for (fam, unit, mode), (sc, st) in zip(tasks, gens):
        cs, total = c_programs(sc, seed, plan[mode], st["group"])
        st["c_executable"] = total
        st["used"] = len(cs)
        scheds += cs
        gstats.append(st)
    with open(cpath, "w") as f:
        json.dump({"scheds": scheds, "gstats": gstats}, f)
    return scheds, gstats


def _failing_events(tfile, bad):
    """first failing event of every violating behaviour (without the bulky observation fields)"""
    evs, cur = {}, None
    with open(tfile) as f:
        for ln in f:
            if ln.startswith('{"bid":'):
                cur = json.loads(ln)["bid"]
                cur = cur if cur in bad else None
                if cur:
                    evs[cur] = []
            elif cur:
                evs[cur].append(ln)
    out = {}
    for b, preds in bad.items():
        k = min(p[1] for p in preds)
        if b in evs and 1 <= k <= len(evs[b]):
            out[b] = json.loads(evs[b][k - 1])
    return out


def confirm_rust(kind, bad, by_bid, wd):
    """Re-executes the violating behaviours with the RUST driver of the same adapter.  Returns {bid: set(predicates that fail there too)}."""
    if not bad:
        return {}
    os.makedirs(wd, exist_ok=True)
    sfile, tfile = os.path.join(wd, "s.ndjson"), os.path.join(wd, "t.ndjson")
    some = sorted(bad)[:40]
    with open(sfile, "w") as f:
        for b in some:
            s = by_bid[b]
            if kind == "repl":
                s = dict(s, cfg=dict(s["cfg"], cdriven=[]))
            f.write(json.dumps(s) + "\n")
    if kind == "seq":
        vlib.build_harness("yx_seqapi")
        rc, out = vlib.sh([os.path.join(vlib.HARNESS, "target", "debug", "yx_seqapi"), "--in", sfile, "--out", tfile], timeout=600)
        mod = ("Trace_SeqApi", "Trace_SeqApi.cfg")
    else:
        rc, out = vlib.sh([BIN(), "yata-run", "--in", sfile, "--out", tfile, "--seed", str(vlib.seed())], timeout=600)
        mod = ("Trace_Yata", "Trace_Yata.cfg")
    if rc != 0:
        raise vlib.ToolError("rust-driver confirmation run failed (rc %d): %s" % (rc, out[-800:]))
    merged = vlib.validate(mod[0], mod[1], tfile, os.path.join(wd, "v"), parallel=4)
    also = {}
    for b, pred, _ in merged["viol"]:
        also.setdefault(b, set()).add(pred)
    return also


def _classify(kind, part, merged, by_bid, tfile, wd):
    """violations of the C-driven run -> result['bad'] (relabelled) after removing predicates the Rust driver violates as well"""
    raw = {}
    for b, pred, line in merged["viol"]:
        raw.setdefault(b, []).append([pred, line])
    events = _failing_events(tfile, raw) if raw else {}
    also = confirm_rust(kind, raw, by_bid, wd)
    bad, notc = {}, {}
    for b, preds in raw.items():
        mine = [[relabel(p, part), ln] for p, ln in preds if p not in also.get(b, ())]
        for p, _ in preds:
            if p in also.get(b, ()):
                notc[p] = notc.get(p, 0) + 1
        if mine:
            ev = events.get(b)
            if ev is not None:
                ev = {k: v for k, v in ev.items() if k not in ("dump", "after", "obs", "fobs", "fol")}
            bad[b] = {"preds": mine, "schedule": by_bid.get(b), "event": ev}
    return bad, notc


def run_seq(tier, workdir):
    seed = vlib.seed()
    cpath = _cache(vlib.tree_hash(), "ffi-seq", tier, seed)
    if os.path.exists(cpath):
        with open(cpath) as f:
            r = json.load(f)
        r["cached"] = True
        return r
    t0 = time.time()
    scheds, gstats = seq_programs(tier, workdir)
    wd = os.path.join(workdir, "seq-xv")
    shutil.rmtree(wd, ignore_errors=True)
    os.makedirs(wd)
    sfile, tfile = os.path.join(wd, "schedules.ndjson"), os.path.join(wd, "trace.ndjson")
    with open(sfile, "w") as f:
        for s in scheds:
            f.write(json.dumps(s) + "\n")
    tx = time.time()
    rc, out = vlib.sh([BIN(), "seqapi-run", "--in", sfile, "--out", tfile], timeout=3000)
    if rc != 0:
        raise vlib.ToolError("yx_ffi seqapi-run failed (rc %d): %s" % (rc, out[-1500:]))
    try:
        xs = json.loads(out.strip().splitlines()[-1])
    except Exception:  # noqa
        xs = {}
    tv = time.time()
    merged = vlib.validate("Trace_Ffi", "Trace_Ffi.cfg", tfile, os.path.join(wd, "v"), parallel=8)
    by_bid = {s["bid"]: s for s in scheds}
    bad, notc = _classify("seq", "Seq", merged, by_bid, tfile, os.path.join(wd, "confirm"))
    kinds = {}
    for s in scheds:
        for c in s["calls"]:
            if c.get("vk"):
                kinds[c["vk"]] = kinds.get(c["vk"], 0) + 1
    res = {"group": "ffi-seq", "engine": "ffi", "gstats": gstats, "x": xs, "x_wall": tv - tx, "v_wall": time.time() - tv, "merged": merged,
           "bad": bad, "not_c_specific": notc, "cell_kinds": kinds,
           "nontrivial": [hashlib.sha256(json.dumps(s["calls"], sort_keys=True).encode()).hexdigest()[:16] for s in scheds if len(s["calls"]) > 1],
           "samples": [scheds[i] for i in (len(scheds) // 5, (len(scheds) * 4) // 5) if scheds], "wall": time.time() - t0, "cached": False}
    with open(cpath, "w") as f:
        json.dump(res, f)
    if not bad:
        for p in (sfile, tfile):
            try:
                os.remove(p)
            except OSError:
                pass
    return res


# ------------------------------------------------------------------------------------------------
# repl part

def c_schedules(gname, tier, workdir):
    seed = vlib.seed()
    hists, gstats = yata_pipe.gen_hists(gname, tier, workdir)
    scheds = yata_pipe.make_schedules(hists, gname, seed)
    n = TIERS[tier]["repl"][gname]
    total = len(scheds)
    if len(scheds) > n:
        scheds = random.Random(_h(seed, gname, "ffi-repl")).sample(scheds, n)
        scheds.sort(key=lambda s: s["bid"])
    out = []
    for i, s in enumerate(scheds):
        # which replicas are C-driven: author 1 + observer 8 | author 2 + observer 9 | both authors + observer 8
        cd = ([1, 8], [1, 8], [2, 9], [1, 2, 8])[i % 4]
        out.append({"bid": "c-" + s["bid"], "cfg": dict(s["cfg"], cdriven=cd), "steps": s["steps"]})
    gstats = dict(gstats, used=len(out), schedules=total)
    return out, gstats


def run_repl(gname, tier, workdir):
    seed = vlib.seed()
    cpath = _cache(vlib.tree_hash(), "ffi-repl", gname, tier, seed)
    if os.path.exists(cpath):
        with open(cpath) as f:
            r = json.load(f)
        r["cached"] = True
        return r
    t0 = time.time()
    scheds, gstats = c_schedules(gname, tier, workdir)
    wd = os.path.join(workdir, "repl-" + gname)
    shutil.rmtree(wd, ignore_errors=True)
    os.makedirs(wd)
    sfile, tfile = os.path.join(wd, "schedules.ndjson"), os.path.join(wd, "trace.ndjson")
    with open(sfile, "w") as f:
        for s in scheds:
            f.write(json.dumps(s) + "\n")
    tx = time.time()
    rc, out = vlib.sh([BIN(), "yata-run", "--in", sfile, "--out", tfile, "--seed", str(seed)], timeout=3000)
    if rc != 0:
        raise vlib.ToolError("yx_ffi yata-run failed (rc %d): %s" % (rc, out[-1500:]))
    try:
        xs = json.loads(out.strip().splitlines()[-1])
    except Exception:  # noqa
        xs = {}
    tv = time.time()
    merged = vlib.validate("Trace_Yata", "Trace_Yata.cfg", tfile, os.path.join(wd, "v"), parallel=8)
    by_bid = {s["bid"]: s for s in scheds}
    bad, notc = _classify("repl", "Repl", merged, by_bid, tfile, os.path.join(wd, "confirm"))
    res = {"group": "ffi-repl-" + gname, "engine": "ffiy", "g": gstats, "x": xs, "x_wall": tv - tx, "v_wall": time.time() - tv, "merged": merged,
           "bad": bad, "not_c_specific": notc,
           "nontrivial": sorted({hashlib.sha256(json.dumps(s["steps"], sort_keys=True).encode()).hexdigest()[:16] for s in scheds if yata_pipe.nontrivial(s)}),
           "samples": scheds[:1], "wall": time.time() - t0, "cached": False}
    with open(cpath, "w") as f:
        json.dump(res, f)
    if not bad:
        for p in (sfile, tfile):
            try:
                os.remove(p)
            except OSError:
                pass
    return res


# ------------------------------------------------------------------------------------------------
# plugin interface

def check(prop, tier):
    ev = vlib.Evidence(prop, tier)
    bt = vlib.build_harness("yx_ffi")
    wd = os.path.join(vlib.WORK, "run-%s" % prop)
    os.makedirs(wd, exist_ok=True)
    plan = TIERS[tier]
    groups = list(plan["repl"])
    # G stages first (TLC with many workers), then X/V of the parts side by side
    with ThreadPoolExecutor(max_workers=2) as ex:
        fs = ex.submit(seq_programs, tier, wd)
        fy = ex.submit(lambda: [yata_pipe.gen_hists(g, tier, wd) for g in groups])
        fs.result()
        fy.result()
    with ThreadPoolExecutor(max_workers=2) as ex:
        fseq = ex.submit(run_seq, tier, wd)
        frepl = [ex.submit(run_repl, g, tier, wd) for g in groups]
        rseq = fseq.result()
        rrepl = [f.result() for f in frepl]
    results = [rseq] + rrepl
    for g in rseq["gstats"]:
        ev.add_tlc(g["group"], {"distinct": g["distinct"], "generated": g["generated"], "depth": g["depth"], "wall": g["wall"],
                                "replay": [0] * g["replay"]}, "G")
    ev.add_v("ffi-seq", rseq["merged"], rseq["nontrivial"], rseq["v_wall"])
    for s in rseq["samples"]:
        ev.sample(s)
    for g, r in zip(groups, rrepl):
        ev.add_tlc(yata_pipe.G_GROUPS[g][1], {"distinct": r["g"]["distinct"], "generated": r["g"]["generated"], "depth": r["g"]["depth"],
                                              "wall": r["g"]["wall"], "replay": [0] * r["g"]["replay"]}, "G")
        ev.add_v(r["group"], r["merged"], r["nontrivial"], r["v_wall"])
        for s in r["samples"]:
            ev.sample(s)
    notc = {}
    for r in results:
        for p, n in r.get("not_c_specific", {}).items():
            notc[p] = notc.get(p, 0) + n
    for p, n in sorted(notc.items()):
        print("# note: %d C-driven behaviours violate %s, and so does the Rust-driven execution of the same behaviour "
              "(not a deviation of the C layer; reported by that property's own check)" % (n, p))
    ev.cov["aborted_c_calls"] = sum(r["x"].get("aborted", 0) for r in results)
    ev.cov["input_cell_kinds"] = rseq.get("cell_kinds", {})
    ev.cov["seq_groups"] = [{k: g.get(k) for k in ("group", "replay", "c_executable", "used", "exhaustive")} for g in rseq["gstats"]]
    ev.cov["repl_groups"] = [{"group": r["group"], "schedules": r["g"].get("schedules"), "used": r["g"].get("used")} for r in rrepl]
    ev.cov["rule"] = ("seq part: programs = TLC-enumerated sequences of valid public calls (MC_SeqApi: all programs up to the exhaustive length and "
                      "simulated longer ones per type family / offset unit), cut before the first call without a C counterpart (%s), seeded "
                      "sample; every call is made through the exported C functions with C values, in every second program value-carrying calls "
                      "use a seeded non-number input cell kind; after every call every accessor of every reachable shared type is read through "
                      "the C API and validated by TLC against the sequential model (Trace_SeqApi predicates) and against a twin document driven "
                      "natively (encoded state, outcome, rendered XML); repl part: TLC-enumerated Yata histories x delivery orders executed with "
                      "C-driven replicas (1+8 | 2+9 | 1+2+8) exchanging v1/v2 updates with Rust-driven ones, validated by Trace_Yata unchanged; "
                      "non-trivial = more than one call / out-of-order, duplicate or merged delivery" % ", ".join(NO_C_EQUIVALENT))
    ev.cov["exhaustive"] = False
    ev.cov["harness_build_s"] = round(bt, 1)
    ev.assumptions = ["TLC, CommunityModules", "harness driver ffi.rs (one exported C function per abstract call; dump through the C API only)",
                      "the exported functions are called through their Rust signatures: ABI / header agreement of libyrs.h is not covered",
                      "structural observation of C-driven replicas (item order, tombstones, holes) through hook H1 on the shared Doc handle",
                      "a panic inside an extern \"C\" function aborts the process: recorded by a supervising process as outcome `panic`"]
    rc = vlib.report(prop, ev, results, PREFIXES)
    ev.write()
    return rc


ENGINE_TEXT = ("second driver of the SeqApi and Yata adapters on the exported C functions of yffi; same TLC-generated programs / schedules, "
               "same TLC trace specifications (Trace_SeqApi via Trace_Ffi, Trace_Yata) + twin-document comparisons evaluated by TLC")


def manifest_entries():
    text = ("No specification of its own: the C API is bound to the specifications of the Rust API. TLC-enumerated SeqApi programs are executed "
            "through the exported C functions (documents, transactions, text, array, map, XML, input cells of every kind, output cells, "
            "iterators) and every accessor is read through the C API; TLC validates the C-driven trace against the unchanged sequential "
            "specification (C03/C17 predicates reported as C19_Seq_*) and compares, per call, the abstract decode of ytransaction_state_diff_v1 "
            "with the encoded state of a twin document driven natively (C19_EncodedStateEqual, C19_OutcomeEqual, C19_XmlStringEqual, "
            "C19_AttrReadsAgree, C19_ExtrasEqual). TLC-enumerated Yata histories are executed with C-driven replicas (local edits, state vectors, "
            "v1/v2 diffs, update application, update observers, pending-update / pending-delete-set readers, forced GC through C) exchanging "
            "updates with Rust-driven replicas and validated by the unchanged Trace_Yata (all C01-C08/C15 predicates reported as C19_Repl_*).")
    note = ("Trusted: TLC + CommunityModules; driver ffi.rs; hook H1 for the structural observation of C-driven replicas. The functions are called "
            "through their Rust signatures from a crate that compiles yffi/src/lib.rs as a module: ABI / header agreement of libyrs.h is NOT "
            "covered. Operations without a C counterpart (try_update, get_or_init) are cut from the programs; push is performed as insert at "
            "the current length. Not exercised: sub-documents, weak links / quotations, JSON path, deep observers. Samples of the enumerated "
            "sets are seeded (VERIF_SEED).")
    return [{"property_id": "C19", "quick_cmd": "./check C19 --tier quick", "thorough_cmd": "./check C19 --tier thorough",
             "evidence_file": "evidence/C19.json", "replay_cmd_template": "./check replay {path}", "engine": "ffi",
             "level_claimed": {"category": "model_checking", "text": text, "design_ref": "DESIGN.md section 6/C19"},
             "level_note": note,
             "technique": "TLA+ specs SeqApi / Yata (unchanged) + TLC-generated programs and schedules replayed through the C API + TLC trace validation"}]
