"""G -> X -> V pipeline for the SeqApi specification (C03 sequential behaviour, C17 read paths agree)."""
import hashlib
import json
import os
import random
import shutil
import time

import vlib

PROPS = ["C03", "C17"]
PREFIXES = {"C03": ["C03_"], "C17": ["C17_"]}
FAMILIES = ["text", "array", "map", "xml"]
UNITS = ["bytes", "utf16"]
BIN = lambda: os.path.join(vlib.HARNESS, "target", "debug", "yx_seqapi")  # noqa: E731

TIERS = {
    # exhaustive program length, simulation program length, number of simulated programs per family/unit
    "quick": {"exh": {"text": 2, "array": 3, "map": 2, "xml": 3}, "sim_len": 6, "sim_walks": 40, "sim_n": 1200, "shape_n": 5000, "design": 3},
    "thorough": {"exh": {"text": 3, "array": 4, "map": 3, "xml": 4}, "sim_len": 10, "sim_walks": 200, "sim_n": 8000, "shape_n": 50000, "design": 4},
}


def _h(*a):
    return int(hashlib.sha256(("|".join(str(x) for x in a)).encode()).hexdigest()[:12], 16)


def _cfg_text(fam, unit, maxops, inv, shape="NoShape"):
    return ("CONSTANTS\n  Family = \"%s\"\n  Unit = \"%s\"\n  MaxOps = %d\n  Shape <- %s\nSPECIFICATION Spec\nINVARIANTS %s\nCHECK_DEADLOCK FALSE\n"
            % (fam, unit, maxops, shape, inv))


def _write_cfg(name, text):
    p = os.path.join(vlib.SPEC, name)
    if not os.path.exists(p) or open(p).read() != text:
        with open(p, "w") as f:
            f.write(text)
    return name


def to_schedule(hist, bid, unit, rnd):
    calls = []
    for h in hist:
        c = dict(h)
        if not c.get("hasattrs"):
            c["attrs"] = None
        c["commit"] = rnd.random() < 0.6
        calls.append(c)
    calls[-1]["commit"] = True
    return {"bid": bid, "cfg": {"offset": unit, "gc": rnd.random() < 0.5}, "calls": calls}


def gen_family(fam, unit, tier, workdir, mode):
    """G stage. mode = 'exh' (all programs up to the exhaustive length) or 'sim' (seeded TLC simulation of longer programs).
    Returns (schedules, G stats)."""
    seed = vlib.seed()
    plan = TIERS[tier]
    gname = "sq-%s-%s-%s" % (fam, unit, mode)
    wd = os.path.join(workdir, gname)
    shutil.rmtree(wd, ignore_errors=True)
    os.makedirs(wd)
    inv = "InvWellFormed InvUniqueTags PrintSchedules"
    if mode == "exh":
        n = plan["exh"][fam]
        cfg = _write_cfg("G_sq_%s_%s_%d.cfg" % (fam, unit, n), _cfg_text(fam, unit, n, inv))
        g = vlib.generate("MC_SeqApi", cfg, os.path.join(wd, "g"))
    elif mode.startswith("shape:"):
        shape, n = mode[6:], int(mode[-1])
        cfg = _write_cfg("G_sq_%s_%s_%s.cfg" % (fam, unit, shape), _cfg_text(fam, unit, n, inv, shape))
        g = vlib.generate("MC_SeqApi", cfg, os.path.join(wd, "g"), timeout=1500)
    else:
        n = plan["sim_len"]
        cfg = _write_cfg("G_sq_%s_%s_%d.cfg" % (fam, unit, n), _cfg_text(fam, unit, n, inv))
        # TLC's simulator evaluates the invariants on ALL successors of every visited state, so each random walk prints the
        # whole fan-out of its last level: a few dozen walks give tens of thousands of distinct complete programs
        g = vlib.run_tlc("MC_SeqApi", cfg, os.path.join(wd, "g"), workers=2, timeout=900, heap="3g",
                         simulate="num=%d" % plan["sim_walks"], extra=["-depth", str(n + 2), "-seed", str(_h(seed, gname) % (1 << 31))])
        if g["error"] and not g["replay"]:
            raise vlib.ToolError("G simulate %s failed: %s\n%s" % (gname, g["error"], g.get("tail", "")))
    hists = g["replay"]
    seen, uniq = set(), []
    for h in hists:
        k = json.dumps(h, sort_keys=True)
        if k not in seen:
            seen.add(k)
            uniq.append(h)
    uniq.sort(key=lambda h: json.dumps(h, sort_keys=True))
    if mode == "sim" and len(uniq) > plan["sim_n"]:
        uniq = random.Random(_h(seed, gname, "sample")).sample(uniq, plan["sim_n"])
    if mode.startswith("shape:") and len(uniq) > plan["shape_n"]:
        uniq = random.Random(_h(seed, gname, "sample")).sample(uniq, plan["shape_n"])
    scheds = [to_schedule(h, "%s-%06d" % (gname, i), unit, random.Random(_h(seed, gname, i))) for i, h in enumerate(uniq)]
    shutil.rmtree(wd, ignore_errors=True)
    return scheds, {"group": gname, "distinct": g["distinct"], "generated": g["generated"], "depth": g["depth"], "wall": g["wall"],
                    "replay": len(hists), "used": len(scheds), "exhaustive": mode == "exh"}


def run_all(tier, workdir):
    """design checks + G for every family/unit, then ONE X run and ONE V run over all programs. Cached by tree hash."""
    seed = vlib.seed()
    cdir = os.path.join(vlib.WORK, "cache")
    os.makedirs(cdir, exist_ok=True)
    cpath = os.path.join(cdir, "%s-seqapi-all-%s-%d.json" % (vlib.tree_hash(), tier, seed))
    if os.path.exists(cpath):
        with open(cpath) as f:
            r = json.load(f)
        r["cached"] = True
        return r
    plan = TIERS[tier]
    t0 = time.time()
    designs, gstats, scheds = [], [], []
    for fam in FAMILIES:
        for unit in (UNITS if fam == "text" or tier == "thorough" else ["utf16"]):
            cfg = _write_cfg("D_sq_%s_%s_%d.cfg" % (fam, unit, plan["design"]), _cfg_text(fam, unit, plan["design"], "InvWellFormed InvUniqueTags"))
            d = vlib.design_check("MC_SeqApi", cfg, os.path.join(workdir, "d-%s-%s" % (fam, unit)), timeout=900)
            designs.append({"config": cfg, "distinct": d["distinct"], "generated": d["generated"], "depth": d["depth"], "wall": d["wall"],
                            "coverage": d["coverage"]})
            shapes = {"text": ("shape:ShapeFmt4",) + (("shape:ShapeFmt5",) if tier == "thorough" else ()),
                      "xml": ("shape:ShapeXml4",) + (("shape:ShapeXml5",) if tier == "thorough" else ())}.get(fam, ())
            for mode in ("exh", "sim") + shapes:
                sc, st = gen_family(fam, unit, tier, workdir, mode)
                scheds += sc
                gstats.append(st)
    wd = os.path.join(workdir, "xv")
    shutil.rmtree(wd, ignore_errors=True)
    os.makedirs(wd)
    sfile, tfile = os.path.join(wd, "schedules.ndjson"), os.path.join(wd, "trace.ndjson")
    with open(sfile, "w") as f:
        for s in scheds:
            f.write(json.dumps(s) + "\n")
    rc, out = vlib.sh([BIN(), "--in", sfile, "--out", tfile], timeout=1800)
    if rc != 0:
        raise vlib.ToolError("yx_seqapi failed (rc %d): %s" % (rc, out[-1500:]))
    tv = time.time()
    merged = vlib.validate("Trace_SeqApi", "Trace_SeqApi.cfg", tfile, os.path.join(wd, "v"), parallel=8)
    by_bid = {s["bid"]: s for s in scheds}
    bad = {}
    for b, pred, line in merged["viol"]:
        bad.setdefault(b, []).append([pred, line])
    res = {"group": "seqapi-all", "engine": "seqapi", "designs": designs, "gstats": gstats,
           "merged": merged, "v_wall": time.time() - tv, "wall": time.time() - t0,
           "bad": {b: {"preds": p, "schedule": by_bid.get(b)} for b, p in bad.items()},
           "nontrivial": [hashlib.sha256(json.dumps(s["calls"], sort_keys=True).encode()).hexdigest()[:16] for s in scheds if len(s["calls"]) > 1],
           "samples": [scheds[i] for i in (len(scheds) // 7, len(scheds) // 2, (len(scheds) * 6) // 7) if scheds], "cached": False}
    with open(cpath, "w") as f:
        json.dump(res, f)
    if not bad:
        for p in (sfile, tfile):
            try:
                os.remove(p)
            except OSError:
                pass
    return res


def check(prop, tier):
    ev = vlib.Evidence(prop, tier)
    bt = vlib.build_harness("yx_seqapi")
    wd = os.path.join(vlib.WORK, "run-%s" % prop)
    plan = TIERS[tier]
    r = run_all(tier, wd)
    for d in r["designs"]:
        ev.add_tlc(d["config"], d, "design")
    for g in r["gstats"]:
        ev.add_tlc(g["group"], {"distinct": g["distinct"], "generated": g["generated"], "depth": g["depth"], "wall": g["wall"],
                                "replay": [0] * g["replay"]}, "G")
    ev.add_v("seqapi-all", r["merged"], r["nontrivial"], r["v_wall"])
    for s in r["samples"]:
        ev.sample(s)
    ev.cov["rule"] = ("programs = sequences of valid public API calls on one replica enumerated by TLC from MC_SeqApi (all programs up to the "
                      "exhaustive length per type family and offset unit; seeded TLC simulation for longer ones), every call at every valid "
                      "position on every character boundary; executed on a real Doc with seeded commit grouping and gc setting; after every "
                      "call every read accessor of every reachable shared type is validated by TLC against the abstract value; "
                      "distinct = distinct call sequences; non-trivial = more than one call")
    ev.cov["exhaustive"] = False
    ev.cov["exhaustive_part"] = "all programs of length <= %s (text/array/map/xml) over the model's alphabet" % json.dumps(plan["exh"])
    ev.cov["harness_build_s"] = round(bt, 1)
    ev.assumptions = ["TLC, CommunityModules", "harness adapter seqapi.rs (one API call per abstract call; accessor dump through the public API only)"]
    results = [r]
    # rich text under replication (spec/Rich.tla, yata engine): C17_DiffRender (diff chunks with attributes = Render of the
    # recorded structure on every replica after every step), C17_PubAgrees, and C03_RichSequential (format / insert / delete
    # on the rendered attributes in replicated states: tombstones and concurrent marks around the edited range)
    import yata_pipe
    vlib.build_harness("yx")
    rr = yata_pipe.run_all(tier, wd, kind="rich")
    results.append(rr)
    yata_pipe.add_rich_evidence(ev, rr)
    rc = vlib.report(prop, ev, results, PREFIXES[prop])
    ev.write()
    return rc


ENGINE_TEXT = "TLA+ sequential model of every public call (SeqApi) + TLC-enumerated programs executed on yrs + TLC validation of every read accessor"


def manifest_entries():
    note = ("Trusted: TLC; harness adapter seqapi.rs. Sequential model covers Text/XmlText (insert, insert_with_attributes, insert_embed, "
            "format, remove_range, push), Array, Map (incl. try_update, get_or_init, clear), XML fragments/elements/text (children, attributes); "
            "alphabet of four character classes (1-4 UTF-8 bytes, 1-2 UTF-16 units), both offset kinds, commit grouping and gc seeded. "
            "apply_delta and the rendered XML string are not yet modelled.")
    tech = "TLA+ spec (SeqApi/MC_SeqApi) enumerated by TLC; programs replayed on real yrs; accessor dumps validated by TLC against Trace_SeqApi"
    out = []
    for pid, text in (("C03", "Every TLC-enumerated program of public calls is executed on a real Doc; TLC recomputes the abstract value with the "
                       "sequential model after every call and requires the content read back (inside the transaction and after commit) to be exactly that value."),
                      ("C17", "After every call of every program all read accessors of every reachable type (len, get(i) incl. out of range, iteration, "
                       "to_json, get_string, diff, keys/values/contains_key/get, children/first_child/siblings/parent/successors) are compared by TLC "
                       "with the projections of one value read from the primary accessor.")):
        out.append({"property_id": pid, "quick_cmd": "./check %s --tier quick" % pid, "thorough_cmd": "./check %s --tier thorough" % pid,
                    "evidence_file": "evidence/%s.json" % pid, "replay_cmd_template": "./check replay {path}", "engine": "seqapi",
                    "level_claimed": {"category": "model_checking", "text": text, "design_ref": "DESIGN.md section 6/" + pid},
                    "level_note": note, "technique": tech})
    return out
