#!/usr/bin/env python3
"""Writes MANIFEST.json from the table below (single place to keep it valid)."""
import json, os
V = os.path.dirname(os.path.dirname(os.path.abspath(__file__)))
HOOK_COMMITS = ["7ec0283", "1b6c537"]
YATA_NOTE = ("Trusted: TLC + CommunityModules; harness adapters and observation functions (harness/src/obs.rs, codec.rs: "
             "independent lib0-v1 decoder); hook H1 (yrs::verif, read-only store dump), hook H3 (transaction trace sink for the repository test-suite stage). Small scope: exhaustive only within the G/D "
             "configuration bounds (2 authors, 3-4 operations, all delivery orders), beyond that seeded random schedules.")
def yata(pid, text, tech):
    return {"property_id": pid, "quick_cmd": "./check %s --tier quick" % pid, "thorough_cmd": "./check %s --tier thorough" % pid,
            "evidence_file": "evidence/%s.json" % pid, "replay_cmd_template": "./check replay {path}", "engine": "yata",
            "level_claimed": {"category": "model_checking", "text": text, "design_ref": "DESIGN.md section 6/" + pid},
            "level_note": YATA_NOTE, "technique": tech}
TECH = "TLA+ spec (Yata/MC_Yata) model-checked with TLC; TLC-generated schedules replayed on real yrs; recorded traces validated by TLC against Trace_Yata"
checks = [
 yata("C01", "TLC checks convergence/order-independence of the YATA transcription in every state of the design models; every TLC-enumerated history x delivery order (plus seeded random schedules) is executed on real Docs and the recorded structural+public state of every replica is validated by TLC (C01_Converge, C01_DepClosed, C01_NoFailure, placement conformance as drift).", TECH),
 yata("C02", "Stash predicates (NothingLost, PendingIffMissing, FlagExact, DeletionsApplied, StateCarriesStash) evaluated by TLC on every recorded state of every replica for all enumerated out-of-order schedules; design model checks the same predicates on the specification's algorithm.", TECH),
 yata("C04", "Once/Placed/Between/Stable/NoResurrect/PairOrder/FreshIds evaluated by TLC in every intermediate recorded state of every replica (tombstones included via hook H1) and in every state of the design models.", TECH),
 yata("C05", "Tombstone set of every replica must equal ExpectedDead (delivered removals + overridden/non-right-most map entries + subtrees of dead types) in every recorded state; map winners compared across replicas by C01_Converge; public map reads bound to the lists by C17_PubAgrees.", TECH),
 yata("C06", "Every sync step (encode_diff / encode_state_as_update against the receiver's or the empty state vector, v1/v2) is a trace action with Dominates/Reflects/Complete/Monotone/SenderUnchanged and state-vector exactness evaluated by TLC.", TECH),
 yata("C07", "Every replica has two real follower Docs fed by observe_update_v1/v2; TLC compares follower and leader state after every transaction (FollowerEqual) and checks EmitIffChanged.", TECH),
 yata("C08", "merge_updates (every argument order and nesting shape), diff_updates and encode_state_vector_from_update are trace actions: TLC compares the decoded result with the abstract meaning (union of the merged updates; units at or above the state vector plus all deletions; contiguous prefix) and validates the effect of applying it (C08_MergeExact, C08_DiffExact, C08_SvEq + all C01/C02 predicates on the receiving replica).", TECH),
 yata("C15", "Replicas with GC on and off receive the same histories; convergence is evaluated modulo collected units, collected units must be tombstones (OnlyDeadCollected) and a GC-off replica collects nothing (GcOffKeepsAll); forced GC steps in random schedules.", TECH),
]
# plugin modules (tools/*_pipe.py) may contribute their own entries
import glob, importlib, sys
sys.path.insert(0, os.path.join(V, "tools"))
# plugins reviewed and accepted (others may exist on disk while they are being built)
ACCEPTED = ["seqapi_pipe", "wire_pipe", "c18_pipe", "snapshot_pipe", "sticky_pipe", "ffi_pipe", "idsets_pipe", "quote_pipe", "undo_pipe", "events_pipe"]
engines_extra = []
for f in sorted(glob.glob(os.path.join(V, "tools", "*_pipe.py"))):
    name = os.path.basename(f)[:-3]
    if name == "yata_pipe" or name not in ACCEPTED:
        continue
    m_ = importlib.import_module(name)
    if hasattr(m_, "manifest_entries"):
        ents = m_.manifest_entries()
        checks += ents
        engines_extra.append({"name": name[:-5], "path": "tools/%s.py" % name, "serves_properties": sorted({e["property_id"] for e in ents}),
                              "kind_free_text": getattr(m_, "ENGINE_TEXT", "TLA+/TLC design check + schedule replay on yrs + TLC trace validation")})
claimed = {c["property_id"] for c in checks}
NA = {
 "C10": "decoder totality on arbitrary bytes (no panic/abort/stack overflow/unbounded allocation) is not a property of an abstract state machine; a TLA+ model could only act as a byte generator, i.e. fuzzing - outside model-based verification (DESIGN.md section 7)",
}
PENDING = "check not built yet in this session (planned: DESIGN.md section 6); not claimed until it exists and has detected a seeded mutant"
props = [json.loads(l)["id"] for l in open(os.path.join(V, "properties.jsonl"))]
na = [{"property_id": p, "reason": NA.get(p, PENDING)} for p in props if p not in claimed]
m = {"version": 1,
     "setup_cmd": "./check setup",
     "hooks": {"guard": "cfg(y_crdt_y_crdt_verif)", "enable": "harness/.cargo/config.toml passes --cfg y_crdt_y_crdt_verif to rustc for the path dependency /repo/yrs",
               "baseline_off_cmd": "cd /repo && cargo test --workspace --no-fail-fast --offline",
               "source_commits": HOOK_COMMITS, "add_only": True},
     "engines": [{"name": "yata", "path": "spec/Yata.tla spec/MC_Yata.tla spec/Trace_Yata.tla harness/src/yata.rs tools/yata_pipe.py",
                  "serves_properties": sorted(c["property_id"] for c in checks if c.get("engine") == "yata"), "kind_free_text": "TLA+/TLC design check + TLC-generated schedules executed on yrs + TLC trace validation"}] + engines_extra,
     "checks": checks,
     "not_applicable": na,
     "notes": "Verdict policy, DRIFT vs VIOLATION, known findings: DESIGN.md section 5. known_findings.json lists fixed defects (fix: commits in /repo)."}
json.dump(m, open(os.path.join(V, "MANIFEST.json"), "w"), indent=1)
print("claimed", sorted(claimed), "na", len(na))
