#!/bin/bash
# Runs several quick checks against a PROPERTY-PRESERVING change of /repo (scratch copy) and lists every alarm (each is a false
# alarm to be explained or corrected):  tools/benign_run.sh <patch.diff> <out.log> C01 C02 ...
P=$1; OUT=$2; shift 2
SCR=$(mktemp /tmp/benign-XXXXXX.sh)
cat > $SCR <<EOS
for p in $*; do echo "== \$p"; ./check \$p --tier quick 2>&1 | grep -E "^(VIOLATION|KNOWN-FINDING|DRIFT|check finished|TOOL)" | cut -c1-260; done
EOS
MUTANT_CMD="bash $SCR" /verif/tools/mutant_run.sh "$P" -- > "$OUT" 2>&1
rm -f $SCR
grep -E "^== |^VIOLATION|check finished|TOOL" "$OUT" | cut -c1-200
