"""C14 -- sticky indexes. G -> X -> V on top of the Yata family (spec/Sticky.tla, spec/Trace_Sticky.tla,
harness/src/ext/sticky.rs), design model spec/MC_Sticky.tla."""
import copy
import json
import os
import random
import shutil
import time

import vlib
import yata_pipe

PROPS = ["C14"]
ENGINE = "sticky"
ENGINE_TEXT = ("TLA+/TLC design model (MC_Sticky) + TLC-generated Yata histories extended with sticky-index creation/resolution, "
               "executed on yrs (harness ext/sticky.rs) + TLC trace validation (Trace_Sticky)")
TRACE = ("Trace_Sticky", "Trace_Sticky.cfg")
# ./check replay <file>: (harness binary, args builder, trace module, cfg)
REPLAY = ("yx", lambda s, t: ["yata-run", "--in", s, "--out", t, "--seed", str(vlib.seed())], TRACE[0], TRACE[1])
# MC_StickyWide: texts with surrogate pairs (two elements per character), anchors on either element of a pair
DESIGN = {"quick": [("MC_Sticky", "D_sticky.cfg"), ("MC_StickyWide", "D_sticky_wide2.cfg")],
          "thorough": [("MC_Sticky", "D_sticky.cfg"), ("MC_Sticky", "D_sticky_nest.cfg"), ("MC_StickyWide", "D_sticky_wide2.cfg"),
                       ("MC_StickyWide", "D_sticky_wide3.cfg")]}
# generator groups of MC_Yata whose histories are extended
# (group, n: the flat text history idx is also replayed on the root array "a" when idx % n == 0 and on the XML fragment "x"
#  (child list of elements / XML texts) when idx % n == 1 (0 = text only), cap on the number of histories (seeded sample))
GROUPS = {"quick": [("seq3", 4, None), ("nesta3", 0, 1800)], "thorough": [("seq3", 2, None), ("nesta3", 0, 20000), ("seq4", 4, 20000)]}
# seeded random runs; every third one is "rich": XML trees / texts with embeds and formatting marks
NRANDOM = {"quick": 3, "thorough": 12}


def _acting(st):
    """replica whose state a step changes (None: document-free step)"""
    a = st["a"]
    if a in ("ins", "del", "set", "rem", "gcf", "dlv"):
        return st["r"]
    if a in ("sync", "relay"):
        return st["t"]
    return None


def _extend(s, suffix, reroot, seed, astral=False):
    """One executable C14 schedule from one Yata schedule (astral: cfg `wide` -- the executor mixes characters outside the
    BMP, i.e. surrogate pairs / 4-byte characters, into every text insertion; the widened insertion then always has 3
    characters so that a block holds both widths with something behind the pair):
    * at the very start each author creates indexes on the still empty root collection (gap 0, both
      associations, plus the container-scoped start / end pair);
    * after EVERY step of the author phase the acting author creates indexes at EVERY gap x both associations of
      the collection it just edited (after a sync: of the root collection it received), handles s<k>.*;
    * right after a creation every author resolves every live handle; after every later step the acting replica
      (the only one whose state changed) resolves every live handle -- so every handle is resolved on every
      replica in every state that follows its creation (observers are empty until the delivery phase and
      resolve once at the start);
    * one seeded insertion of primitive units inserts 2 or 3 units at once, so that anchors fall inside blocks."""
    s = copy.deepcopy(s)
    rnd = random.Random(yata_pipe._h(seed, s["bid"], suffix, "sticky"))
    s["bid"] += suffix
    s["cfg"]["ext"] = [ENGINE]
    if astral:
        s["cfg"]["wide"] = True
    steps = s["steps"]
    if reroot:
        for st in steps:
            if st.get("p") and st["p"][0] == "t":
                st["p"] = [reroot] + st["p"][1:]
                if reroot == "x" and st["a"] == "ins":
                    # children of the XML fragment: elements and XML texts (one list element each)
                    st["k"] = "E" if rnd.random() < 0.5 else "X"
    if reroot == "x":
        s["cfg"]["xml"] = True
    root = next((st["p"][0] for st in steps if st.get("p")), "t")
    reps = [r["id"] for r in s["cfg"]["replicas"]]
    nauth = next((i for i, st in enumerate(steps) if st["a"] == "dlv"), len(steps))
    authors = [r for r in reps if r < 8]
    # widening an insertion into a root array would shift the "#i" segments of later nested paths
    nested_later = max([j for j, x in enumerate(steps) if len(x.get("p", [])) > 1] + [-1])
    wide = [i for i, st in enumerate(steps[:nauth]) if st["a"] == "ins" and st.get("k", "u") == "u"
            and (len(st["p"]) > 1 or i >= nested_later)]
    if wide and reroot != "x" and (rnd.random() < 0.8 or astral):
        steps[rnd.choice(wide)]["n"] = 3 if astral else rnd.choice([2, 2, 3])
    out = []
    for a in authors:
        out.append({"a": "sticky", "r": a, "p": [root], "i": "all", "assoc": "both", "h": "e%d" % a})
    for q in reps:
        out.append({"a": "resolve", "r": q})
    for k, st in enumerate(steps):
        out.append(st)
        r = _acting(st)
        if r is None:
            continue
        if k < nauth and st["a"] in ("ins", "del", "sync"):
            path = st["p"] if st["a"] in ("ins", "del") else [root]
            out.append({"a": "sticky", "r": r, "p": path, "i": "all", "assoc": "both", "h": "s%d" % (k + 1)})
            # (the observers hold nothing before the delivery phase: their turn comes with their first delivery)
            # (the creator's resolution also records the state again: resolving must not change it)
            out.append({"a": "resolve", "r": r, "obs": True})
            for q in [x for x in authors if x != r]:
                out.append({"a": "resolve", "r": q})
        else:
            out.append({"a": "resolve", "r": r})
    s["steps"] = out
    return s


def make_transform(array_share, cap):
    def transform(scheds, seed, tier):
        out = []
        if cap and len(scheds) > cap:
            scheds = random.Random(yata_pipe._h(seed, "sticky-cap", len(scheds))).sample(scheds, cap)
        for idx, s in enumerate(scheds):
            # every third history (both offset kinds: they alternate with idx) runs with astral characters in its texts
            out.append(_extend(s, "", None, seed, astral=idx % 3 == 2))
            if array_share and idx % array_share == 0:
                # the same history on the root array "a" (values instead of characters)
                out.append(_extend(s, "-arr", "a", seed))
            if array_share and idx % array_share == 1:
                # the same history on the child list of the XML fragment "x"
                out.append(_extend(s, "-xml", "x", seed))
        return out
    return transform


def _design(module, cfg, wd):
    """design check, cached by tree hash like yata_pipe.run_design"""
    cpath = yata_pipe._cache_path(vlib.tree_hash(), "D", ENGINE, cfg[:-4])
    if os.path.exists(cpath):
        with open(cpath) as f:
            return json.load(f)
    r = vlib.design_check(module, cfg, os.path.join(wd, "design-" + cfg[:-4]))
    r = {k: r[k] for k in ("distinct", "generated", "depth", "wall", "coverage")}
    with open(cpath, "w") as f:
        json.dump(r, f)
    return r


def _random(ix, tier, workdir):
    """yata_pipe.run_random with the executor's --rich switch on every third run"""
    seed = vlib.seed()
    gname = "rand%03d" % ix
    cpath = yata_pipe._cache_path(vlib.tree_hash(), ENGINE, gname, tier, seed)
    if os.path.exists(cpath):
        with open(cpath) as f:
            r = json.load(f)
        r["cached"] = True
        return r
    wd = os.path.join(workdir, ENGINE + "-" + gname)
    shutil.rmtree(wd, ignore_errors=True)
    os.makedirs(wd)
    rand = ["--seed", str(yata_pipe._h(seed, ix, ENGINE) % (1 << 31)), "--behaviours", str(150 if tier == "quick" else 400),
            "--ops", str((12, 40, 30)[ix % 3]), "--ext", ENGINE, "--gc-off", "0", "--rich", "1" if ix % 3 == 2 else "0", "--wide", "3"]
    return yata_pipe._xv(gname, None, wd, cpath, None, time.time(), rand=rand, trace=TRACE, engine=ENGINE)


def check(prop, tier):
    ev = vlib.Evidence(prop, tier)
    bt = vlib.build_harness("yx")
    wd = os.path.join(vlib.WORK, "run-%s" % prop)
    for module, cfg in DESIGN[tier]:
        ev.add_tlc(cfg, _design(module, cfg, wd), "design")
    results = []
    for g, share, cap in GROUPS[tier]:
        r = yata_pipe.run_group(g, tier, wd, engine=ENGINE, transform=make_transform(share, cap), trace=TRACE)
        results.append(r)
        ev.add_tlc(yata_pipe.G_GROUPS[g][1], {"distinct": r["g"]["distinct"], "generated": r["g"]["generated"], "depth": r["g"]["depth"],
                                              "wall": r["g"]["wall"], "replay": [0] * r["g"]["replay"]}, "G")
        ev.add_v(ENGINE + "-" + g, r["merged"], r["nontrivial"], r["v_wall"])
        for s in r["samples"]:
            ev.sample(s)
    for i in range(NRANDOM[tier]):
        r = _random(i, tier, wd)
        results.append(r)
        ev.add_v(ENGINE + "-" + r["group"], r["merged"], r["nontrivial"], r["v_wall"])
    ev.cov["rule"] = ("behaviours = TLC-enumerated histories of MC_Yata (text / array edits by two authors with syncs, all delivery "
                      "orders to an observer; nested arrays sampled) in which sticky indexes are created through "
                      "IndexedSequence::sticky_index at every gap x both associations (plus the container-scoped start/end pair) "
                      "on the still empty collection and after every step of the author phase (texts, arrays, nested arrays, XML "
                      "child lists), passed through binary and JSON "
                      "serialization, and resolved with get_offset on every replica in every later state; offset kinds utf16 / "
                      "bytes alternate (3-byte characters; every third history and every third random behaviour mixes in characters "
                      "outside the BMP = surrogate pairs / 4 bytes, gaps = character boundaries), one insertion per history is multi-unit; plus seeded random "
                      "schedules (every third run with XML trees, XML texts, embeds and formatting marks); validated by TLC against Trace_Sticky (expected index computed from the replica's element "
                      "list incl. tombstones, hook H1)")
    ev.cov["harness_build_s"] = round(bt, 1)
    ev.assumptions = ["TLC, CommunityModules", "harness adapters and observation functions (ext/sticky.rs, obs.rs, codec.rs)",
                      "hook H1 (yrs::verif) reports the item lists faithfully",
                      "IndexedSequence::sticky_index(len, Assoc::After) answering None is accepted (reported as drift "
                      "'sticky-after-end-not-created')"]
    rc = vlib.report(prop, ev, results, ["C14_"])
    ev.write()
    return rc


def manifest_entries():
    return [{
        "property_id": "C14",
        "quick_cmd": "./check C14 --tier quick",
        "thorough_cmd": "./check C14 --tier thorough",
        "evidence_file": "evidence/C14.json",
        "replay_cmd_template": "./check replay {path}",
        "engine": "sticky",
        "level_claimed": {"category": "model_checking",
                          "text": "bounded: every gap x both associations x every creation point of the enumerated histories, "
                                  "resolved on every replica in every later state; real library executed, traces validated by TLC",
                          "design_ref": "DESIGN.md section 6/C14, 3.5"},
        "level_note": "text, array (root and nested) and XML containers (fragment / element child lists, XML text; texts with embeds and "
                      "formatting marks in the random runs); no undo manager in the schedules",
        "technique": "explicit TLA+ specification + TLC + conformance binding (G -> X -> V)",
    }]
