"""G -> X -> V pipeline for C13 (snapshots), an extension of the Yata family.

spec   spec/Snapshot.tla (meaning + predicates), spec/MC_Snapshot.tla (design model: a state map + delete set
       suffice to rebuild the view at Take after every continuation), spec/Trace_Snapshot.tla (V).
G      the TLC-enumerated histories of MC_Yata (groups seq3 / map3 / nesta3 / nestm3, thorough: seq4 / map4),
       reduced to their distinct author phases, with a `snap` after every author-phase step of the replica the
       step changed, a `restore` of earlier handles after every later step that changes the replica (sub-sampled)
       and a `restore` of every handle after the closing syncs; a sample of the full histories (every delivery order to
       the observer) with snapshots of the OBSERVER after every delivery (content beyond a gap: no failure; else exact);
       plus the cut-stress family built here (systematic product, see cut_family) and seeded random runs.
X      harness/src/ext/snapshot.rs inside `yx yata-run` / `yx yata-random`.
V      TLC on Trace_Snapshot.  Python never decides a verdict."""
import json
import os
import random
import shutil
import time

import vlib
import yata_pipe

ENGINE_TEXT = ("TLA+ spec Snapshot (extension of Yata) + TLC design model MC_Snapshot; TLC-enumerated histories with snapshots at "
               "every point and restores after every continuation executed on real yrs Docs; traces validated by TLC (Trace_Snapshot)")
PROPS = ["C13"]
PREFIXES = ["C13_"]
TRACE = ("Trace_Snapshot", "Trace_Snapshot.cfg")
ENGINE = "snapshot"
REPLAY = ("yx", lambda s, t: ["yata-run", "--in", s, "--out", t, "--seed", str(vlib.seed())], TRACE[0], TRACE[1])

D_GROUPS = {
    "d_snap_seq": ("MC_Snapshot", "D_snap_seq.cfg"),
    "d_snap_map": ("MC_Snapshot", "D_snap_map.cfg"),
    "d_snap_nesta1": ("MC_Snapshot", "D_snap_nesta1.cfg"),
    "d_snap_nestm1": ("MC_Snapshot", "D_snap_nestm1.cfg"),
    "d_snap_nesta2": ("MC_Snapshot", "D_snap_nesta2.cfg"),
    "d_snap_nestm2": ("MC_Snapshot", "D_snap_nestm2.cfg"),
    "d_snap_nest": ("MC_Snapshot", "D_snap_nest.cfg"),
}
TIERS = {
    "quick": {"design": ["d_snap_seq", "d_snap_map", "d_snap_nestm1"],
              "gen": {"seq3": None, "map3": None, "nestm3": 600},
              "obs": {"seq3": 400, "map3": 400},
              "random": [(0, True, 80, 14), (1, True, 50, 40), (2, False, 50, 20)]},
    "thorough": {"design": ["d_snap_seq", "d_snap_map", "d_snap_nesta1", "d_snap_nestm1", "d_snap_nesta2", "d_snap_nestm2", "d_snap_nest"],
                 "gen": {"seq3": None, "map3": None, "nesta3": 6000, "nestm3": 6000, "seq4": None, "map4": 8000},
                 "obs": {"seq3": 4000, "map3": 4000, "nesta3": 1500, "nestm3": 1500, "seq4": 4000},
                 "random": [(i, i % 5 != 4, 300, 14 if i % 2 == 0 else 40) for i in range(12)]},
}
AUTHORS = (1, 2)
MID_RESTORES = 2      # restores after a step: handles of the changed replica, the most recent one always, others sampled


def _author_phase(steps):
    out = []
    for s in steps:
        if s["a"] == "dlv":
            break
        out.append(s)
    return out


def _touched(st):
    return st["t"] if st["a"] in ("sync", "relay") else st["r"]


def make_transform(cap, nobs=0):
    def transform(scheds, seed, tier):
        seen, out = set(), []
        for s in scheds:
            ap = _author_phase(s["steps"])
            key = json.dumps(ap, sort_keys=True)
            if key in seen:
                continue
            seen.add(key)
            out.append((s["bid"], ap))
        if cap and len(out) > cap:
            out = random.Random(yata_pipe._h(seed, "snapshot-cap", cap)).sample(out, cap)
            out.sort()
        res = [weave(bid, ap, seed, ix) for ix, (bid, ap) in enumerate(out)]
        for ix, x in enumerate(res):
            if ix % 3 == 2:
                # every third history: texts mix in characters outside the BMP (surrogate pairs; cfg `wide` of the executor), so
                # that a snapshot cuts blocks holding characters of both widths
                x["cfg"]["wide"] = True
        # observer family: the full histories (every delivery order to observer 8), snapshots of the OBSERVER
        nt = [s for s in scheds if _out_of_order(_hist(s["steps"]))] if nobs else []
        if len(nt) > nobs:
            nt = random.Random(yata_pipe._h(seed, "snapshot-obs", nobs)).sample(nt, nobs)
            nt.sort(key=lambda s: s["bid"])
        return res + [weave_obs(s["bid"] + "-o", _hist(s["steps"]), ix) for ix, s in enumerate(nt)]
    return transform


def _out_of_order(hist):
    order = [u for st in hist if st["a"] == "dlv" for u in st["u"]]
    return order != sorted(order)


def _hist(steps):
    """the TLC history inside a schedule of yata_pipe.make_schedules (author phase + deliveries to observer 8)"""
    out = []
    for s in steps:
        if s["a"] == "svu" or (s["a"] == "dlv" and s["r"] != 8) or s.get("closing"):
            break
        out.append(s)
    return out


def weave_obs(bid, hist, ix):
    """snapshots of a replica that receives the updates in an arbitrary order: while it holds content beyond a gap a
    state map cannot describe it (only no-failure is demanded), once the gaps are filled the restore must be exact."""
    steps, handles, k = [], [], 0
    for st in hist:
        steps.append(st)
        if st["a"] != "dlv":
            continue
        if handles:
            k += 1
            steps.append({"a": "restore", "r": 8, "h": handles[-1], "enc": "v1" if k % 2 else "v2"})
        name = "o%d" % (len(handles) + 1)
        steps.append({"a": "snap", "r": 8, "h": name, "via": ("v2", "none", "v1")[len(handles) % 3]})
        handles.append(name)
    for h in handles:
        k += 1
        steps.append({"a": "restore", "r": 8, "h": h, "enc": "v1" if k % 2 else "v2"})
    reps = [{"id": a, "gc": False} for a in AUTHORS] + [{"id": 8, "gc": False}]
    cfg = {"replicas": reps, "followers": False, "offset": "utf16" if ix % 2 == 0 else "bytes", "ext": ["snapshot"]}
    return {"bid": bid, "cfg": cfg, "steps": steps}


def weave(bid, ap, seed, ix):
    """author phase + snapshots at every point + restores after every continuation."""
    rnd = random.Random(yata_pipe._h(seed, bid, "snapshot"))
    # one behaviour in eight keeps the collector on for one author: every restore there must be refused
    gc_on = rnd.choice(AUTHORS) if ix % 8 == 7 else None
    steps, handles, k = [], [], 0      # handles: (name, replica)
    nupd = 0
    for st in ap:
        steps.append(st)
        if st["a"] in ("ins", "del", "set", "rem"):
            nupd += 1
        r = _touched(st)
        mine = [h for h in handles if h[1] == r]
        if mine:
            picks = [mine[-1]] + rnd.sample(mine[:-1], min(len(mine) - 1, MID_RESTORES - 1))
            for h in picks:
                k += 1
                steps.append({"a": "restore", "r": r, "h": h[0], "enc": "v1" if k % 2 else "v2"})
        name = "s%d" % (len(handles) + 1)
        steps.append({"a": "snap", "r": r, "h": name, "via": ("none", "v1", "v2")[len(handles) % 3]})
        handles.append((name, r))
    for i in range(1, nupd + 1):
        steps.append({"a": "dlv", "r": 8, "u": [i], "enc": "v1" if i % 2 else "v2", "shape": "flat", "diff": False})
    for j, a in enumerate(AUTHORS):
        steps.append({"a": "sync", "f": 8, "t": a, "how": "diff" if (ix + j) % 2 == 0 else "state", "sv": "own", "closing": True})
    for h in handles:
        k += 1
        steps.append({"a": "restore", "r": h[1], "h": h[0], "enc": "v1" if k % 2 else "v2"})
    reps = [{"id": a, "gc": a == gc_on} for a in AUTHORS] + [{"id": 8, "gc": True}]
    cfg = {"replicas": reps, "followers": False, "offset": "utf16" if ix % 2 == 0 else "bytes", "ext": ["snapshot"]}
    return {"bid": bid, "cfg": cfg, "steps": steps}


# ------------------------------------------------------------------------------------------------
# cut-stress family: squashing creates blocks the snapshot cut falls inside

CONTS = ("none", "del_first", "del_before_cut", "del_at_cut", "del_all", "split_before", "ins_at_cut", "append", "other_at_cut")
PRES = (("none", "same"), ("tail", "same"), ("tail", "other"), ("head", "same"), ("head", "other"), ("both", "same"), ("both", "other"))


def cut_family():
    """Systematic product (no sampling):
       container (text | array) x main author (1 | 2: decides the tie-break against the other author's content)
       x content present before (none | tail = right origin | head = origin | both = insertion splits an existing block;
         typed by the same or by the other author)
       x n1 = 1..3 units typed (one transaction) -> snapshot s1 -> n2 = 1..2 units typed directly after, so that the
         block is squashed across the cut (n1 = 1: cut after exactly one unit) -> snapshot s2 (cut at a block end)
       x continuation (nothing | delete the first unit | the unit before the cut | the unit after the cut | everything typed |
         insert inside the block before the cut | at the cut | append after the block | the other author inserts at the cut)
         -> snapshot s3.
       The other author mirrors the main author (sync after every step, snapshots o1..o3): there the same blocks arrive
       remotely and are squashed on integration.  Every handle is restored in v1 and v2 at the end, s1 / o1 also mid-way."""
    out = []
    for cont in ("t", "a"):
        for main in AUTHORS:
            other = 3 - main
            for pre, pre_by in PRES:
                for n1 in (1, 2, 3):
                    for n2 in (1, 2):
                        for c3 in CONTS:
                            if c3 == "split_before" and n1 < 2:
                                continue
                            steps = []
                            p = [cont]

                            def ins(r, i, n):
                                return {"a": "ins", "r": r, "p": p, "i": i, "n": n, "k": "u"}

                            def dele(r, i, n):
                                return {"a": "del", "r": r, "p": p, "i": i, "n": n}

                            def sync(f, t):
                                return {"a": "sync", "f": f, "t": t, "how": "state", "sv": "own", "enc": "v1" if len(steps) % 2 else "v2"}

                            if pre != "none":
                                pa = main if pre_by == "same" else other
                                steps.append(ins(pa, 0, 2 if pre == "both" else 1))
                                steps.append(sync(pa, 3 - pa))
                            at = 0 if pre in ("none", "tail") else 1
                            steps.append(ins(main, at, n1))
                            steps.append({"a": "snap", "r": main, "h": "s1", "via": "v1"})
                            steps.append(sync(main, other))
                            steps.append({"a": "snap", "r": other, "h": "o1", "via": "v2"})
                            steps.append(ins(main, at + n1, n2))
                            steps.append({"a": "restore", "r": main, "h": "s1", "enc": "v1"})
                            steps.append({"a": "snap", "r": main, "h": "s2", "via": "none"})
                            steps.append(sync(main, other))
                            steps.append({"a": "restore", "r": other, "h": "o1", "enc": "v2"})
                            steps.append({"a": "snap", "r": other, "h": "o2", "via": "v1"})
                            if c3 == "del_first":
                                steps.append(dele(main, at, 1))
                            elif c3 == "del_before_cut":
                                steps.append(dele(main, at + n1 - 1, 1))
                            elif c3 == "del_at_cut":
                                steps.append(dele(main, at + n1, 1))
                            elif c3 == "del_all":
                                steps.append(dele(main, at, n1 + n2))
                            elif c3 == "split_before":
                                steps.append(ins(main, at + 1, 1))
                            elif c3 == "ins_at_cut":
                                steps.append(ins(main, at + n1, 1))
                            elif c3 == "append":
                                steps.append(ins(main, at + n1 + n2, 1))
                            elif c3 == "other_at_cut":
                                steps.append(ins(other, at + n1, 1))
                                steps.append(sync(other, main))
                            if c3 != "none":
                                steps.append({"a": "snap", "r": main, "h": "s3", "via": "v2"})
                                steps.append(sync(main, other))
                                steps.append({"a": "snap", "r": other, "h": "o3", "via": "none"})
                            for h, r in (("s1", main), ("s2", main), ("o1", other), ("o2", other)) + ((("s3", main), ("o3", other)) if c3 != "none" else ()):
                                steps.append({"a": "restore", "r": r, "h": h, "enc": "v1"})
                                steps.append({"a": "restore", "r": r, "h": h, "enc": "v2"})
                            bid = "cut-%s-m%d-%s_%s-%d-%d-%s" % (cont, main, pre, pre_by, n1, n2, c3)
                            cfg = {"replicas": [{"id": 1, "gc": False}, {"id": 2, "gc": False}], "followers": False,
                                   "offset": "utf16" if len(out) % 2 == 0 else "bytes", "ext": ["snapshot"]}
                            out.append({"bid": bid, "cfg": cfg, "steps": steps})
    return out


def run_cut(tier, workdir):
    seed = vlib.seed()
    cpath = yata_pipe._cache_path(vlib.tree_hash(), ENGINE, "cut", tier, seed)
    if os.path.exists(cpath):
        with open(cpath) as f:
            r = json.load(f)
        r["cached"] = True
        return r
    wd = os.path.join(workdir, ENGINE + "-cut")
    shutil.rmtree(wd, ignore_errors=True)
    os.makedirs(wd)
    return yata_pipe._xv("cut", cut_family(), wd, cpath, None, time.time(), trace=TRACE, engine=ENGINE, repeat=1)


def run_design(dname, workdir):
    cpath = yata_pipe._cache_path(vlib.tree_hash(), "D", dname)
    if os.path.exists(cpath):
        with open(cpath) as f:
            r = json.load(f)
        r["cached"] = True
        return r
    module, cfg = D_GROUPS[dname]
    r = vlib.design_check(module, cfg, os.path.join(workdir, dname))
    need = {"TakeSnap"}
    if not need <= set(k for k, v in r["coverage"].items() if v > 0):
        raise vlib.ToolError("design model %s: action TakeSnap never fired (vacuous)" % cfg)
    r = {k: r[k] for k in ("distinct", "generated", "depth", "wall", "coverage")}
    r["cached"] = False
    with open(cpath, "w") as f:
        json.dump(r, f)
    return r


def check(prop, tier):
    ev = vlib.Evidence(prop, tier)
    bt = vlib.build_harness("yx")
    wd = os.path.join(vlib.WORK, "run-%s" % prop)
    plan = TIERS[tier]
    for d in plan["design"]:
        r = run_design(d, wd)
        ev.add_tlc(D_GROUPS[d][1], r, "design")
    results = []
    for g, cap in plan["gen"].items():
        r = yata_pipe.run_group(g, tier, wd, engine=ENGINE, transform=make_transform(cap, plan["obs"].get(g, 0)), trace=TRACE)
        results.append(r)
        ev.add_tlc(yata_pipe.G_GROUPS[g][1], {"distinct": r["g"]["distinct"], "generated": r["g"]["generated"],
                                              "depth": r["g"]["depth"], "wall": r["g"]["wall"], "replay": [0] * r["g"]["replay"]}, "G")
        ev.add_v(g, r["merged"], r["nontrivial"], r["v_wall"])
        for s in r["samples"][:1]:
            ev.sample(s)
    r = run_cut(tier, wd)
    results.append(r)
    ev.add_v("cut", r["merged"], r["nontrivial"], r["v_wall"])
    for s in r["samples"][:1]:
        ev.sample(s)
    for ix, gc_off, nb, ops in plan["random"]:
        r = yata_pipe.run_random(ix, tier, wd, engine=ENGINE, ext=["snapshot"], gc_off=gc_off, trace=TRACE, behaviours=nb, ops=ops, wide=3)
        results.append(r)
        ev.add_v(r["group"], r["merged"], r["nontrivial"], r["v_wall"])
    ev.cov["rule"] = ("behaviours = distinct author phases of the TLC-enumerated histories (2 authors, <= 3 operations, thorough: 4; text / "
                      "map / nested values, syncs between the authors) with a snapshot after EVERY step on the replica that step changed, "
                      "a restore of the most recent and of sampled earlier handles after every later step that changes the replica, and a "
                      "restore of every handle after everything was exchanged (v1/v2 alternating; every 8th behaviour has the collector on "
                      "for one author and must be refused) + the cut-stress product (tools/snapshot_pipe.py cut_family: exhaustive over its "
                      "parameters, both encodings, remote mirror) + seeded random runs; each restore = real encode_state_from_snapshot on the "
                      "CURRENT document -> independent decoder -> fresh Doc -> public view compared by TLC with the spec's view at Take")
    ev.cov["exhaustive"] = False
    ev.cov["harness_build_s"] = round(bt, 1)
    ev.assumptions = ["TLC, CommunityModules", "harness adapters and observation functions (obs.rs, codec.rs, ext/snapshot.rs)",
                      "hook H1 (yrs::verif) reports the item lists faithfully",
                      "scope: text, array, map, nested array/map values; no formatting attributes / embeds / XML (the Yata executor has no such steps)",
                      "snapshots of replicas that hold units beyond a gap are not representable as state map + delete set: only "
                      "no-failure is demanded for them (C13_RestoreExact is evaluated for representable snapshots only)"]
    rc = vlib.report(prop, ev, results, PREFIXES)
    ev.write()
    return rc


def manifest_entries():
    return [{
        "property_id": "C13", "quick_cmd": "./check C13 --tier quick", "thorough_cmd": "./check C13 --tier thorough",
        "evidence_file": "evidence/C13.json", "replay_cmd_template": "./check replay {path}", "engine": "snapshot",
        "level_claimed": {"category": "model_checking",
                          "text": ("Snapshot.tla defines a snapshot (state map + deletions seen), the view at Take and the abstract restore; TLC "
                                   "proves on the design model MC_Snapshot that units below the snapshot clocks + the snapshot's deletions rebuild "
                                   "the view at Take after every continuation (2 authors, 3 operations, text/map/nested). Every TLC-enumerated "
                                   "author history gets a snapshot at every point and restores after every continuation; the cut-stress product "
                                   "forces squashed blocks across the cut; each is executed on real Docs (encode_state_from_snapshot v1/v2 -> fresh "
                                   "Doc) and TLC validates C13_SnapshotExact, C13_RoundTrip, C13_RestoreExact, C13_RefusedOnGc, C13_NoFailure, "
                                   "C13_SourceUntouched on the recorded traces."),
                          "design_ref": "DESIGN.md section 6/C13"},
        "level_note": ("Trusted: TLC + CommunityModules; harness adapters (yata.rs, ext/snapshot.rs), observation functions and the independent "
                       "v1 decoder; hook H1. Small scope: exhaustive only within the G configuration bounds and the parameters of the cut-stress "
                       "product; beyond that seeded random schedules. Not covered: formatting attributes, embeds, XML types, snapshot-relative "
                       "rendering (Text::diff_range / split_by_snapshot)."),
        "technique": "TLA+ spec (Snapshot/MC_Snapshot over Yata) model-checked with TLC; TLC-generated schedules replayed on real yrs; recorded traces validated by TLC against Trace_Snapshot",
    }]
