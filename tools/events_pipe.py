"""C11 -- change events are exact edit scripts.  G -> X -> V on top of the Yata family:
TLC-enumerated histories (yata_pipe groups) are executed with the `events` extension of the executor
(shallow + deep observers with shadow copies on every replica, harness/src/ext/events.rs) and the recorded
traces are validated by TLC against spec/Trace_Events.tla (predicates of spec/Events.tla)."""
import hashlib
import json
import os
import random
import shutil
import time

import vlib
import yata_pipe

PROPS = ["C11"]
PREFIXES = ["C11_"]
ENGINE_TEXT = ("TLA+ spec Events.tla over the Yata core; TLC-enumerated histories (+ multi-operation transactions) executed on yrs with "
               "shallow/deep observers and script-only shadow copies; traces validated by TLC against Trace_Events")
TRACE = ("Trace_Events", "Trace_Events.cfg")
# ./check replay: (harness binary, argument builder, trace module, cfg)
REPLAY = ("yx", lambda s, t: ["yata-run", "--in", s, "--out", t, "--seed", str(vlib.seed())], "Trace_Events", "Trace_Events.cfg")
# own generator group: ONE author, three operations over array "a" + map key "k1" with nested values; the observer receives
# every permutation, so a nested type is integrated beyond a gap and edited while the gap persists
yata_pipe.G_GROUPS.setdefault("evnest3", ("MC_Yata", "G_ev_nest1.cfg", {}))
yata_pipe.G_GROUPS.setdefault("evnest4", ("MC_Yata", "G_ev_nest1_4.cfg", {"filter": "nested", "sample": {"quick": 3000, "thorough": 30000}}))
TIERS = {
    "quick": {"gen": ["seq3", "map3", "nesta3", "nestm3", "alg3", "algm3", "evnest3"], "random": 2, "base_cap": 1400, "multi_cap": 500,
              "design": ["D_events_seq.cfg", "D_events_map.cfg"]},
    "thorough": {"gen": ["seq3", "map3", "nesta3", "nestm3", "alg3", "algm3", "evnest3", "evnest4", "seq4", "map4"], "random": 16,
                 "base_cap": 8000, "multi_cap": 3000, "design": ["D_events_seq.cfg", "D_events_map.cfg", "D_events_nest.cfg"]},
}
LOCAL = ("ins", "del", "set", "rem")


def _renumber(us, i):
    """update numbers after merging local operations i and i+1 (1-based) into one transaction"""
    out = []
    for u in us:
        v = u if u <= i else u - 1
        if v not in out:
            out.append(v)
    return out


def multi_variants(s):
    """every way of replacing two consecutive local operations of one author by ONE transaction"""
    steps = s["steps"]
    out = []
    nloc = 0
    for j in range(len(steps) - 1):
        a, b = steps[j], steps[j + 1]
        if a["a"] in LOCAL:
            nloc += 1
        if a["a"] in LOCAL and b["a"] in LOCAL and a["r"] == b["r"]:
            i = nloc  # number of the first merged update
            ns = steps[:j] + [{"a": "multi", "r": a["r"], "ops": [a, b]}]
            for st in steps[j + 2:]:
                if st["a"] in ("dlv", "svu"):
                    st = dict(st, u=_renumber(st["u"], i))
                ns.append(st)
            out.append({"bid": "%s-m%d" % (s["bid"], j), "cfg": s["cfg"], "steps": ns})
    return out


def transform(scheds, seed, tier):
    cap = TIERS[tier]["multi_cap"]
    bcap = TIERS[tier]["base_cap"]
    base, multi, seen = [], [], set()
    if len(scheds) > bcap:
        scheds = random.Random(yata_pipe._h(seed, "events-base", len(scheds))).sample(scheds, bcap)
        scheds.sort(key=lambda m: m["bid"])
    for idx, s in enumerate(scheds):
        s = {"bid": s["bid"], "cfg": dict(s["cfg"], ext=["events"]), "steps": s["steps"]}
        if idx % 3 == 2:
            # every third history (both offset kinds): text insertions mix in characters outside the BMP (surrogate pairs,
            # 4 bytes), so that retain / delete lengths differ between characters, UTF-16 units and bytes
            s["cfg"]["wide"] = True
        base.append(s)
        for m in multi_variants(s):
            key = json.dumps([m["steps"], m["cfg"]["offset"], m["cfg"].get("wide", False)], sort_keys=True)
            if key not in seen:
                seen.add(key)
                multi.append(m)
    if len(multi) > cap:
        multi = random.Random(yata_pipe._h(seed, "events-multi", len(scheds))).sample(multi, cap)
        multi.sort(key=lambda m: m["bid"])
    return base + multi


def run_design(cfg, wd):
    cpath = yata_pipe._cache_path(vlib.tree_hash(), "events", "D", cfg)
    if os.path.exists(cpath):
        with open(cpath) as f:
            return json.load(f)
    r = vlib.design_check("MC_Events", cfg, os.path.join(wd, "d-" + cfg))
    r = {k: r[k] for k in ("distinct", "generated", "depth", "wall", "coverage")}
    with open(cpath, "w") as f:
        json.dump(r, f)
    return r


BATCH = 14000   # behaviours per X/V batch (a trace is ~2 KB per event; TLC reads each part of a batch into memory)


def _stats_of(tfile, stats):
    """what the transactions exercised (counted from the trace, for the evidence file)"""
    def bump(k, n=1):
        stats[k] = stats.get(k, 0) + n
    with open(tfile) as f:
        for ln in f:
            if '"c11"' not in ln:
                continue
            e = json.loads(ln)
            c = e["c11"]
            bump("transactions")
            bump("txn_" + e["k"])
            if e["k"] == "loc" and e["call"]["a"] == "multi":
                bump("txn_multi")
            if e["obs"]["holes"]:
                bump("txn_on_replica_with_gap")
            for d in c["sh"]:
                if d["fired"]:
                    bump("shallow_events")
                    if not d["script"] and not d["kscript"]:
                        bump("events_with_empty_script")
            for d in c["dp"]:
                if d["own"] != [0, 0]:
                    bump("nested_types_tracked")
                    if d["n"]:
                        bump("nested_events")


def _validate_batch(tfile, wd, scheds, acc):
    """V on one trace file; merges the verdict into acc and attaches schedule + failing event to violating behaviours"""
    _stats_of(tfile, acc["stats"])
    merged = vlib.validate(TRACE[0], TRACE[1], tfile, os.path.join(wd, "v"), parallel=14)
    m = acc["merged"]
    m["viol"] += merged["viol"]
    m["drift"] += merged["drift"]
    for k in m["cnt"]:
        m["cnt"][k] += merged["cnt"][k]
    m["lines"] += merged["lines"]
    m["states"] += merged["states"]
    bad = {}
    for bid, pred, line in merged["viol"]:
        bad.setdefault(bid, []).append([pred, line])
    if bad:
        by_bid = {x["bid"]: x for x in scheds}
        evs, cur = {}, None
        with open(tfile) as f:
            for ln in f:
                if ln.startswith('{"bid":'):
                    cur = json.loads(ln)["bid"]
                    cur = cur if cur in bad else None
                    if cur:
                        evs[cur] = []
                elif cur:
                    evs[cur].append(ln)
        for b, preds in bad.items():
            k = min(p[1] for p in preds)
            # the failing event (needed by known-finding patterns) is kept for the first few hundred only
            event = json.loads(evs[b][k - 1]) if len(acc["bad"]) < 400 and b in evs and 1 <= k <= len(evs[b]) else None
            acc["bad"][b] = {"preds": preds, "schedule": by_bid.get(b), "event": event}
    acc["nontrivial"].update(hashlib.sha256(json.dumps(x["steps"], sort_keys=True).encode()).hexdigest()[:16]
                             for x in scheds if yata_pipe.nontrivial(x))
    os.remove(tfile)


def run_all(tier, workdir):
    """All generator groups (+ multi-operation variants) and the seeded random runs of the tier: G per group (cache shared
    with the yata engine), then X and V in batches of <= BATCH behaviours (the quick tier is one batch). Cached by tree hash."""
    seed = vlib.seed()
    cpath = yata_pipe._cache_path(vlib.tree_hash(), "events", "all", tier, seed)
    if os.path.exists(cpath):
        with open(cpath) as f:
            r = json.load(f)
        r["cached"] = True
        return r
    plan = TIERS[tier]
    t0 = time.time()
    wd = os.path.join(workdir, "events-all")
    shutil.rmtree(wd, ignore_errors=True)
    os.makedirs(wd)
    gstats, scheds = [], []
    for g in plan["gen"]:
        hists, st = yata_pipe.gen_hists(g, tier, workdir)
        sc = transform(yata_pipe.make_schedules(hists, g, seed), seed, tier)
        st = dict(st)
        st["group"], st["used"] = g, len(sc)
        st["multi"] = sum(1 for x in sc if any(y["a"] == "multi" for y in x["steps"]))
        gstats.append(st)
        scheds += sc
    acc = {"merged": {"viol": [], "drift": [], "cnt": {"beh": 0, "ev": 0, "checks": 0}, "lines": 0, "states": 0},
           "bad": {}, "stats": {}, "nontrivial": set()}
    xw = vw = 0.0
    nx = {"behaviours": 0, "events": 0}
    sfile, tfile = os.path.join(wd, "schedules.ndjson"), os.path.join(wd, "trace.ndjson")
    for lo in range(0, len(scheds), BATCH):
        part = scheds[lo:lo + BATCH]
        tx = time.time()
        xs = vlib.run_x_sched(part, sfile, tfile, ["--seed", str(seed)])
        for k in nx:
            nx[k] += xs.get(k, 0)
        tv = time.time()
        _validate_batch(tfile, wd, part, acc)
        xw += tv - tx
        vw += time.time() - tv
    # seeded random schedules (with multi-operation transactions), a few runs per batch
    nrand = 0
    for lo in range(0, plan["random"], 6):
        rsch = []
        tx = time.time()
        for i in range(lo, min(plan["random"], lo + 6)):
            rs, rt = os.path.join(wd, "rs%d.ndjson" % i), os.path.join(wd, "rt%d.ndjson" % i)
            r1, _ncr = vlib.run_x_random(rs, rt, ["--seed", str(yata_pipe._h(seed, i, "events") % (1 << 31)),
                                                  "--ops", str(12 if i % 2 == 0 else 40), "--ext", "events", "--gc-off", "0", "--wide", "3"],
                                         150 if tier == "quick" else 400)
            nx["behaviours"] += len(r1)
            rsch += r1
            with open(tfile, "a") as out, open(rt) as f:
                shutil.copyfileobj(f, out)
            os.remove(rs)
            os.remove(rt)
        nrand += len(rsch)
        tv = time.time()
        _validate_batch(tfile, wd, rsch, acc)
        xw += tv - tx
        vw += time.time() - tv
        scheds += rsch
    multi = [x for x in scheds if any(y["a"] == "multi" for y in x["steps"])]
    res = {"group": "events-all", "engine": "events", "gstats": gstats, "x": nx, "random_behaviours": nrand, "stats": acc["stats"],
           "x_wall": xw, "v_wall": vw, "merged": acc["merged"], "bad": acc["bad"], "nontrivial": sorted(acc["nontrivial"]),
           "samples": [scheds[i] for i in (0, len(scheds) // 3, (2 * len(scheds)) // 3) if scheds] + multi[:1],
           "wall": time.time() - t0, "cached": False}
    with open(cpath, "w") as f:
        json.dump(res, f)
    try:
        os.remove(sfile)
    except OSError:
        pass
    return res


def check(prop, tier):
    import events_regen
    try:
        ok = events_regen.in_sync()
    except ValueError as e:
        raise vlib.ToolError("Trace_Events.tla cannot be derived from Trace_Yata.tla any more: %s" % e)
    if not ok:
        raise vlib.ToolError("spec/Trace_Events.tla (LocalX / SyncX) is out of step with spec/Trace_Yata.tla: run tools/events_regen.py")
    ev = vlib.Evidence(prop, tier)
    bt = vlib.build_harness("yx")
    wd = os.path.join(vlib.WORK, "run-%s" % prop)
    plan = TIERS[tier]
    for d in plan["design"]:
        ev.add_tlc(d, run_design(d, wd), "design")
    r = run_all(tier, wd)
    for g in r["gstats"]:
        ev.add_tlc(yata_pipe.G_GROUPS[g["group"]][1], {"distinct": g["distinct"], "generated": g["generated"], "depth": g["depth"],
                                                       "wall": g["wall"], "replay": [0] * g["replay"]}, "G")
    ev.add_v("all groups + %d random behaviours" % r["random_behaviours"], r["merged"], r["nontrivial"], r["v_wall"])
    for s in r["samples"]:
        ev.sample(s)
    ev.cov["groups"] = [{k: g[k] for k in ("group", "replay", "used", "multi")} for g in r["gstats"]]
    ev.cov["exercised"] = r["stats"]
    ev.cov["rule"] = ("an evaluation = one committed transaction (local call, multi-operation transaction, delivery incl. out of order / "
                      "merged / duplicate, state-vector sync, forced gc) on a replica whose three root types carry a shallow and a deep "
                      "observer; TLC evaluates C11_ScriptExact (reported script applied to the content before = content after, per "
                      "observed type incl. nested ones), C11_EventExact (script-only shadow copies = content), C11_OldValues, "
                      "C11_AtMostOnce, C11_NoEventIfUntouched (weaker reading of DESIGN.md 5(b)), C11_FiresOnChange, C11_DeepPaths, "
                      "C11_ScriptApplies together with the base Yata checks that bind the recorded state to the specification. "
                      "behaviours = TLC-enumerated histories x delivery orders (yata groups + the single-author nested group evnest, "
                      "sub-sampled to base_cap per group) + every variant in which two consecutive local operations of one author form "
                      "ONE transaction (sub-sampled to multi_cap per group) + seeded random schedules with multi-operation "
                      "transactions; `exercised` counts what these transactions covered")
    ev.cov["exhaustive"] = False
    ev.cov["harness_build_s"] = round(bt, 1)
    ev.assumptions = ["TLC, CommunityModules", "harness adapters and observation functions (obs.rs, codec.rs)",
                      "hook H1 (yrs::verif) reports the item lists faithfully",
                      "ext/events.rs copies scripts/paths/targets faithfully and applies them with standard delta semantics (shadow copies); "
                      "TLC re-applies every recorded script itself (C11_ScriptExact)",
                      "no formatted text, embeds, sub-documents or XML types are exercised (the events extension is passive in `rich`/`xml` "
                      "behaviours): attributes are only checked to be absent"]
    rc = vlib.report(prop, ev, [r], PREFIXES)
    ev.write()
    return rc


def manifest_entries():
    return [{
        "property_id": "C11", "quick_cmd": "./check C11 --tier quick", "thorough_cmd": "./check C11 --tier thorough",
        "evidence_file": "evidence/C11.json", "replay_cmd_template": "./check replay {path}", "engine": "events",
        "level_claimed": {"category": "model_checking",
                          "text": ("Events.tla defines Apply(script, content) for text deltas / array change lists / map key changes and the "
                                   "predicates ScriptExact, EventExact (script-only shadow copy = content), OldValues, AtMostOnce, "
                                   "NoEventIfUntouched (weaker reading, DESIGN.md 5(b)), FiresOnChange, DeepPaths. Every transaction of every "
                                   "TLC-enumerated history x delivery order (2 authors, 3 operations, text / array / map / nested values, "
                                   "merged and out-of-order deliveries), of every variant with two operations in one transaction and of "
                                   "seeded random schedules is executed on real Docs whose roots carry shallow and deep observers; TLC "
                                   "validates the recorded scripts, shadows, firing counts and paths against the specification state of "
                                   "the acting replica before and after the transaction. MC_Events checks the transcribed delta algorithm "
                                   "(walk with added/deleted sets) against Apply in every reachable state of the design models."),
                          "design_ref": "DESIGN.md section 6/C11"},
        "level_note": ("Trusted: TLC + CommunityModules; harness adapters (yata.rs, ext/events.rs), observation functions, hook H1. Small scope: "
                       "exhaustive only within the G bounds, multi-operation variants and random schedules are seeded samples. Not covered: "
                       "formatting attributes, embeds, XML types, weak links, sub-documents (no such steps in the executor)."),
        "technique": "TLA+ spec (Events over Yata) + TLC; TLC-generated schedules replayed on real yrs with observers; recorded traces validated by TLC against Trace_Events",
    }]
