#!/usr/bin/env python3
"""Generates spec/MC_YataScript.tla and spec/G_script_<family>_<n>.cfg: scripted author phases ("shape library").
For each script TLC enumerates every exchange among the authors and EVERY delivery order (and merged delivery)
to the observer. The families target the interplay of dependencies with gaps (same-sender overtaking), which the
free generator cannot reach within its operation bound because it needs two independent containers:

  gapdel   one author types k units one by one, does one independent operation elsewhere, then deletes a range
  gapdep   an element, an independent operation, then a dependent insertion left / right of the element, by the same
           or by the other author (after catching up), in both client-id orders
  gappar   a nested array / map is created, an independent operation follows, then the first element of the nested type
  gapkey   the same for map entries (overwrite / remove vs. independent key)

Rich-text families (formatting marks and the automatic clean-up, see spec/Rich.tla): the script fixes the local
operations, TLC enumerates WHO HAS SEEN WHAT (exchanges among the authors - an operation on an index a replica does
not have yet is not enabled) and every delivery order to the observer, which runs with the clean-up on in most schedules:

  fmtdup   concurrent formats of the same range, same key and value (duplicate marks: what the clean-up removes), then a
           third operation that deletes / overrides one of the duplicates (unformat, reformat, delete the text)
  fmtovl   concurrent formats of overlapping ranges: same key same value / same key other value / other key; nested ranges
  fmtdel   format vs concurrent delete of a boundary unit / of the whole range / insert at a boundary
  fmtovw   format, then overwrite a part, then clear; concurrent clear by the other author
  fmtins   insert_with_attributes (marks around the new units, negated marks behind them) next to / inside formatted ranges,
           concurrent attributed inserts at one position, then a delete / format that meets those marks
  fmthole  a mark next to a hole: the format is emitted after an independent operation of the same author (the observer
           integrates the marks beyond a gap), and a deletion that waits for a withheld mark

Run after changing the families; the outputs are committed (the checks never regenerate them)."""
import json
import os

V = os.path.dirname(os.path.dirname(os.path.abspath(__file__)))


def op(a, r, c, i=0, n=1, k="u", key="", v=None):
    o = {"a": a, "r": r, "c": c, "i": i, "n": n, "k": k, "key": key}
    if v is not None:
        o["v"] = v
    return o


def fmt(r, i, n, key="b", v="x"):
    return op("fmt", r, "t", i, n, key=key, v=v)


def insa(r, i, n=1, key="b", v="x"):
    return op("insa", r, "t", i, n, key=key, v=v)


def rich_families():
    fam = {}
    txt = lambda n: op("ins", 1, "t", 0, n)  # noqa: E731  the text both authors work on (one block of n units by author 1)
    # fmtdup: duplicates, then something that removes one of them
    s = []
    for third in (fmt(2, 0, 1, v="null"), fmt(1, 0, 1, v="null"), fmt(2, 0, 1, v="y"), op("del", 2, "t", 0, 1), op("ins", 2, "t", 0), op("ins", 1, "t", 1)):
        s.append(([txt(1), fmt(1, 0, 1), fmt(2, 0, 1), third], [1, 2]))
    for third in (fmt(2, 0, 2, v="null"), fmt(1, 1, 1, v="null"), op("del", 2, "t", 0, 2), op("del", 1, "t", 1, 1)):
        s.append(([txt(2), fmt(1, 0, 2), fmt(2, 0, 2), third], [1, 2]))
    # three authors: the unformatting one has seen only one of the duplicates (scripted through who-has-seen-what)
    s.append(([txt(1), fmt(1, 0, 1), fmt(2, 0, 1), fmt(3, 0, 1, v="null")], [1, 2, 3]))
    s.append(([txt(1), fmt(1, 0, 1), fmt(2, 0, 1), fmt(3, 0, 1, v="x")], [1, 2, 3]))
    fam["fmtdup"] = s
    # fmtovl: overlapping ranges over "abc"
    s = []
    for key2, v2 in (("b", "x"), ("b", "y"), ("i", "x"), ("b", "null")):
        s.append(([txt(3), fmt(1, 0, 2), fmt(2, 1, 2, key=key2, v=v2)], [1, 2]))
        s.append(([txt(3), fmt(1, 0, 3), fmt(2, 1, 1, key=key2, v=v2)], [1, 2]))          # nested
        s.append(([txt(3), fmt(1, 0, 2), fmt(2, 1, 2, key=key2, v=v2), fmt(1, 0, 3, v="null")], [1, 2]))
    fam["fmtovl"] = s
    # fmtdel: format vs delete / insert at the boundaries
    s = []
    for other in (op("del", 2, "t", 0, 1), op("del", 2, "t", 1, 1), op("del", 2, "t", 2, 1), op("del", 2, "t", 0, 2), op("del", 2, "t", 0, 3),
                  op("ins", 2, "t", 0), op("ins", 2, "t", 2), op("ins", 2, "t", 1)):
        s.append(([txt(3), fmt(1, 0, 2), other], [1, 2]))
        s.append(([txt(3), fmt(1, 0, 2), other, fmt(2, 0, 1, v="y")], [1, 2]))
    fam["fmtdel"] = s
    # fmtovw: format, overwrite a part, clear
    s = []
    for a2 in (1, 2):
        s.append(([txt(3), fmt(1, 0, 3), fmt(1, 1, 1, v="y"), fmt(a2, 0, 3, v="null")], [1, 2]))
        s.append(([txt(3), fmt(1, 0, 3), fmt(a2, 0, 3, v="y"), fmt(1, 0, 3, v="x")], [1, 2]))
        s.append(([txt(2), fmt(1, 0, 2), fmt(a2, 0, 2, v="null"), fmt(1, 0, 2), fmt(a2, 1, 1, v="null")], [1, 2]))
        s.append(([txt(2), fmt(1, 0, 1), fmt(1, 1, 1), fmt(a2, 0, 2, v="null"), op("del", 1, "t", 0, 1)], [1, 2]))
    fam["fmtovw"] = s
    # fmtins: attributed inserts
    s = []
    for a2 in (1, 2):
        s.append(([txt(2), fmt(1, 0, 2), insa(a2, 1, v="null"), fmt(1, 0, 2, v="null")], [1, 2]))      # plain island inside bold, then clear
        s.append(([txt(2), insa(1, 1), insa(2, 1), op("del", a2, "t", 1, 1)], [1, 2]))                  # concurrent attributed inserts, same place
        s.append(([txt(1), insa(1, 1), fmt(2, 0, 1), op("del", 1, "t", 1, 1)], [1, 2]))                 # bold tail typed, head formatted, tail deleted
        s.append(([txt(2), insa(1, 1, v="x"), insa(a2, 2, v="y"), fmt(2, 0, 2, v="null")], [1, 2]))
        s.append(([txt(2), fmt(1, 1, 1), insa(a2, 1, key="i"), op("ins", 2, "t", 1)], [1, 2]))          # other key at the boundary, plain insert next to it
    fam["fmtins"] = s
    # fmthole: marks beyond a gap (independent operation of the same author in between), deletion waiting for a mark
    s = []
    for a2 in (1, 2):
        s.append(([txt(2), op("ins", 1, "a", 0), fmt(1, 0, 1), fmt(a2, 0, 2)], [1, 2]))
        s.append(([txt(2), fmt(1, 0, 2), op("ins", 1, "a", 0), fmt(1, 0, 1, v="null"), fmt(a2, 0, 2, v="null")], [1, 2]))
        s.append(([txt(2), fmt(1, 0, 1), op("ins", 1, "a", 0), op("del", 1, "t", 0, 1), fmt(a2, 0, 1, v="y")], [1, 2]))
    fam["fmthole"] = s
    return fam


def families():
    fam = {}
    # gapdel: typing k units (appended), independent op at position p in the sequence of operations, delete range (i, n)
    scripts = []
    for k in (3, 4):
        for p in range(1, k + 1):  # the independent op comes after the p-th typed unit
            for n in (2, 3):
                for i in range(0, k - n + 1):
                    s = []
                    for j in range(k):
                        s.append(op("ins", 1, "t", j))
                        if j + 1 == p:
                            s.append(op("ins", 1, "a", 0))
                    s.append(op("del", 1, "t", i, n))
                    scripts.append((s, [1]))
    fam["gapdel"] = scripts
    # gapdep: e0, independent X, dependent Y left/right of e0; same author or the other one (both id orders)
    scripts = []
    for first in (1, 2):
        other = 3 - first
        for who in (first, other):
            for side in (0, 1):  # insert before / after e0
                for xroot in ("a",):
                    s = [op("ins", first, "t", 0), op("ins", first, xroot, 0), op("ins", who, "t", side)]
                    scripts.append((s, [1, 2]))
                    s2 = [op("ins", first, "t", 0), op("ins", first, "t", 1), op("ins", first, xroot, 0), op("ins", who, "t", 1), op("ins", who, "t", 1)]
                    scripts.append((s2, [1, 2]))
    fam["gapdep"] = scripts
    # gappar: nested type created in a / m, independent op in t, then first element inside the nested type
    scripts = []
    for kind, nested_op in (("A", "nins"), ("M", "nset")):
        for author2 in (1, 2):
            s = [op("ins", 1, "a", 0, k=kind), op("ins", 1, "t", 0), op(nested_op, author2, "a", 0)]
            scripts.append((s, [1, 2]))
            s = [op("ins", 1, "a", 0, k=kind), op("ins", 1, "t", 0), op(nested_op, author2, "a", 0), op("del", 1, "a", 0, 1)]
            scripts.append((s, [1, 2]))
    fam["gappar"] = scripts
    # gapkey: map entries with an independent key in between
    scripts = []
    for a2 in (1, 2):
        scripts.append(([op("set", 1, "m", key="k1"), op("set", 1, "m", key="k2"), op("set", a2, "m", key="k1"), op("rem", 1, "m", key="k1")], [1, 2]))
        scripts.append(([op("set", 1, "m", key="k1"), op("ins", 1, "t", 0), op("set", a2, "m", key="k1"), op("set", 1, "m", key="k1")], [1, 2]))
    # chains of overwritten / removed entries (squashed tombstones) split by a concurrent write, then written again
    for a, b in ((1, 2), (2, 1)):
        scripts.append(([op("set", a, "m", key="k1"), op("set", a, "m", key="k1"), op("rem", a, "m", key="k1"), op("set", b, "m", key="k1"), op("set", a, "m", key="k1")], [1, 2]))
        scripts.append(([op("set", a, "m", key="k1"), op("set", a, "m", key="k1"), op("set", a, "m", key="k1"), op("set", b, "m", key="k1"), op("rem", a, "m", key="k1"), op("set", a, "m", key="k1")], [1, 2]))
    fam["gapkey"] = scripts
    fam.update(rich_families())
    return fam


def tla_rec(o):
    extra = ", v |-> \"%s\"" % o["v"] if "v" in o else ""
    return "[a |-> \"%s\", r |-> %d, c |-> \"%s\", i |-> %d, n |-> %d, k |-> \"%s\", key |-> \"%s\"%s]" % (o["a"], o["r"], o["c"], o["i"], o["n"], o["k"], o["key"], extra)


def main():
    fam = families()
    lines = ["--------------------------- MODULE MC_YataScript ---------------------------",
             "(* GENERATED by tools/gen_scripts.py -- scripted author phases for MC_Yata (see the generator for the families) *)",
             "EXTENDS MC_Yata", ""]
    index = {}
    for name, scripts in sorted(fam.items()):
        for n, (s, authors) in enumerate(scripts):
            ident = "S_%s_%d" % (name, n)
            lines.append("%s == << %s >>" % (ident, ",\n    ".join(tla_rec(o) for o in s)))
            merge = "TRUE" if n % 3 == 0 else "FALSE"
            cfg = ("CONSTANTS\n  Authors = {%s}\n  Obs = 8\n  MaxOps = %d\n  SeqRoots = {\"t\", \"a\"}\n  MapKeys = {\"k1\", \"k2\"}\n  Nest = TRUE\n"
                   "  MaxDel = 9\n  Merge = %s\n  Script <- %s\n  Dups = FALSE\nSPECIFICATION Spec\n"
                   "INVARIANTS InvOnce InvPlaced InvBetween InvDepClosed InvNothingLost InvPending InvConverge InvPairOrder InvClosed PrintSchedules\n"
                   "CHECK_DEADLOCK FALSE\n") % (", ".join(str(a) for a in authors), len(s), merge, ident)
            cfgname = "G_script_%s_%d.cfg" % (name, n)
            with open(os.path.join(V, "spec", cfgname), "w") as f:
                f.write(cfg)
            index.setdefault(name, []).append(cfgname)
    lines.append("=============================================================================")
    with open(os.path.join(V, "spec", "MC_YataScript.tla"), "w") as f:
        f.write("\n".join(lines) + "\n")
    with open(os.path.join(V, "spec", "scripts_index.json"), "w") as f:
        json.dump(index, f, indent=1)
    print({k: len(v) for k, v in index.items()})


if __name__ == "__main__":
    main()
