"""G -> X -> V pipeline of the IdSets specification family (C16: id sets / attributed id maps are exact
set algebra in canonical form; delete sets computed from a document are exact).

G  TLC (spec/MC_IdSets.tla, MC_IdSetsDoc.tla) enumerates construction programs / value pairs / document
   schedules and prints them; this module only sorts, groups and (for the sampled families) pairs them.
X  harness/src/idsets.rs (binary yx_idsets) executes them on real IdSet / IdMap<String> / Doc values.
V  TLC (spec/Trace_IdSets.tla) recomputes every result with the set algebra of spec/IdSets.tla and
   evaluates the C16_* predicates on the recorded representations.  No verdict is taken here."""
import hashlib
import json
import os
import random
import shutil
import threading
import time
from concurrent.futures import ThreadPoolExecutor

import vlib

ENGINE_TEXT = ("TLA+ set-algebra spec (IdSets) + TLC design check; TLC-enumerated construction programs executed on "
               "yrs::IdSet / IdMap / Doc; recorded representations validated by TLC (Trace_IdSets)")
PROPS = ["C16"]
PREFIXES = ["C16_"]


def yx_bin():
    return os.path.join(vlib.HARNESS, "target", "debug", "yx_idsets")


# family name -> description
#   seq  : every construction program of the G configuration (exhaustive), executed as a trie walk
#   pairs: every ordered pair of reachable abstract VALUES (one shortest program each) x every operation
#   xpair: seeded sample of PROGRAM pairs drawn from a seq enumeration (different paths to the operands)
#   doc  : every document schedule of MC_IdSetsDoc
FAMILIES = {
    # quick
    "set3": {"type": "seq", "module": "MC_IdSets", "cfg": "G_ids_set3.cfg", "kind": "set", "clients": [1, 2], "U": 5},
    "map3": {"type": "seq", "module": "MC_IdSets", "cfg": "G_ids_map3.cfg", "kind": "map", "clients": [1], "U": 5},
    "mapx2": {"type": "seq", "module": "MC_IdSets", "cfg": "G_ids_mapx2.cfg", "kind": "map", "clients": [1, 2], "U": 3},
    "fi": {"type": "seq", "module": "MC_IdSets", "cfg": "G_ids_fi.cfg", "kind": "set", "clients": [1, 2], "U": 3},
    "pset": {"type": "pairs", "module": "MC_IdSets", "cfg": "G_ids_pset.cfg", "kind": "set", "clients": [1, 2], "U": 3},
    "pset1": {"type": "pairs", "module": "MC_IdSets", "cfg": "G_ids_pset1.cfg", "kind": "set", "clients": [1], "U": 5},
    "pmap": {"type": "pairs", "module": "MC_IdSets", "cfg": "G_ids_pmap.cfg", "kind": "map", "clients": [1], "U": 3},
    "xset": {"type": "xpair", "from": "set3", "na": {"quick": 150, "thorough": 1500}, "nb": 12},
    "xmap": {"type": "xpair", "from": "mapx2", "na": {"quick": 150, "thorough": 1500}, "nb": 12},
    "doc4": {"type": "doc", "module": "MC_IdSetsDoc", "cfg": "G_ids_doc4.cfg"},
    # thorough
    "set3w": {"type": "seq", "module": "MC_IdSets", "cfg": "G_ids_set3w.cfg", "kind": "set", "clients": [1, 2], "U": 7},
    "set4": {"type": "seq", "module": "MC_IdSets", "cfg": "G_ids_set4.cfg", "kind": "set", "clients": [1], "U": 5},
    "map3w": {"type": "seq", "module": "MC_IdSets", "cfg": "G_ids_map3w.cfg", "kind": "map", "clients": [1], "U": 6},
    "map4": {"type": "seq", "module": "MC_IdSets", "cfg": "G_ids_map4.cfg", "kind": "map", "clients": [1], "U": 3},
    "pset4": {"type": "pairs", "module": "MC_IdSets", "cfg": "G_ids_pset4.cfg", "kind": "set", "clients": [1, 2], "U": 3},
    "pmap4": {"type": "pairs", "module": "MC_IdSets", "cfg": "G_ids_pmap4.cfg", "kind": "map", "clients": [1], "U": 4},
    "doc5": {"type": "doc", "module": "MC_IdSetsDoc", "cfg": "G_ids_doc5.cfg"},
}
D_GROUPS = {
    "d_set": ("MC_IdSets", "D_ids_set.cfg"), "d_set1": ("MC_IdSets", "D_ids_set1.cfg"), "d_map": ("MC_IdSets", "D_ids_map.cfg"),
    "d_doc": ("MC_IdSetsDoc", "D_ids_doc.cfg"),
    "d_set_big": ("MC_IdSets", "D_ids_set_big.cfg"), "d_map_big": ("MC_IdSets", "D_ids_map_big.cfg"),
}
TIERS = {
    "quick": {"design": ["d_set", "d_set1", "d_map", "d_doc"],
              "fam": ["set3", "map3", "mapx2", "fi", "pset", "pset1", "pmap", "xset", "xmap", "doc4"]},
    "thorough": {"design": ["d_set", "d_set1", "d_map", "d_doc", "d_set_big", "d_map_big"],
                 "fam": ["set3", "map3", "mapx2", "fi", "pset", "pset1", "pmap", "xset", "xmap", "doc4",
                         "set3w", "set4", "map3w", "map4", "pset4", "pmap4", "doc5"]},
}
EXHAUSTIVE_TEXT = {
    "seq": "every construction program (sequence of range insertions / removals, empty range included) within the bounds of the G configuration",
    "pairs": "every ordered pair of abstract values reachable within the bounds (one shortest construction program per value) x every binary operation, comparison, conversion and query",
    "xpair": "NOT exhaustive: seeded sample (VERIF_SEED) of pairs of construction programs",
    "doc": "every document schedule (insert / delete / hand-over) within the bounds of the G configuration",
}


def _h(*a):
    return int(hashlib.sha256(("|".join(str(x) for x in a)).encode()).hexdigest()[:12], 16)


def _opkey(op):
    return json.dumps(op, sort_keys=True)


def strip(op):
    op = dict(op)
    op.pop("reg", None)
    return op


# ------------------------------------------------------------------------------------------------
# schedule construction (sorting / grouping / sampling only)

def seq_schedules(name, fam, progs, per_beh=4500):
    """programs (tuples of operation JSON strings) -> trie-ordered groups; a behaviour holds complete
    first-operation subtrees; returned as (bid, header dict, list of programs)"""
    progs = sorted(p for p in progs if p)
    groups, cur, first = [], [], None
    for p in progs:
        if p[0] != first and len(cur) >= per_beh:
            groups.append(cur)
            cur = []
        first = p[0]
        cur.append(p)
    if cur:
        groups.append(cur)
    return [("%s-%04d" % (name, i), {"bid": "%s-%04d" % (name, i), "fam": "seq", "kind": fam["kind"], "clients": fam["clients"],
                                     "U": fam["U"]}, g) for i, g in enumerate(groups)]


def seq_line(hdr, progs):
    """one schedule line; the programs are spliced in as JSON text"""
    return json.dumps(hdr)[:-1] + ', "progs": [' + ",".join("[" + ",".join(p) + "]" for p in progs) + "]}"


def pair_schedules(name, fam, replay):
    """value pairs printed by TLC (possibly several times with programs of different length) -> one behaviour
    per A value holding every B value"""
    best = {}
    for r in replay:
        ka, kb = json.dumps(r["ka"], sort_keys=True), json.dumps(r["kb"], sort_keys=True)
        pa = [strip(o) for o in r["h"] if o["reg"] == "A"]
        pb = [strip(o) for o in r["h"] if o["reg"] == "B"]
        cur = best.get((ka, kb))
        cand = (len(pa) + len(pb), json.dumps([pa, pb], sort_keys=True), pa, pb)
        if cur is None or cand[:2] < cur[:2]:
            best[(ka, kb)] = cand
    by_a = {}
    for (ka, kb), (_, _, pa, pb) in sorted(best.items()):
        e = by_a.setdefault(ka, {"a": pa, "bs": []})
        if len(pa) < len(e["a"]):
            e["a"] = pa
        e["bs"].append(pb)
    out = []
    for i, (ka, e) in enumerate(sorted(by_a.items())):
        out.append({"bid": "%s-%04d" % (name, i), "fam": "pair", "kind": fam["kind"], "clients": fam["clients"], "U": fam["U"],
                    "a": e["a"], "bs": e["bs"]})
    return out, len(best)


def xpair_schedules(name, src, progs, na, nb, seed):
    rnd = random.Random(_h(seed, name))
    progs = sorted(progs)
    full = [p for p in progs if len(p) >= 2] or progs
    load = lambda p: [json.loads(o) for o in p]
    out = []
    for i in range(na):
        a = rnd.choice(full)
        bs = [rnd.choice(full) for _ in range(nb)]
        out.append({"bid": "%s-%04d" % (name, i), "fam": "pair", "kind": src["kind"], "clients": src["clients"], "U": src["U"],
                    "a": load(a), "bs": [load(b) for b in bs]})
    return out


def doc_schedules(name, replay):
    out = []
    for i, r in enumerate(sorted(replay, key=lambda h: json.dumps(h, sort_keys=True))):
        out.append({"bid": "%s-%05d" % (name, i), "fam": "doc", "kind": "set", "clients": [], "U": 0, "gc": i % 2 == 0, "steps": r["h"]})
    return out


# ------------------------------------------------------------------------------------------------
# locating the program behind a violating event (reporting only)

def locate(trace, wanted):
    """wanted: set of (bid, n) -> {(bid, n): {"sched": minimal schedule, "event": event}}"""
    found = {}
    bids = {b for b, _ in wanted}
    cur, hdr, paths, a_prog, b_prog = None, None, {}, [], []
    with open(trace) as f:
        for ln in f:
            if ln.startswith('{"bid":'):
                hdr = json.loads(ln)
                cur = hdr["bid"] if hdr["bid"] in bids else None
                paths = {"a": [], "b": []}
                continue
            if cur is None:
                continue
            e = json.loads(ln)
            k = e.get("k")
            if k == "new":
                paths[e["reg"]] = []
            elif k == "step":
                paths[e["reg"]] = paths[e["reg"]][:e["d"] - 1] + [e["op"]]
            if (cur, e.get("n")) in wanted:
                fam = hdr.get("fam")
                base = {"bid": "%s@%d" % (cur, e["n"]), "fam": fam, "kind": hdr.get("kind"),
                        "clients": sorted({p[0] for p in hdr.get("probe", []) if p[0] != 99}),
                        "U": max([p[1] for p in hdr.get("probe", [])] + [0])}
                if fam == "seq":
                    p = paths["a"]
                    base["progs"] = [p[:i] for i in range(1, len(p) + 1)]
                    base["prog"] = p
                elif fam == "pair":
                    base["a"], base["bs"] = list(paths["a"]), [list(paths["b"])]
                    base["at"] = {"k": k, "op": e.get("op"), "arg": e.get("arg"), "reg": e.get("reg")}
                else:
                    base["note"] = "document schedule: see the behaviour %s in the schedule file" % cur
                ev = {x: e[x] for x in e if x != "obs"}
                if "obs" in e:
                    ev["obs"] = {x: e["obs"][x] for x in e["obs"] if x in ("rep", "empty", "len", "kind", "enc1", "ds", "dsu", "dead", "gone", "lst")}
                found[(cur, e["n"])] = {"sched": base, "event": ev}
    return found


# ------------------------------------------------------------------------------------------------
# structural patterns of known findings.  tools/patterns.py re-exports them
# (`from idsets_pipe import c16_idset_empty_client_entry, ...`); known_findings.json names them.
# info = {"preds": [[pred, n], ..], "schedule": minimal schedule, "event": violating event, "ref_event": event compared with}

def _ops_of(info):
    sched = info.get("schedule") or {}
    return list(sched.get("prog") or []) + list(sched.get("a") or []) + [o for b in sched.get("bs") or [] for o in b]


def _preds(info):
    return {p[0] for p in info.get("preds", [])}


def c16_idset_empty_client_entry(info):
    """F8: IdSet::insert(id, 0) / IdSet::from_iter with no non-empty range for a client stores a client entry
    without ranges.  Matches when the violating value is an IdSet whose recorded listing has a client entry with
    an empty range list, the program contains an empty insertion (or a from_iter item without a non-empty range)
    for every such client, and only the predicates that an empty entry explains are violated."""
    ev = info.get("event") or {}
    obs = ev.get("obs") or {}
    if obs.get("kind") != "set":
        return False
    if not _preds(info) <= {"C16_Canonical", "C16_Query", "C16_EqualRepr", "C16_EqualReprCmp", "C16_EqualEncoding"}:
        return False
    hollow = {e["c"] for e in obs.get("rep", []) if not e["r"]}
    if not hollow:
        return False
    culprits = set()
    for o in _ops_of(info):
        if o.get("a") == "ins" and o["lo"] >= o["hi"]:
            culprits.add(o["c"])
        if o.get("a") == "fi":
            for it in o["items"]:
                if all(r[0] >= r[1] for r in it["rs"]):
                    culprits.add(it["c"])
    return hollow <= culprits


def c16_idmap_duplicate_attrs(info):
    """IdMap::insert keeps a duplicated attribute of its argument list.  Matches when the violating value is an
    IdMap whose recorded listing holds an attribute list with a repeated attribute and the program contains an
    insertion whose attribute list repeats an attribute."""
    ev = info.get("event") or {}
    obs = ev.get("obs") or {}
    if obs.get("kind") != "map":
        return False
    if not _preds(info) <= {"C16_CanonicalAttrs", "C16_Canonical", "C16_Points", "C16_EqualRepr", "C16_EqualReprCmp", "C16_EqualEncoding"}:
        return False
    listed = any(len(set(r["at"])) != len(r["at"]) for e in obs.get("rep", []) for r in e["r"])
    given = any(o.get("a") == "ins" and len(set(o.get("at", []))) != len(o.get("at", [])) and o["lo"] < o["hi"] for o in _ops_of(info))
    return listed and given


def c16_idmap_encoding_arc_identity(info):
    """IdMap::encode numbers attributes by Arc pointer.  Matches when ONLY C16_EqualEncoding is violated, the value
    is an IdMap, and one of the two compared representations is the result of merge_with / merge_many /
    intersect_with (which carry Arcs of both operands)."""
    if _preds(info) != {"C16_EqualEncoding"}:
        return False
    ev, ref = info.get("event") or {}, info.get("ref_event") or {}
    if (ev.get("obs") or {}).get("kind") != "map":
        return False
    mixes = lambda e: e.get("k") == "bin" and e.get("op") in ("mergew", "mergemany", "isectw")
    return mixes(ev) or mixes(ref)


# ------------------------------------------------------------------------------------------------
# V: balanced split + TLC through vlib.run_tlc

_V_POOL = ThreadPoolExecutor(max_workers=14)
_V_JOPTS = "-Xss1g -Xmx3g -Dtlc2.tool.queue.IStateQueue=StateDeque -XX:ParallelGCThreads=2"


def validate(trace, workdir, parallel=12, timeout=3000):
    """Splits the trace at behaviour boundaries into balanced parts, validates every part with TLC
    (Trace_IdSets, one worker each) and merges the verdicts. Every line must have been consumed."""
    with open(trace) as f:
        lines = f.readlines()
    starts = [i for i, ln in enumerate(lines) if ln.startswith('{"bid":')]
    merged = {"viol": [], "drift": [], "cnt": {"beh": 0, "ev": 0, "checks": 0}, "lines": 0, "states": 0}
    if not starts:
        return merged
    behs = sorted(((b - a, a, b) for a, b in zip(starts, starts[1:] + [len(lines)])), reverse=True)
    nparts = max(1, min(parallel, len(lines) // 15000 + 1, len(behs)))     # a JVM start costs as much as ~5000 events
    bins = [[0, []] for _ in range(nparts)]
    for size, a, b in behs:
        tgt = min(bins, key=lambda x: x[0])
        tgt[0] += size
        tgt[1].append((a, b))
    pdir = os.path.join(workdir, "parts")
    os.makedirs(pdir, exist_ok=True)
    parts = []
    for i, (size, spans) in enumerate(bins):
        p = os.path.join(pdir, "part%03d.ndjson" % i)
        with open(p, "w") as f:
            for a, b in sorted(spans):
                f.writelines(lines[a:b])
        parts.append((i, p, size))
    del lines

    def one(x):
        i, p, n = x
        r = vlib.run_tlc("Trace_IdSets", "Trace_IdSets.cfg", os.path.join(workdir, "v%03d" % i), workers=1,
                         env={"TRACE": p, "JAVA_TOOL_OPTIONS": _V_JOPTS}, timeout=timeout, deque=True, heap="3g")
        return p, n, r

    for p, n, r in list(_V_POOL.map(one, parts)):
        if r["error"] or r["verdict"] is None:
            raise vlib.ToolError("V Trace_IdSets on %s failed: %s\n%s" % (p, r["error"], r.get("tail", "")))
        v = r["verdict"]
        if v.get("lines") != n or r["depth"] != n + 1:
            raise vlib.ToolError("V did not consume the whole trace %s (%s of %d lines, depth %d)" % (p, v.get("lines"), n, r["depth"]))
        merged["viol"] += v.get("viol", [])
        merged["drift"] += v.get("drift", [])
        for k in merged["cnt"]:
            merged["cnt"][k] += v.get("cnt", {}).get(k, 0)
        merged["lines"] += n
        merged["states"] += r["distinct"]
    shutil.rmtree(pdir, ignore_errors=True)
    return merged


# ------------------------------------------------------------------------------------------------

def _cache_path(key):
    cdir = os.path.join(vlib.WORK, "cache")
    os.makedirs(cdir, exist_ok=True)
    return os.path.join(cdir, key + ".json")


def run_design(dname, wd, th=None):
    cpath = _cache_path("%s-ids-%s" % (th or vlib.tree_hash(), dname))
    if os.path.exists(cpath):
        with open(cpath) as f:
            r = json.load(f)
        r["cached"] = True
        return r
    module, cfg = D_GROUPS[dname]
    r = vlib.design_check(module, cfg, os.path.join(wd, dname), workers=4)
    r = {k: r[k] for k in ("distinct", "generated", "depth", "wall", "coverage")}
    # every action of the model must have fired
    dead = [a for a, n in r["coverage"].items() if n == 0 and a not in ("Init",)]
    if dead:
        raise vlib.ToolError("design check %s: action(s) %s never fired" % (dname, dead))
    r["cached"] = False
    with open(cpath, "w") as f:
        json.dump(r, f)
    return r


def run_x(batch, sfile, tfile, procs=4):
    """X stage: the schedule lines of a batch are dealt to <= procs harness processes (behaviours are
    independent); the traces are concatenated in schedule order of each process."""
    k = max(1, min(procs, len(batch), sum(b[2] for b in batch) // 20000 + 1))
    bins = [[0, []] for _ in range(k)]
    for item in sorted(batch, key=lambda b: -b[2]):
        tgt = min(bins, key=lambda x: x[0])
        tgt[0] += item[2]
        tgt[1].append(item[1])
    files = []
    for i, (_, lns) in enumerate(bins):
        sp, tp = "%s.x%d" % (sfile, i), "%s.x%d" % (tfile, i)
        with open(sp, "w") as f:
            for ln in lns:
                f.write(ln + "\n")
        files.append((sp, tp))

    def one(x):
        return vlib.sh([yx_bin(), "run", "--in", x[0], "--out", x[1]], timeout=3600)

    with ThreadPoolExecutor(max_workers=k) as ex:
        outs = list(ex.map(one, files))
    total = {"behaviours": 0, "events": 0, "fresh": 0}
    with open(tfile, "wb") as out:
        for (sp, tp), (rc, txt) in zip(files, outs):
            if rc != 0:
                raise vlib.ToolError("yx_idsets failed (rc %d): %s" % (rc, txt[-2000:]))
            try:
                x1 = json.loads(txt.strip().splitlines()[-1])
            except Exception:
                raise vlib.ToolError("yx_idsets: no summary line: %s" % txt[-500:])
            for key in total:
                total[key] += x1.get(key, 0)
            with open(tp, "rb") as f:
                shutil.copyfileobj(f, out)
            os.remove(tp)
            os.remove(sp)
    return total


_G_MEMO = {}
_G_LOCKS = {}
_G_LOCK = threading.Lock()


def g_programs(name, wd):
    """TLC enumeration of a seq family (memoised: the sampled families draw from it)"""
    with _G_LOCK:
        lk = _G_LOCKS.setdefault(name, threading.Lock())
    with lk:
        return _g_programs(name, wd)


def _g_programs(name, wd):
    if name not in _G_MEMO:
        fam = FAMILIES[name]
        g = vlib.generate(fam["module"], fam["cfg"], os.path.join(wd, "g-" + name))
        intern = {}
        progs = []
        for r in g["replay"]:
            p = []
            for o in r["h"]:
                k = _opkey(strip(o))
                p.append(intern.setdefault(k, k))
            progs.append(tuple(p))
        n = len(g["replay"])
        g["replay"] = None
        _G_MEMO[name] = (progs, {"distinct": g["distinct"], "generated": g["generated"], "depth": g["depth"], "wall": g["wall"], "replay": n})
    return _G_MEMO[name]


def run_family(name, tier, workdir, th=None):
    seed = vlib.seed()
    fam = FAMILIES[name]
    cpath = _cache_path("%s-ids-%s-%s-%d" % (th or vlib.tree_hash(), name, tier, seed))
    if os.path.exists(cpath):
        with open(cpath) as f:
            r = json.load(f)
        r["cached"] = True
        return r
    wd = os.path.join(workdir, name)
    shutil.rmtree(wd, ignore_errors=True)
    os.makedirs(wd)
    t0 = time.time()
    info = {}
    # schedules as (bid, JSON line, number of events expected roughly)
    if fam["type"] == "seq":
        progs, gstats = g_programs(name, workdir)
        groups = seq_schedules(name, fam, progs)
        info["programs"] = len(progs)
        lines = [(bid, seq_line(hdr, g), len(g)) for bid, hdr, g in groups]
        sample = dict(groups[len(groups) // 2][1], progs=[[json.loads(o) for o in p] for p in groups[len(groups) // 2][2][:3]]
                      + ["... %d programs" % len(groups[len(groups) // 2][2])]) if groups else None
        del groups
    else:
        if fam["type"] == "pairs":
            # one worker: with VIEW the printed program of a value pair is the first path TLC finds; strict
            # breadth-first search makes that choice (and therefore the schedules) reproducible
            g = vlib.generate(fam["module"], fam["cfg"], os.path.join(wd, "g"), workers=1)
            gstats = {"distinct": g["distinct"], "generated": g["generated"], "depth": g["depth"], "wall": g["wall"], "replay": len(g["replay"])}
            scheds, npairs = pair_schedules(name, fam, g["replay"])
            info["value_pairs"] = npairs
            info["values"] = len(scheds)
        elif fam["type"] == "xpair":
            progs, gstats = g_programs(fam["from"], workdir)
            gstats = dict(gstats, wall=0.0, note="programs drawn from the enumeration of " + fam["from"])
            scheds = xpair_schedules(name, FAMILIES[fam["from"]], progs, fam["na"][tier], fam["nb"], seed)
            info["program_pairs"] = sum(len(s["bs"]) for s in scheds)
        else:
            g = vlib.generate(fam["module"], fam["cfg"], os.path.join(wd, "g"))
            gstats = {"distinct": g["distinct"], "generated": g["generated"], "depth": g["depth"], "wall": g["wall"], "replay": len(g["replay"])}
            scheds = doc_schedules(name, g["replay"])
            info["schedules"] = len(scheds)
        lines = [(s["bid"], json.dumps(s), 15 * len(s.get("bs", [])) + len(s.get("steps", [])) + 10) for s in scheds]
        sample = scheds[len(scheds) // 2] if scheds else None
        if sample and "bs" in sample:
            sample = dict(sample, bs=sample["bs"][:2] + ["... %d operands" % len(sample["bs"])])
        del scheds
    by_bid = {bid: ln for bid, ln, _ in lines} if fam["type"] == "doc" else {}
    # X -> V in batches of <= ~300k events (bounds trace size and memory)
    batches, cur, cur_n = [], [], 0
    for item in lines:
        cur.append(item)
        cur_n += item[2]
        if cur_n >= 300000:
            batches.append(cur)
            cur, cur_n = [], 0
    if cur:
        batches.append(cur)
    nbeh = len(lines)
    del lines
    merged = {"viol": [], "drift": [], "cnt": {"beh": 0, "ev": 0, "checks": 0}, "lines": 0, "states": 0}
    xs, x_wall, v_wall, badj, kept = {"behaviours": 0, "events": 0, "fresh": 0}, 0.0, 0.0, {}, False
    for bi, batch in enumerate(batches):
        sfile, tfile = os.path.join(wd, "schedules%02d.ndjson" % bi), os.path.join(wd, "trace%02d.ndjson" % bi)
        with open(sfile, "w") as f:
            for _, ln, _ in batch:
                f.write(ln + "\n")
        tx = time.time()
        x1 = run_x(batch, sfile, tfile)
        tv = time.time()
        x_wall += tv - tx
        m1 = validate(tfile, os.path.join(wd, "v%02d" % bi))
        v_wall += time.time() - tv
        if x1.get("events") != m1["lines"] - m1["cnt"]["beh"]:
            raise vlib.ToolError("%s: X wrote %s events, V read %d" % (name, x1.get("events"), m1["lines"] - m1["cnt"]["beh"]))
        for k in xs:
            xs[k] += x1.get(k, 0)
        bad, refs = {}, {}
        for v in m1["viol"]:      # [bid, [failed predicates], n, reference event]
            for pred in v[1]:
                bad.setdefault((v[0], v[2]), []).append([pred, v[2]])
            if len(v) > 3 and v[3] >= 0:
                refs[(v[0], v[2])] = (v[0], v[3])
        where = locate(tfile, set(bad) | set(refs.values())) if bad else {}
        for (bid, n), preds in sorted(bad.items()):
            w = where.get((bid, n), {})
            sched = w.get("sched")
            if bid in by_bid:
                sched = json.loads(by_bid[bid])
            badj["%s@%d" % (bid, n)] = {"preds": sorted(preds), "schedule": sched, "event": w.get("event"),
                                        "ref_event": where.get(refs.get((bid, n)), {}).get("event")}
        merged["viol"] += m1["viol"]
        merged["drift"] += m1["drift"]
        for k in merged["cnt"]:
            merged["cnt"][k] += m1["cnt"][k]
        merged["lines"] += m1["lines"]
        merged["states"] += m1["states"]
        if bad and not kept:
            kept = True       # the first violating batch keeps its schedule and trace files for inspection
        else:
            for p in (tfile, sfile):
                try:
                    os.remove(p)
                except OSError:
                    pass
    drift = {}
    for d in merged["drift"]:     # [bid, kind, first event, count]
        drift[d[1]] = drift.get(d[1], 0) + d[3]
    skipped = merged["lines"] - merged["cnt"]["beh"] - merged["cnt"]["ev"]
    # drift entries are [bid, kind, first event, count]; vlib.report counts one per entry, so the summary kept in
    # "merged" carries none and check() prints the DRIFT lines with the real event counts
    merged_small = dict(merged, viol=merged["viol"][:50], drift=[], drift_entries=merged["drift"][:20])
    res = {"family": name, "type": fam["type"], "g": gstats, "info": info, "x": xs, "x_wall": x_wall, "v_wall": v_wall,
           "merged": merged_small, "nviol": len(merged["viol"]), "bad": badj, "drift_kinds": drift, "skipped": skipped,
           "behaviours": nbeh, "sample": sample, "wall": time.time() - t0, "cached": False, "engine": "idsets"}
    with open(cpath, "w") as f:
        json.dump(res, f)
    return res


def check(prop, tier):
    ev = vlib.Evidence(prop, tier)
    bt = vlib.build_harness("yx_idsets")
    wd = os.path.join(vlib.WORK, "run-%s" % prop)
    os.makedirs(wd, exist_ok=True)
    plan = TIERS[tier]
    th = vlib.tree_hash()
    # design checks, then the families; three pipelines at a time (G: 12 TLC workers for a few seconds,
    # V: single-worker TLC runs drawn from one pool of 14)
    with ThreadPoolExecutor(max_workers=4) as ex:
        for d, r in zip(plan["design"], ex.map(lambda d: run_design(d, wd, th), plan["design"])):
            ev.add_tlc(D_GROUPS[d][1], r, "design")
    order = sorted(plan["fam"], key=lambda n: (FAMILIES[n]["type"] != "seq", plan["fam"].index(n)))
    with ThreadPoolExecutor(max_workers=3) as ex:
        done = dict(zip(order, ex.map(lambda n: run_family(n, tier, wd, th), order)))
    results, fams, total_nontrivial = [], {}, 0
    for name in plan["fam"]:
        r = done[name]
        results.append(r)
        g = r["g"]
        if FAMILIES[name]["type"] != "xpair":
            ev.add_tlc(FAMILIES[name]["cfg"], {"distinct": g["distinct"], "generated": g["generated"], "depth": g["depth"],
                                               "wall": g["wall"], "replay": [0] * g["replay"]}, "G")
        ev.add_v(name, r["merged"], [], r["v_wall"])
        total_nontrivial += r["x"].get("events", 0) - r["x"].get("fresh", 0)
        ev.cov["stages"][-1].update({"violating": len(r["bad"]), "skipped_after_failure": r["skipped"], "drift_kinds": r["drift_kinds"]})
        fams[name] = dict(r["info"], type=r["type"], exhaustive=EXHAUSTIVE_TEXT[r["type"]], cfg=FAMILIES[name].get("cfg", ""),
                          behaviours=r["behaviours"], events=r["x"].get("events", 0), violating_events=len(r["bad"]),
                          skipped_after_failure=r["skipped"], x_wall_s=round(r["x_wall"], 1), v_wall_s=round(r["v_wall"], 1))
        if r["sample"]:
            ev.sample(r["sample"])
        ndrift = sum(r["drift_kinds"].values())
        ev.cov["drift"] += ndrift
        ev.cov["stages"][-1]["drift"] = ndrift
        for k, n in sorted(r["drift_kinds"].items()):
            print("DRIFT property=%s %s at %d events  # family %s: equal values whose recorded difference the property does not demand"
                  % (prop, k, n, name))
    # every event is a distinct (program | operand pair, operation) by construction (the sampled xpair families may
    # repeat a pair); trivial = events that only create a fresh empty value
    ev._nontrivial = range(total_nontrivial)
    ev.cov["families"] = fams
    ev.cov["exhaustive"] = True
    ev.cov["rule"] = ("an evaluation = one recorded event (a construction step, a binary operation, a conversion, a comparison or a "
                      "document call) whose result TLC recomputes with the set algebra of IdSets.tla and compares with the recorded "
                      "representation (C16_Points, C16_Canonical[Attrs], C16_Query, C16_RoundTrip, C16_EqualRepr[Cmp], C16_EqualEncoding, "
                      "C16_DeleteSetExact*). Exhaustive within the stated universes for the families of type seq (every construction "
                      "program), pairs (every ordered pair of reachable values x every operation) and doc; the families of type xpair "
                      "are a seeded sample of program pairs and are not exhaustive. Events whose operand already violated a predicate "
                      "are skipped and counted as skipped_after_failure.")
    ev.cov["harness_build_s"] = round(bt, 1)
    ev.assumptions = ["TLC, CommunityModules", "harness adapter harness/src/idsets.rs records what iter()/contains()/==/encode/decode return",
                      "hook H1 (yrs::verif::blocks via obs::structural) reports deleted / collected units faithfully (document family)",
                      "IdMap: attributes are two ContentAttribute<String> values sharing one name; inserting an EMPTY attribute list "
                      "(a no-op in the code, meaning undetermined by the property) is not exercised"]
    rc = vlib.report(prop, ev, results, PREFIXES)
    ev.write()
    return rc


def replay(path):
    """Re-executes the schedule of a replay file (written by vlib.report for engine "idsets") on the current
    tree, validates it and prints every recorded event with the predicates TLC found false."""
    with open(path) as f:
        doc = json.load(f)
    sched = doc.get("schedule")
    if not sched:
        print("replay file holds no schedule")
        return vlib.EXIT_TOOL
    vlib.build_harness("yx_idsets")
    wd = os.path.join(vlib.WORK, "replay-run")
    shutil.rmtree(wd, ignore_errors=True)
    os.makedirs(wd)
    sfile, tfile = os.path.join(wd, "s.ndjson"), os.path.join(wd, "t.ndjson")
    sched = {k: v for k, v in sched.items() if k not in ("prog", "at", "note")}
    sched["bid"] = sched["bid"].split("@")[0]
    with open(sfile, "w") as f:
        f.write(json.dumps(sched) + "\n")
    run_x([(sched["bid"], json.dumps(sched), 1)], sfile, tfile)
    merged = validate(tfile, os.path.join(wd, "v"))
    failed = {v[2]: sorted(v[1]) for v in merged["viol"]}
    with open(tfile) as f:
        for ln in f:
            e = json.loads(ln)
            if e.get("k") == "reset":
                continue
            obs = e.get("obs", {})
            what = {k: e[k] for k in ("k", "reg", "d", "op", "arg", "eqs", "eq", "sub", "lst", "dst", "outcome") if k in e}
            seen = {k: obs[k] for k in ("rep", "empty", "len", "has", "enc1", "ds", "dead", "gone") if k in obs}
            print("event %d: %s\n    observed %s" % (e["n"], json.dumps(what), json.dumps(seen)))
            if e["n"] in failed:
                print("    VIOLATED: %s" % ", ".join(failed[e["n"]]))
    print("violating events: %d, drift: %s" % (len(failed), merged["drift"]))
    return vlib.EXIT_VIOLATION if failed else vlib.EXIT_OK


def manifest_entries():
    return [{
        "property_id": "C16", "quick_cmd": "./check C16 --tier quick", "thorough_cmd": "./check C16 --tier thorough",
        "evidence_file": "evidence/C16.json", "replay_cmd_template": "./check replay {path}", "engine": "idsets",
        "level_claimed": {"category": "model_checking",
                          "text": ("IdSets.tla gives every IdSet / IdMap operation its set-theoretic meaning; TLC enumerates every construction "
                                   "program of <= 3 (thorough: 4) range insertions / removals over 2 clients x clocks 0..4 (IdSet) and 1 client x "
                                   "clocks 0..4 x 2 attributes (IdMap), every ordered pair of reachable values x every binary operation, "
                                   "conversion and query, and small document schedules; each is executed on the real library and TLC validates "
                                   "the recorded range lists, query answers, equality results, v1/v2 encodings and decode round-trips "
                                   "(C16_Points, C16_Canonical, C16_EqualRepr, C16_EqualEncoding, C16_RoundTrip, C16_Query, C16_DeleteSetExact)."),
                          "design_ref": "DESIGN.md section 6/C16"},
        "level_note": ("Trusted: TLC + CommunityModules; harness adapter harness/src/idsets.rs; hook H1 for the document family. Small scope: "
                       "exhaustive only within the universes of the G configurations (spec/G_ids_*.cfg); program pairs beyond value pairs are a "
                       "seeded sample. The interval algorithms of ids.rs are not transcribed - the oracle is the set algebra."),
        "technique": "TLA+ spec (IdSets/MC_IdSets/MC_IdSetsDoc) model-checked with TLC; TLC-generated programs replayed on real yrs; recorded traces validated by TLC against Trace_IdSets",
    }]
