"""Structural patterns identifying known findings (see known_findings.json). Each function gets the
info dict of one violating behaviour: {"preds": [[pred, event ordinal]], "schedule": ..., "event": failing trace event}."""


def _have(o):
    h = set()
    for c in o.get("lst", {}).values():
        h.update(tuple(x) for x in c)
    h.update(tuple(x) for x in o.get("gone", []))
    return h


def c06_content_beyond_sender_gap_stashed(info):
    """C06_Dominates fails only for units that the SENDER had integrated beyond one of its own gaps
    (clock >= sender's skip-aware state vector entry) and that the receiver kept in its stash."""
    e = info.get("event") or {}
    if e.get("k") != "sync" or "fobs" not in e:
        return False
    f, t = e["fobs"], e["obs"]
    missing = _have(f) - _have(t)
    if not missing:
        return False
    fsv = {c: k for c, k in f.get("sv", [])}
    fholes = {c for c, _, _ in f.get("holes", [])}
    pend = {tuple(x) for x in t.get("pend", [])}
    return all(m in pend and m[0] in fholes and m[1] >= fsv.get(m[0], 0) for m in missing)


def redo_map_entry_origin_in_old_parent(info):
    """undo/redo re-created a map entry (XML attribute / nested map value) inside a RE-CREATED parent but kept the
    left neighbour (origin) of the entry's old chain in the old parent: the new item's origin lies in another
    container than the item itself (seen in the repository test undo::test::special_deletion_case)."""
    e = info.get("event") or {}
    if e.get("k") != "txn":
        return False
    lst = (e.get("obs") or {}).get("lst", {})
    where = {}
    for c, ids in lst.items():
        for i in ids:
            where.setdefault(tuple(i), c)
    for u in (e.get("upd") or {}).get("ins", []):
        if u.get("sub") and tuple(u["o"]) != (0, 0):
            here = where.get(tuple(u["id"]))
            if here is not None and here != u["cont"] and here.endswith("|" + u["sub"]):
                return True
    return False


try:
    from wire_patterns import *  # noqa: F401,F403  (patterns of the wire engine)
except ImportError:
    pass

try:
    from idsets_pipe import c16_idset_empty_client_entry, c16_idmap_duplicate_attrs, c16_idmap_encoding_arc_identity  # noqa: F401
except ImportError:
    pass
try:
    from quote_patterns import *  # noqa: F401,F403
except ImportError:
    pass

try:
    from undo_patterns import *  # noqa: F401,F403
except ImportError:
    pass
