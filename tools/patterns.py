"""Structural patterns identifying known findings (see known_findings.json). Each function gets the
info dict of one violating behaviour: {"preds": [[pred, event ordinal]], "schedule": ..., "event": failing trace event}."""


def _have(o):
    h = set()
    for c in o.get("lst", {}).values():
        h.update(tuple(x) for x in c)
    h.update(tuple(x) for x in o.get("gone", []))
    return h


def c06_content_beyond_sender_gap_stashed(info):
    """C06_Dominates fails only for units that the SENDER had integrated beyond one of its own gaps
    (clock >= sender's skip-aware state vector entry) and that the receiver kept in its stash."""
    e = info.get("event") or {}
    if e.get("k") != "sync" or "fobs" not in e:
        return False
    f, t = e["fobs"], e["obs"]
    missing = _have(f) - _have(t)
    if not missing:
        return False
    fsv = {c: k for c, k in f.get("sv", [])}
    fholes = {c for c, _, _ in f.get("holes", [])}
    pend = {tuple(x) for x in t.get("pend", [])}
    return all(m in pend and m[0] in fholes and m[1] >= fsv.get(m[0], 0) for m in missing)


try:
    from wire_patterns import *  # noqa: F401,F403  (patterns of the wire engine)
except ImportError:
    pass

try:
    from idsets_pipe import c16_idset_empty_client_entry, c16_idmap_duplicate_attrs, c16_idmap_encoding_arc_identity  # noqa: F401
except ImportError:
    pass
try:
    from quote_patterns import *  # noqa: F401,F403
except ImportError:
    pass
