"""Replay support for the replicated part of C19 (engine name "ffiy": Yata schedules executed with C-driven replicas).
The check itself lives in ffi_pipe.py; this module only tells tools/replay.py how to re-execute such a behaviour."""
import ffi_pipe

PROPS = []
REPLAY = ffi_pipe.REPLAY_REPL
