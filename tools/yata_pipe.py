"""G -> X -> V pipeline for the Yata specification family (C01 C02 C04 C05 C06 C07 C08 C15 C17).
The rich-text stage (`run_all(..., kind="rich")`: formatting marks, rendered attributes, automatic formatting clean-up varied
per replica; spec/Rich.tla) runs for every property of this engine and is also pulled in by seqapi_pipe for C03 / C17."""
import hashlib
import json
import os
import random
import re
import shutil
import time

import vlib

# name -> (MC module, G config, options)
G_GROUPS = {
    "seq3": ("MC_Yata", "G_seq3.cfg", {}),
    "map3": ("MC_Yata", "G_map3.cfg", {}),
    "nesta3": ("MC_Yata", "G_nesta3.cfg", {"filter": "nested", "sample": {"quick": 2500, "thorough": 30000}}),
    "nestm3": ("MC_Yata", "G_nestm3.cfg", {"filter": "nested", "sample": {"quick": 2500, "thorough": 30000}}),
    "alg3": ("MC_Yata", "G_alg3.cfg", {"filter": "merged", "sample": {"quick": 3000, "thorough": 40000}}),
    "algm3": ("MC_Yata", "G_algm3.cfg", {"filter": "merged", "sample": {"quick": 2000, "thorough": 40000}}),
    "seq4": ("MC_Yata", "G_seq4.cfg", {}),
    "map4": ("MC_Yata", "G_map4.cfg", {}),
    # rich text (spec/Rich.tla): a two-unit text, then every two / three free operations ins / del / FORMAT of two authors
    "fmt3": ("MC_YataFmt", "G_fmt3.cfg", {"filter": "fmt", "sample": {"quick": 800, "thorough": 5000}}),
    # three free operations: 8.8 M states after 25 min of exhaustive search (measured), hence seeded TLC simulation (thorough tier only)
    "fmt4": ("MC_YataFmt", "G_fmt4.cfg", {"filter": "fmt", "sample": {"quick": 1500, "thorough": 5000}, "simulate": {"quick": 400, "thorough": 2500}}),
}
RICH_FAMILIES = ["fmtdup", "fmtovl", "fmtdel", "fmtovw", "fmtins", "fmthole"]
D_GROUPS = {
    "d_seq": ("MC_Yata", "D_seq.cfg"),
    "d_map": ("MC_Yata", "D_map.cfg"),
    "d_nest": ("MC_Yata", "D_nest.cfg"),
    "d_seq4": ("MC_Yata", "D_seq4.cfg"),
    "d_map4": ("MC_Yata", "D_map4.cfg"),
    "d_nest4": ("MC_Yata", "D_nest4.cfg"),
    # transcription of the automatic formatting clean-up (Rich.tla): every list of <= 5 / 6 items
    "d_rich": ("MC_Rich", "D_rich5.cfg"),
    "d_rich6": ("MC_Rich", "D_rich6.cfg"),
}
TIERS = {
    "quick": {"design": ["d_seq", "d_map", "d_nest", "d_rich"], "gen": ["seq3", "map3", "nesta3", "nestm3", "alg3", "algm3", "script:gapdel", "script:gapdep", "script:gappar", "script:gapkey"], "random": 3,
              "rich": ["fmt3"] + ["script:" + f for f in RICH_FAMILIES], "rich_random": 1},
    "thorough": {"design": ["d_seq", "d_map", "d_nest", "d_seq4", "d_map4", "d_nest4", "d_rich", "d_rich6"],
                 "gen": ["seq3", "map3", "nesta3", "nestm3", "alg3", "algm3", "script:gapdel", "script:gapdep", "script:gappar", "script:gapkey", "seq4", "map4"], "random": 30,
                 "rich": ["fmt3", "fmt4"] + ["script:" + f for f in RICH_FAMILIES], "rich_random": 4},
}


def _h(*a):
    return int(hashlib.sha256(("|".join(str(x) for x in a)).encode()).hexdigest()[:12], 16)


def is_rich(gname):
    return gname.startswith("fmt") or gname.startswith("script:fmt")


def make_schedules(hists, gname, seed, authors=(1, 2)):
    """Turns TLC histories into executable schedules: adds the configuration (gc per replica, followers),
    a second observer (9) that receives every update in emission order, and the closing syncs.
    Rich-text groups: the automatic formatting clean-up (`cf`) is varied per replica like gc, the observation
    carries the attributed diff (`rich`)."""
    out = []
    for idx, h in enumerate(hists):
        bid = "%s-%06d" % (gname, idx)
        rnd = random.Random(_h(seed, bid))
        auth = tuple(sorted({s["r"] for s in h if s["a"] in ("ins", "del", "set", "rem", "fmt", "insa")} | set(authors)))
        nupd = sum(1 for s in h if s["a"] in ("ins", "del", "set", "rem", "fmt", "insa"))
        steps = list(h)
        if gname.startswith("alg") and nupd >= 3 and idx % 2 == 1:
            # observer 9 receives everything as ONE nested merge: groups with duplicated heads, gaps and fillers in a seeded order
            ids = list(range(1, nupd + 1))
            groups = [[ids[0]], [ids[0], ids[-1]]] + [[i] for i in ids[1:-1]]
            if rnd.random() < 0.5:
                groups = [[ids[0], ids[1]], [ids[0], ids[-1]]] + [[i] for i in ids[2:-1]] + ([[ids[1]]] if nupd == 3 else [])
            rnd.shuffle(groups)
            steps.append({"a": "dlv", "r": 9, "u": [i for g in groups for i in g], "shape": "groups:" + ",".join(str(len(g)) for g in groups), "diff": False})
        else:
            for i in range(1, nupd + 1):
                steps.append({"a": "dlv", "r": 9, "u": [i]})
        # document-free state vector of merged updates (C08)
        steps.append({"a": "svu", "u": list(range(1, nupd + 1))})
        if nupd > 1:
            steps.append({"a": "svu", "u": list(range(1, nupd // 2 + 1))})
        # closing exchange: every author catches up from observer 8 (diff / full state alternate)
        for j, a in enumerate(auth):
            steps.append({"a": "sync", "f": 8, "t": a, "how": "diff" if (idx + j) % 2 == 0 else "state", "sv": "own", "closing": True})
        if is_rich(gname):
            # the clean-up deletions of a replica travel in its state only: observer 8 collects what the authors cleaned,
            # then everybody (observer 9 included) catches up from it once more
            for a in auth:
                steps.append({"a": "sync", "f": a, "t": 8, "how": "state", "sv": "own", "closing": True})
            for j, a in enumerate((9,) + auth):
                steps.append({"a": "sync", "f": 8, "t": a, "how": "state" if (idx + j) % 2 == 0 else "diff", "sv": "own", "closing": True})
        gcs = {a: rnd.random() < 0.7 for a in auth}
        reps = [{"id": a, "gc": gcs[a]} for a in auth] + [{"id": 8, "gc": True}, {"id": 9, "gc": False}]
        cfg = {"replicas": reps, "followers": idx % 3 == 0, "offset": "utf16" if idx % 2 == 0 else "bytes"}
        if is_rich(gname):
            # own random stream: the draws above stay what they were
            r2 = random.Random(_h(seed, bid, "cf"))
            on = {8: r2.random() < 0.75, 9: r2.random() < 0.25}
            for a in auth:
                on[a] = r2.random() < 0.5
            for rp in reps:
                rp["cf"] = on[rp["id"]]
            cfg["rich"] = True
        out.append({"bid": bid, "cfg": cfg, "steps": steps})
    return out


def nontrivial(sched):
    """A behaviour is non-trivial when some update reaches a replica out of emission order, twice,
    merged, or while the replica has edits of its own that the sender had not seen."""
    seen = {}
    for s in sched["steps"]:
        if s["a"] == "dlv":
            last = seen.get(s["r"], 0)
            if len(s["u"]) > 1 or s["u"][0] != last + 1:
                return True
            seen[s["r"]] = s["u"][0]
        if s["a"] in ("sync", "relay") and not s.get("closing"):
            return True
    return False


def _cache_path(*parts):
    cdir = os.path.join(vlib.WORK, "cache")
    os.makedirs(cdir, exist_ok=True)
    return os.path.join(cdir, "-".join(str(p) for p in parts) + ".json")


SCRIPT_SAMPLE = {"quick": 120, "thorough": 2500}
RICH_SCRIPT_SAMPLE = {"quick": 40, "thorough": 150}


def gen_script_family(fam, tier, workdir):
    """G stage for a scripted family (tools/gen_scripts.py): one TLC run per script (in parallel); TLC enumerates the
    exchanges among authors and every (merged) delivery order; a seeded sample per script is kept."""
    from concurrent.futures import ThreadPoolExecutor
    seed = vlib.seed()
    with open(os.path.join(vlib.SPEC, "scripts_index.json")) as f:
        cfgs = json.load(f)[fam]
    if fam.startswith("fmt") and tier == "quick":
        # quick tier: every second rich-text script (one TLC run each; the families list their variants in pairs), and none of
        # the five-operation scripts (17 k behaviours, 20 s of TLC each); the thorough tier runs all 64
        def nops(cfg):
            with open(os.path.join(vlib.SPEC, cfg)) as fh:
                return int(re.search(r"MaxOps = (\d+)", fh.read()).group(1))
        cfgs = [c for i, c in enumerate(cfgs) if i % 2 == 0 and nops(c) <= 4]

    def one(cfg):
        g = vlib.generate("MC_YataScript", cfg, os.path.join(workdir, "script-" + cfg[:-4], "g"), workers=2, heap="2g", timeout=900)
        h = g["replay"]
        h.sort(key=lambda x: json.dumps(x, sort_keys=True))
        n = (RICH_SCRIPT_SAMPLE if fam.startswith("fmt") else SCRIPT_SAMPLE)[tier]
        total = len(h)
        if len(h) > n:
            h = random.Random(_h(seed, cfg)).sample(h, n)
        return h, {"distinct": g["distinct"], "generated": g["generated"], "depth": g["depth"], "wall": g["wall"], "replay": total}

    with ThreadPoolExecutor(max_workers=max(1, min(6, int(os.environ.get("VERIF_PAR", "12")) // 2))) as ex:
        res = list(ex.map(one, cfgs))
    hists = [h for r in res for h in r[0]]
    stats = {"distinct": sum(r[1]["distinct"] for r in res), "generated": sum(r[1]["generated"] for r in res),
             "depth": max(r[1]["depth"] for r in res), "wall": sum(r[1]["wall"] for r in res), "replay": sum(r[1]["replay"] for r in res),
             "scripts": len(cfgs)}
    return hists, stats


def gen_hists(gname, tier, workdir):
    """G stage for one generator group: TLC-enumerated histories (filtered / sampled as configured).
    Returns (histories, stats); cached by tree hash."""
    seed = vlib.seed()
    cpath = _cache_path(vlib.tree_hash(), "G", gname, tier, seed)
    if os.path.exists(cpath):
        with open(cpath) as f:
            d = json.load(f)
        return d["hists"], d["stats"]
    if gname.startswith("script:"):
        hists, stats = gen_script_family(gname[7:], tier, workdir)
        with open(cpath, "w") as f:
            json.dump({"hists": hists, "stats": stats}, f)
        return hists, stats
    module, cfg, opts = G_GROUPS[gname]
    if opts.get("simulate"):
        # random walks through the generator model (each walk is a complete behaviour; TLC prints it in its final state)
        g = vlib.run_tlc(module, cfg, os.path.join(workdir, gname, "g"), workers=2, timeout=1500, heap="3g",
                         simulate="num=%d" % opts["simulate"][tier], extra=["-depth", "24", "-seed", str(_h(seed, gname) % (1 << 31))])
        if g["error"] and not g["replay"]:
            raise vlib.ToolError("G simulate %s failed: %s\n%s" % (gname, g["error"], g.get("tail", "")))
        uniq = {json.dumps(h, sort_keys=True): h for h in g["replay"]}
        g["replay"] = list(uniq.values())
    else:
        g = vlib.generate(module, cfg, os.path.join(workdir, gname, "g"))
    hists = g["replay"]
    total = len(hists)
    if opts.get("filter") == "nested":
        # histories without a nested value repeat what the flat groups already enumerate
        hists = [h for h in hists if any(s.get("k") in ("A", "M") for s in h)]
    if opts.get("filter") == "merged":
        hists = [h for h in hists if any(s["a"] == "dlv" and len(s["u"]) > 1 for s in h)]
    if opts.get("filter") == "fmt":
        hists = [h for h in hists if any(s["a"] == "fmt" for s in h)]
    hists.sort(key=lambda h: json.dumps(h, sort_keys=True))
    n = opts.get("sample", {}).get(tier)
    if n and len(hists) > n:
        hists = random.Random(_h(seed, gname)).sample(hists, n)
    stats = {"distinct": g["distinct"], "generated": g["generated"], "depth": g["depth"], "wall": g["wall"], "replay": total}
    with open(cpath, "w") as f:
        json.dump({"hists": hists, "stats": stats}, f)
    return hists, stats


def run_group(gname, tier, workdir, engine="yata", transform=None, trace=("Trace_Yata", "Trace_Yata.cfg"), repeat=1):
    """G -> X -> V for one generator group. `transform(schedules, seed, tier) -> schedules` lets an extension
    engine add its own configuration and steps. Returns a result dict (cached by tree hash)."""
    seed = vlib.seed()
    cpath = _cache_path(vlib.tree_hash(), engine, gname, tier, seed)
    if os.path.exists(cpath):
        with open(cpath) as f:
            r = json.load(f)
        r["cached"] = True
        return r
    wd = os.path.join(workdir, engine + "-" + gname)
    shutil.rmtree(wd, ignore_errors=True)
    os.makedirs(wd)
    t0 = time.time()
    hists, gstats = gen_hists(gname, tier, workdir)
    scheds = make_schedules(hists, gname, seed)
    if transform:
        scheds = transform(scheds, seed, tier)
    return _xv(gname, scheds, wd, cpath, gstats, t0, trace=trace, engine=engine, repeat=repeat)


def _xv(gname, scheds, wd, cpath, gstats, t0, rand=None, trace=("Trace_Yata", "Trace_Yata.cfg"), engine="yata", repeat=1):
    sfile = os.path.join(wd, "schedules.ndjson")
    tfile = os.path.join(wd, "trace.ndjson")
    tx = time.time()
    if rand is None:
        # a behaviour that kills the process (memory fault in the library) becomes a `crash` event, not a tool error
        xs = vlib.run_x_sched(scheds, sfile, tfile, ["--seed", str(vlib.seed()), "--repeat", str(repeat)])
    else:
        rand = list(rand)
        nb = 10
        if "--behaviours" in rand:
            k = rand.index("--behaviours")
            nb = int(rand[k + 1])
            del rand[k:k + 2]
        scheds, ncr = vlib.run_x_random(sfile, tfile, rand, nb)
        xs = {"behaviours": len(scheds), "crashes": ncr}
    tv = time.time()
    merged = vlib.validate(trace[0], trace[1], tfile, os.path.join(wd, "v"), parallel=10)
    by_bid = {s["bid"]: s for s in scheds}
    bad = {}
    for bid, pred, line in merged["viol"]:
        bad.setdefault(bid, []).append([pred, line])
    nt = [hashlib.sha256(json.dumps(s["steps"], sort_keys=True).encode()).hexdigest()[:16] for s in scheds if nontrivial(s)]
    # attach the failing event of every violating behaviour (for known-finding patterns and replay)
    if bad:
        evs, cur = {}, None
        with open(tfile) as f:
            for ln in f:
                if ln.startswith('{"bid":'):
                    cur = json.loads(ln)["bid"]
                    cur = cur if cur in bad else None
                    if cur:
                        evs[cur] = []
                elif cur:
                    evs[cur].append(ln)
        for b, preds in bad.items():
            k = min(p[1] for p in preds)
            if b in evs and 1 <= k <= len(evs[b]):
                by_bid.setdefault(b, {})["_event"] = json.loads(evs[b][k - 1])
    res = {"group": gname, "engine": engine, "g": gstats, "x": xs, "x_wall": tv - tx, "v_wall": time.time() - tv, "merged": merged,
           "bad": {b: {"preds": p, "schedule": {k: v for k, v in by_bid.get(b, {}).items() if k != "_event"},
                       "event": by_bid.get(b, {}).get("_event")} for b, p in bad.items()},
           "nontrivial": sorted(set(nt)), "samples": scheds[:1] + scheds[len(scheds) // 2:len(scheds) // 2 + 1],
           "wall": time.time() - t0, "cached": False}
    with open(cpath, "w") as f:
        json.dump(res, f)
    if not bad:
        for p in (tfile, sfile):
            try:
                os.remove(p)
            except OSError:
                pass
    return res


def run_random(ix, tier, workdir, engine="yata", ext=(), gc_off=False, trace=("Trace_Yata", "Trace_Yata.cfg"), behaviours=None, ops=None, wide=0):
    seed = vlib.seed()
    gname = "rand%03d" % ix
    cpath = _cache_path(vlib.tree_hash(), engine, gname, tier, seed)
    if os.path.exists(cpath):
        with open(cpath) as f:
            r = json.load(f)
        r["cached"] = True
        return r
    wd = os.path.join(workdir, engine + "-" + gname)
    shutil.rmtree(wd, ignore_errors=True)
    os.makedirs(wd)
    t0 = time.time()
    rand = ["--seed", str(_h(seed, ix, engine) % (1 << 31)), "--behaviours", str(behaviours or (150 if tier == "quick" else 400)),
            "--ops", str(ops or (12 if ix % 2 == 0 else 40)), "--ext", ",".join(ext), "--gc-off", "1" if gc_off else "0"]
    if wide:
        rand += ["--wide", str(wide)]  # every wide-th behaviour: characters outside the BMP in the texts
    return _xv(gname, None, wd, cpath, None, t0, rand=rand, trace=trace, engine=engine)


def run_design(dname, tier, workdir):
    cpath = _cache_path(vlib.tree_hash(), "D", dname)
    if os.path.exists(cpath):
        with open(cpath) as f:
            r = json.load(f)
        r["cached"] = True
        return r
    module, cfg = D_GROUPS[dname]
    r = vlib.design_check(module, cfg, os.path.join(workdir, dname))
    r = {k: r[k] for k in ("distinct", "generated", "depth", "wall", "coverage")}
    r["cached"] = False
    with open(cpath, "w") as f:
        json.dump(r, f)
    return r


# ------------------------------------------------------------------------------------------------
# plugin interface used by ./check and tools/mkmanifest.py

PREFIXES = {
    "C01": ["C01_"], "C02": ["C02_"], "C04": ["C04_"], "C05": ["C05_"], "C06": ["C06_"], "C07": ["C07_"], "C08": ["C08_"], "C15": ["C15_"],
}
PROPS = sorted(PREFIXES)


def rich_stats(scheds, tfile):
    """Evidence only (no verdict): how many formatting behaviours ran, with how many clean-up replicas, and how often the
    clean-up really deleted marks (deletions in the update event of a delivery / sync that the payload did not carry)."""
    st = {"behaviours": len(scheds), "with_format_steps": 0, "format_steps": 0, "with_cleanup_replica": 0, "cleanup_on_replicas": 0,
          "replicas": 0, "cleanup_events": 0, "marks_cleaned": 0, "behaviours_with_cleanup": 0, "inexecutable": 0}
    for s in scheds:
        nf = sum(1 for x in s["steps"] if x.get("a") in ("fmt", "insa"))
        st["format_steps"] += nf
        st["with_format_steps"] += 1 if nf else 0
        on = sum(1 for r in s["cfg"]["replicas"] if r.get("cf"))
        st["cleanup_on_replicas"] += on
        st["replicas"] += len(s["cfg"]["replicas"])
        st["with_cleanup_replica"] += 1 if on else 0
    cf, marks, hit = {}, set(), False
    with open(tfile) as f:
        for ln in f:
            e = json.loads(ln)
            k = e.get("k")
            if k == "reset":
                st["behaviours_with_cleanup"] += 1 if hit else 0
                cf, marks, hit = {r["id"]: bool(r.get("cf")) for r in e["cfg"]["replicas"]}, set(), False
                continue
            if k == "inexec":
                st["inexecutable"] += 1
                continue
            for part in ("upd", "emit", "full"):
                for u in (e.get(part) or {}).get("ins", []):
                    if u.get("kind") == "fmt":
                        marks.add(tuple(u["id"]))
            if k in ("dlv", "sync") and cf.get(e.get("r", e.get("t"))):
                got = {tuple(x) for x in e["upd"]["del"]} | {tuple(x) for x in (e.get("full") or {}).get("del", [])}
                cl = {tuple(x) for x in e["emit"]["del"]} & marks - got
                if cl:
                    st["cleanup_events"] += 1
                    st["marks_cleaned"] += len(cl)
                    hit = True
    st["behaviours_with_cleanup"] += 1 if hit else 0
    return st


def run_all(tier, workdir, kind="all"):
    """All generator groups and the seeded random runs of the tier: G per group, then ONE X run per kind and ONE V run
    over the concatenated trace (saves the per-run JVM overhead). Cached by tree hash.
    kind = "rich": the rich-text groups (formatting marks, automatic clean-up varied per replica) and the rich random runs."""
    seed = vlib.seed()
    cpath = _cache_path(vlib.tree_hash(), "yata", kind + os.environ.get("VERIF_ONLY_GROUPS", ""), tier, seed)
    if os.path.exists(cpath):
        with open(cpath) as f:
            r = json.load(f)
        r["cached"] = True
        return r
    plan = dict(TIERS[tier])
    if kind == "rich":
        plan["gen"], plan["random"] = plan["rich"], plan["rich_random"]
    only = os.environ.get("VERIF_ONLY_GROUPS")  # development aid (mutant triage): restrict to some groups, no random runs
    if only:
        plan["gen"] = [g for g in only.split(",") if g and g != "richrandom"]
        plan["random"] = 1 if "richrandom" in only.split(",") else 0
        kind = "rich" if plan["random"] else kind
    t0 = time.time()
    wd = os.path.join(workdir, "yata-" + kind)
    shutil.rmtree(wd, ignore_errors=True)
    os.makedirs(wd)
    gstats, scheds = [], []
    for g in plan["gen"]:
        hists, st = gen_hists(g, tier, workdir)
        sc = make_schedules(hists, g, seed)
        for idx, x in enumerate(sc):
            if idx % 3 == 2:
                # every third behaviour (both offset kinds): texts mix in characters outside the BMP (cfg `wide` of the executor)
                x["cfg"]["wide"] = True
        st = dict(st)
        st["group"], st["used"] = g, len(sc)
        gstats.append(st)
        scheds += sc
    sfile, tfile = os.path.join(wd, "schedules.ndjson"), os.path.join(wd, "trace.ndjson")
    tx = time.time()
    xs = vlib.run_x_sched(scheds, sfile, tfile, ["--seed", str(seed)])
    nrand = 0
    for i in range(plan["random"]):
        rs, rt = os.path.join(wd, "rs%d.ndjson" % i), os.path.join(wd, "rt%d.ndjson" % i)
        rargs = ["--seed", str(_h(seed, i, "yata") % (1 << 31)),
                 "--ops", str((12, 40, 30)[i % 3]), "--ext", "", "--gc-off", "0",
                 "--rich", "1" if i % 3 == 2 else "0",  # every third run: XML trees, formatting marks, embeds, sub-document references
                 "--wide", "3"]  # every third behaviour of every run: characters outside the BMP (surrogate pairs) in the texts
        if kind == "rich":
            # formatted text on every behaviour, clean-up on for a seeded half of the replicas
            rargs = ["--seed", str(_h(seed, i, "yata-rich") % (1 << 31)), "--ops", str((30, 14, 45)[i % 3]), "--ext", "", "--gc-off", "0", "--cf", "1",
                     "--wide", "3"]
        rsch, ncr = vlib.run_x_random(rs, rt, rargs, 150 if tier == "quick" else 400)
        xs["crashes"] = xs.get("crashes", 0) + ncr
        nrand += len(rsch)
        scheds += rsch
        with open(tfile, "a") as out, open(rt) as f:
            shutil.copyfileobj(f, out)
        os.remove(rs)
        os.remove(rt)
    tv = time.time()
    rstats = rich_stats(scheds, tfile) if kind == "rich" else None
    merged = vlib.validate("Trace_Yata", "Trace_Yata.cfg", tfile, os.path.join(wd, "v"), parallel=8)
    by_bid = {s["bid"]: s for s in scheds}
    bad = {}
    for bid, pred, line in merged["viol"]:
        bad.setdefault(bid, []).append([pred, line])
    events = {}
    if bad:
        evs, cur = {}, None
        with open(tfile) as f:
            for ln in f:
                if ln.startswith('{"bid":'):
                    cur = json.loads(ln)["bid"]
                    cur = cur if cur in bad else None
                    if cur:
                        evs[cur] = []
                elif cur:
                    evs[cur].append(ln)
        for b, preds in bad.items():
            k = min(p[1] for p in preds)
            if b in evs and 1 <= k <= len(evs[b]):
                events[b] = json.loads(evs[b][k - 1])
    nt = [hashlib.sha256(json.dumps(s["steps"], sort_keys=True).encode()).hexdigest()[:16] for s in scheds if nontrivial(s)]
    res = {"group": "yata-" + kind, "engine": "yata", "gstats": gstats, "x": xs, "random_behaviours": nrand, "rich": rstats,
           "x_wall": tv - tx, "v_wall": time.time() - tv, "merged": merged,
           "bad": {b: {"preds": p, "schedule": by_bid.get(b), "event": events.get(b)} for b, p in bad.items()},
           "nontrivial": sorted(set(nt)), "samples": [scheds[i] for i in (0, len(scheds) // 3, (2 * len(scheds)) // 3) if scheds],
           "wall": time.time() - t0, "cached": False}
    with open(cpath, "w") as f:
        json.dump(res, f)
    if not bad:
        for p in (tfile, sfile):
            try:
                os.remove(p)
            except OSError:
                pass
    return res


def run_suite(tier, workdir):
    """Conformance in the other direction: the repository's OWN test-suite is run with hook H3 switched on (scratch target
    directory outside /repo and /verif, removed afterwards); every committed transaction of every test becomes a `txn`
    event (one behaviour per test) and TLC validates the property-level transition constraints and cross-replica
    invariants of Trace_Yata on it."""
    import tempfile
    seed = vlib.seed()
    cpath = _cache_path(vlib.tree_hash(), "yata", "suite", tier, seed)
    if os.path.exists(cpath):
        with open(cpath) as f:
            r = json.load(f)
        r["cached"] = True
        return r
    vlib.build_harness("yx_suite")
    t0 = time.time()
    scratch = tempfile.mkdtemp(prefix="yx-suite-", dir="/tmp")
    try:
        env = {"RUSTFLAGS": "--cfg y_crdt_y_crdt_verif --check-cfg cfg(y_crdt_y_crdt_verif) --cap-lints allow",
               "CARGO_TARGET_DIR": os.path.join(scratch, "target"), "YRS_VERIF_TRACE": os.path.join(scratch, "raw"), "CARGO_NET_OFFLINE": "true"}
        cmd = ("cargo test -p yrs --features weak --lib --offline -- --skip test_medium_data_set --skip edit_trace "
               "--skip test_small_data_set --skip fuzzy_test_300 2>&1 | tail -40")
        rc, out = vlib.sh(cmd, cwd=vlib.REPO, env=env, timeout=3000)
        died = ""
        if "test result:" not in out:
            if "error: could not compile" in out or "error[E" in out:
                raise vlib.ToolError("test-suite build with hooks on failed:\n" + out[-1500:])
            # the test process died (signal) before reporting: the transactions recorded so far are still behaviours of the
            # code under test (prefixes of the tests that were running). Try once more for complete traces, else go on with
            # what was recorded - the death of a repository test process is reported as a note, never as a tool error
            died = out[-400:]
            for fn in os.listdir(scratch):
                if fn.startswith("raw."):
                    os.rename(os.path.join(scratch, fn), os.path.join(scratch, "first-" + fn))
            rc, out = vlib.sh(cmd, cwd=vlib.REPO, env=env, timeout=3000)
            if "test result:" in out:
                for fn in os.listdir(scratch):
                    if fn.startswith("first-raw."):
                        os.remove(os.path.join(scratch, fn))
            else:
                for fn in os.listdir(scratch):
                    if fn.startswith("raw."):
                        os.remove(os.path.join(scratch, fn))
                for fn in os.listdir(scratch):
                    if fn.startswith("first-raw."):
                        os.rename(os.path.join(scratch, fn), os.path.join(scratch, fn[6:]))
                print("# note: the repository test process died twice with the hooks on (%s); validating the transactions recorded before" % died.strip().splitlines()[-1][:160])
        failed_tests = [ln.split()[1] for ln in out.splitlines() if ln.startswith("test ") and ln.rstrip().endswith("FAILED")]
        wd = os.path.join(workdir, "yata-suite")
        shutil.rmtree(wd, ignore_errors=True)
        os.makedirs(wd)
        tfile = os.path.join(wd, "trace.ndjson")
        rc, out2 = vlib.sh([os.path.join(vlib.HARNESS, "target", "debug", "yx_suite"), "--in", os.path.join(scratch, "raw"), "--out", tfile,
                            "--skip", "multi_threading"], timeout=900)
        if rc != 0:
            raise vlib.ToolError("yx_suite failed: " + out2[-1000:])
        summary = json.loads(out2.strip().splitlines()[-1])
    finally:
        shutil.rmtree(scratch, ignore_errors=True)
    tv = time.time()
    merged = vlib.validate("Trace_Yata", "Trace_Yata.cfg", tfile, os.path.join(wd, "v"), parallel=8)
    bad, events = {}, {}
    for bid, pred, line in merged["viol"]:
        bad.setdefault(bid, []).append([pred, line])
    if bad:
        cur, evs = None, {}
        with open(tfile) as f:
            for ln in f:
                if ln.startswith('{"bid":'):
                    cur = json.loads(ln)["bid"]
                    cur = cur if cur in bad else None
                    if cur:
                        evs[cur] = []
                elif cur:
                    evs[cur].append(ln)
        for b, preds in bad.items():
            k = min(p[1] for p in preds)
            if b in evs and 1 <= k <= len(evs[b]):
                events[b] = json.loads(evs[b][k - 1])
    res = {"group": "suite", "engine": "yata", "merged": merged, "v_wall": time.time() - tv, "wall": time.time() - t0,
           "tests": summary["behaviours"], "skipped": summary["skipped"], "failed_tests": failed_tests, "process_died": died,
           "bad": {b: {"preds": p, "schedule": {"bid": b, "suite_test": b[6:], "note": "re-run the repository test with the hooks on"},
                       "event": events.get(b)} for b, p in bad.items()},
           "nontrivial": [b for b in range(summary["behaviours"])], "samples": [], "cached": False}
    with open(cpath, "w") as f:
        json.dump(res, f)
    return res


def add_rich_evidence(ev, rr):
    """evidence of the rich-text stage (spec/Rich.tla): formatting behaviours validated, clean-up replicas, clean-up events"""
    for g in rr["gstats"]:
        ev.add_tlc(G_GROUPS[g["group"]][1] if g["group"] in G_GROUPS else g["group"], {"distinct": g["distinct"], "generated": g["generated"], "depth": g["depth"],
                                              "wall": g["wall"], "replay": [0] * g["replay"]}, "G")
    ev.add_v("rich text: formatting groups + %d rich random behaviours (clean-up varied per replica)" % rr["random_behaviours"],
             rr["merged"], rr["nontrivial"], rr["v_wall"])
    dk = {}
    for d in rr["merged"]["drift"]:
        dk.setdefault(d[1], set()).add(d[0])
    ev.cov["rich"] = dict(rr.get("rich") or {})
    ev.cov["rich"]["groups"] = [{k: g[k] for k in ("group", "replay", "used")} for g in rr["gstats"]]
    ev.cov["rich"]["drift_behaviours"] = {k: len(v) for k, v in sorted(dk.items())}
    ev.cov["rich"]["rule"] = ("formatting behaviours = TLC-enumerated histories with format steps (free group fmt3: all ins/del/format operations "
                              "on a two-unit text by two authors; scripted families fmtdup/fmtovl/fmtdel/fmtovw/fmtins/fmthole: every exchange among "
                              "the authors and every (merged) delivery order) plus seeded random rich-text runs; cleanup_formatting is drawn per "
                              "replica; cleanup_events = deliveries/syncs whose transaction deleted marks no delivered deletion named")


def check(prop, tier):
    ev = vlib.Evidence(prop, tier)
    bt = vlib.build_harness("yx")
    wd = os.path.join(vlib.WORK, "run-%s" % prop)
    plan = TIERS[tier]
    for d in ([] if os.environ.get("VERIF_ONLY_GROUPS") else plan["design"]):
        r = run_design(d, tier, wd)
        ev.add_tlc(D_GROUPS[d][1], r, "design")
    r = run_all(tier, wd)
    for g in r["gstats"]:
        ev.add_tlc(G_GROUPS[g["group"]][1] if g["group"] in G_GROUPS else g["group"], {"distinct": g["distinct"], "generated": g["generated"], "depth": g["depth"],
                                              "wall": g["wall"], "replay": [0] * g["replay"]}, "G")
    ev.add_v("all groups + %d random behaviours" % r["random_behaviours"], r["merged"], r["nontrivial"], r["v_wall"])
    for s in r["samples"]:
        ev.sample(s)
    results = [r]
    if not os.environ.get("VERIF_ONLY_GROUPS"):
        rr = run_all(tier, wd, kind="rich")
        results.append(rr)
        add_rich_evidence(ev, rr)
        sr = run_suite(tier, wd)
        results.append(sr)
        ev.add_v("repository test-suite with hook H3 (%d tests, %d skipped)" % (sr["tests"], len(sr["skipped"])), sr["merged"], [], sr["v_wall"])
        ev.cov["suite"] = {"tests_validated": sr["tests"], "skipped": sr["skipped"], "failed_tests_in_that_run": sr["failed_tests"], "test_process_died_once": bool(sr.get("process_died"))}
    if prop == "C15" and not os.environ.get("VERIF_ONLY_GROUPS"):
        import gckeep
        gr = gckeep.run(tier, wd)
        results.append(gr)
        ev.add_v("gckeep: forced gc between tracked deletion and undo/redo (undo engine)", gr["merged"], gr["nontrivial"], gr["v_wall"])
    ev.cov["groups"] = [{k: g[k] for k in ("group", "replay", "used")} for g in r["gstats"]]
    ev.cov["rule"] = ("behaviours = TLC-enumerated histories (all operation sequences within the bounds of the G "
                      "configurations x all delivery orders to an observer; nested/merged groups validated on a seeded sample, sizes in "
                      "'groups') plus seeded random schedules, executed on the "
                      "real library and validated by TLC against Trace_Yata; distinct = distinct step sequences; "
                      "non-trivial = some update is delivered out of emission order / twice / merged, or a state-vector sync "
                      "happens before the closing exchange")
    ev.cov["harness_build_s"] = round(bt, 1)
    ev.assumptions = ["TLC, CommunityModules", "harness adapters and observation functions (obs.rs, codec.rs)",
                      "hook H1 (yrs::verif) reports the item lists faithfully"]
    rc = vlib.report(prop, ev, results, PREFIXES[prop])
    ev.write()
    return rc
