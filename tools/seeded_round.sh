#!/bin/bash
# Confirms a seeded change and runs the property's quick check against it; records the outcome in seeded/<id>/meta.json.
#   tools/seeded_round.sh <id> <property> <dir with patch.diff, mutant_demo.rs, notes.md> ["change" "needs"]
set -u
ID=$1; PROP=$2; SRC=$3
cd /verif
tools/seeded_verify.sh $ID $PROP $SRC > /tmp/sv-$ID.log 2>&1
tools/mutant_run.sh /verif/seeded/$ID/patch.diff -- $PROP --tier quick > /tmp/det-$ID.log 2>&1
python3 - "$ID" "$PROP" "${4:-}" "${5:-}" <<'PY'
import json, re, sys
i, p, change, needs = sys.argv[1:5]
t = open('/tmp/det-%s.log' % i).read()
v = re.findall(r'^VIOLATION property=(\S+) replay=\S+\s+# (\S+) at trace line \d+ of behaviour (\S+)', t, re.M)
rc = re.findall(r'MUTANT-RESULT rc=(\d+)', t)
mp = '/verif/seeded/%s/meta.json' % i
m = json.load(open(mp))
if change: m['change'] = change
if needs: m['needs_to_manifest'] = needs
m['detection'] = {"rc": int(rc[-1]) if rc else None, "first_predicate": v[0][1] if v else None, "first_behaviour": v[0][2] if v else None,
                  "violations_printed": len(v), "command": "tools/mutant_run.sh seeded/%s/patch.diff -- %s --tier quick" % (i, p)}
json.dump(m, open(mp, 'w'), indent=1)
print(i, m.get('confirmed'), m['detection'])
PY
