"""Structural patterns of the known C20 findings D1..D6 (weak links / quotations), used through tools/patterns.py by
vlib.match_known.  A pattern function gets the info dict of ONE violating behaviour
    {"preds": [[pred, event ordinal, index of the failing unquote result (optional)], ...], "schedule": ..., "event": ...,
     "ctx": [context of every C20 violation of the behaviour, built by `context()` below from the recorded trace]}
(`ctx` is attached by tools/quote_pipe.py; without it no pattern matches).

Every violation is classified on its own (`shapes_of`): which of the six defect shapes can have produced it, judged from
the recorded events around it (resolved quote call, element lists incl. tombstones, stash, the transactions of that
replica since the previous look at that quotation).  A behaviour matches the entry Dk iff
  * EVERY C20 violation of the behaviour has one of the six shapes (a violation of any other shape -> no entry matches,
    the behaviour is reported as VIOLATION), and
  * Dk is the shape of its first violation (fixed priority when several shapes fit), so that exactly one entry matches.

Shapes (element = clock unit <<client, clock>>; "run" = units of one client with consecutive clocks that are neighbours
in the list, i.e. the largest extent a block can have):
  D1  C20_BoundariesRight: the start boundary written by quote() is a tombstone that directly precedes (only tombstones
      between) the requested start unit; end boundary and both associations are right.
  D2  exclusive, bounded start: C20_NotifiedOnChange for such a quotation (materialize links nothing and splits nothing
      when the boundary is the last unit of its block), or C20_UnquoteExact where a TEXT quotation of that kind shows
      the excluded start unit itself, the excluded end unit, or units behind its end boundary.
  D3  C20_UnquoteExact of a TEXT quotation with two exclusive boundaries that are (still) neighbours of one run, so that
      nothing can be between them, and yet something is shown.
  D4  C20_NotifiedOnChange where an un-notified transaction cut a quoted run: it deleted a unit that is not the first of
      its run (text: locally or remotely; array: remotely), or it inserted (text, locally) between two units of one
      run, or any insert landed next to a non-leading unit of a run (right halves of earlier cuts have lost their links).
  D5  C20_QuotationDelivery: the delivered quotation is unbounded on a side, its source is a nested collection and the
      receiver did not hold that collection's element when the quotation arrived.
  D6  C20_NotifiedAfterStashedOverwrite: a link to a map entry, and an earlier transaction of that replica started with
      stashed deletions for that key's chain and ended with a new right-most entry.
"""

KNOWN_PREDICATES = ["C20_BoundariesRight", "C20_UnquoteExact", "C20_NotifiedOnChange",
                    "C20_NotifiedAfterStashedOverwrite", "C20_QuotationDelivery"]
PRIORITY = ["D1", "D5", "D6", "D3", "D2", "D4"]


def _t(x):
    return tuple(x) if x is not None else None


def _who(e):
    k = e.get("k")
    if k in ("loc", "qloc", "dlv"):
        return e.get("r")
    if k == "sync":
        return e.get("t")
    return None


def _slim(e, n, src):
    """what a pattern needs of a transaction event: the source container's list, its tombstones, the stash"""
    o = e.get("obs") or {}
    lst = [_t(x) for x in (o.get("lst") or {}).get(src, [])]
    s = set(lst)
    call = e.get("call") or {}
    upd = e.get("upd") or {}
    units = set()
    for v in (o.get("lst") or {}).values():
        units.update(_t(x) for x in v)
    units.update(_t(x) for x in o.get("gone", []))
    return {"n": n, "k": e.get("k"), "a": call.get("a", ""), "lst": lst,
            "dead": [_t(d) for d in o.get("dead", []) if _t(d) in s],
            "pds": [_t(d) for d in o.get("pds", [])], "units": sorted(units),
            "weak": [_t(u["id"]) for part in ("upd", "full", "emit") for u in (e.get(part) or {}).get("ins", []) if u.get("t") == "weak"],
            "del": [_t(d) for d in upd.get("del", [])]}


def context(events, preds):
    """events: the parsed trace events of one behaviour (ordinal n = index + 1); preds: its violations.
    Returns one context dict per C20 violation (None entries never occur; unknown situations give a bare context)."""
    quotes = {}
    low = set()     # second code units of surrogate pairs (behaviours with characters outside the BMP)
    for n, e in enumerate(events, 1):
        if e.get("k") == "qloc" and e.get("outcome") == "ok" and (e.get("call") or {}).get("a") in ("quote", "link"):
            quotes[e["h"]] = (n, e)
        for part in ("upd", "full", "emit"):
            for u in (e.get(part) or {}).get("ins", []):
                if u.get("w8") == 0 and u.get("kind") == "str":
                    low.add(_t(u["id"]))
    out = []
    for p in preds:
        pred, line = p[0], p[1]
        k = p[2] if len(p) > 2 else 0
        if not pred.startswith("C20_") or not (1 <= line <= len(events)):
            continue
        e = events[line - 1]
        c = {"pred": pred, "line": line, "k": k, "low": sorted(low)}
        r = h = None
        if e.get("k") == "unquote" and 1 <= k <= len(e.get("res", [])):
            x = e["res"][k - 1]
            r, h = x["r"], x["h"]
            c["res"] = {"ids": [_t(i) for i in x["ids"]], "fired": x["fired"], "present": x["present"]}
        elif e.get("k") == "qloc":
            r, h = e.get("r"), e.get("h")
        elif e.get("k") in ("dlv", "sync"):
            r = _who(e)
            weak = {_t(u["id"]) for part in ("upd", "full", "emit") for u in (e.get(part) or {}).get("ins", []) if u.get("t") == "weak"}
            for hh, (_, qe) in quotes.items():
                if _t(qe.get("wid")) in weak:
                    h = hh
        c["r"], c["h"] = r, h
        if h in quotes and r is not None:
            qn, qe = quotes[h]
            src = qe["src"]
            call = qe["call"]
            c["kind"], c["src"] = qe["kind"], src
            c["quote"] = {"n": qn, "r": qe["r"], "a": call["a"], "su": call.get("su", False), "eu": call.get("eu", False),
                          "si": call.get("si", True), "ei": call.get("ei", True), "i": call.get("i", 0), "j": call.get("j", 0),
                          "wlo": _t(qe["wlo"]), "whi": _t(qe["whi"]), "wsa": qe["wsa"], "wea": qe["wea"], "wid": _t(qe["wid"])}
            # the author's source right before the quotation was made
            before = None
            for n in range(qn - 1, 0, -1):
                if _who(events[n - 1]) == qe["r"] and "obs" in events[n - 1]:
                    before = _slim(events[n - 1], n, src)
                    break
            c["author_before"] = before
            # the transactions of replica r up to the violation, and the looks at <<r, h>>
            c["hist"] = [_slim(ev, n, src) for n, ev in enumerate(events[:line], 1) if _who(ev) == r and "obs" in ev]
            looks = []
            for n, ev in enumerate(events[:line], 1):
                if ev.get("k") == "unquote":
                    for x in ev["res"]:
                        if x["r"] == r and x["h"] == h:
                            looks.append({"n": n, "ids": [_t(i) for i in x["ids"]], "present": x["present"], "o": x["o"]})
            c["looks"] = looks
        out.append(c)
    return out


# ------------------------------------------------------------------------------------------------
# shapes

def _nonleading(lst, x):
    """x is not the first unit of its run in lst: its left neighbour is the previous clock of the same client"""
    if x not in lst:
        return False
    i = lst.index(x)
    return i > 0 and lst[i - 1] == (x[0], x[1] - 1)


def _d1(c):
    q, b = c.get("quote"), c.get("author_before")
    if c["pred"] != "C20_BoundariesRight" or not q or not b or q["a"] != "quote" or q["su"]:
        return False
    dead = set(b["dead"])
    vis = [u for u in b["lst"] if u not in dead]
    if not (q["i"] < len(vis)):
        return False
    req, wlo = vis[q["i"]], q["wlo"]
    if wlo == req or wlo not in dead or wlo not in b["lst"]:
        return False
    a, z = b["lst"].index(wlo), b["lst"].index(req)
    # the requested unit may be the second code unit of a surrogate pair (exclusive start behind a character outside the
    # BMP): the tombstones then directly precede the CHARACTER, i.e. its first code unit
    if req in set(c.get("low") or []) and z > 0 and b["lst"][z - 1] == (req[0], req[1] - 1):
        z -= 1
    if not (a < z and all(u in dead for u in b["lst"][a:z])):
        return False
    end_ok = q["eu"] or (q["j"] < len(vis) and q["whi"] == vis[q["j"]] and q["wea"] == q["ei"])
    return end_ok and q["wsa"] == (not q["si"])


def _overrun(c):
    """a text dereference shows the excluded end boundary or units behind the end boundary"""
    q = c["quote"]
    if q["eu"] or not c.get("hist"):
        return False
    lst = c["hist"][-1]["lst"]
    if q["whi"] not in lst:
        return False
    ph = lst.index(q["whi"])
    for x in (c.get("res") or {}).get("ids", []):
        if x in lst and (lst.index(x) > ph or (x == q["whi"] and not q["ei"])):
            return True
    return False


def _d2(c):
    q = c.get("quote")
    if not q or q["a"] != "quote" or q["su"] or q["si"]:
        return False
    if c["pred"] == "C20_NotifiedOnChange":
        return True
    if c["pred"] == "C20_UnquoteExact":
        # nothing was materialized (no split at the boundaries): get_string shows the excluded start unit, or runs over the end
        return c.get("kind") == "t" and (q["wlo"] in (c.get("res") or {}).get("ids", []) or _overrun(c))
    return False


def _d3(c):
    q = c.get("quote")
    if c["pred"] != "C20_UnquoteExact" or not q or c.get("kind") != "t" or q["a"] != "quote":
        return False
    if q["su"] or q["eu"] or q["si"] or q["ei"] or not c.get("hist"):
        return False
    lo, hi = q["wlo"], q["whi"]
    lst = c["hist"][-1]["lst"]
    ids = (c.get("res") or {}).get("ids", [])
    # the boundaries are still neighbours of one run (nothing can be between them), yet something is shown
    return hi == (lo[0], lo[1] + 1) and lo in lst and lst.index(lo) + 1 < len(lst) and lst[lst.index(lo) + 1] == hi \
        and len(ids) > 0


def _d4(c):
    if c["pred"] != "C20_NotifiedOnChange" or c.get("kind") not in ("t", "a") or not c.get("hist"):
        return False
    looks = c.get("looks") or []
    prev = looks[-2]["n"] if len(looks) >= 2 else 0
    hist = c["hist"]
    for ix, t in enumerate(hist):
        if t["n"] <= prev or ix == 0:
            continue
        b = hist[ix - 1]
        local, text = t["k"] == "loc", c["kind"] == "t"
        bdead, adead = set(b["dead"]), set(t["dead"])
        # a quoted run was cut by a deletion: text (split_block in remove_range / apply_delete), array only remotely
        if text or not local:
            for d in (adead - bdead):
                if d in b["lst"] and _nonleading(b["lst"], d):
                    return True
        # ... or by a local text insert inside a run; or an insert (local or remote) lands next to a non-leading unit
        # of a run, i.e. next to the right half of an earlier cut, which has lost its links
        old = set(b["lst"])
        al = t["lst"]
        for i, y in enumerate(al):
            if y in old:
                continue
            left = next((u for u in reversed(al[:i]) if u in old), None)
            right = next((u for u in al[i + 1:] if u in old), None)
            if text and local and t["a"] == "ins" and left and right and right == (left[0], left[1] + 1):
                return True
            if (left and _nonleading(b["lst"], left)) or (right and _nonleading(b["lst"], right)):
                return True
    return False


def _run_from(lst, y):
    """y and the units that follow it in lst with consecutive clocks of the same client (the rest of y's block)"""
    out = [y]
    i = lst.index(y)
    while i + 1 < len(lst) and lst[i + 1] == (lst[i][0], lst[i][1] + 1):
        i += 1
        out.append(lst[i])
    return out


def _d4_lost(c):
    """D4 is persistent: the right half of a cut stays outside the link set, and every unit integrated next to an
    unlinked unit is unlinked as well. Replays replica r's transactions since the quotation was made and collects the
    units that have lost (or never got) their links through cuts; a later missed notification about one of THOSE units
    (its deletion, or an insertion next to it) is the same defect."""
    if c["pred"] != "C20_NotifiedOnChange" or c.get("kind") not in ("t", "a") or not c.get("hist"):
        return False
    looks = c.get("looks") or []
    prev = looks[-2]["n"] if len(looks) >= 2 else 0
    hist = c["hist"]
    qn = c["quote"]["n"]
    lost = set()
    for ix, t in enumerate(hist):
        if ix == 0 or t["n"] <= qn:
            continue
        b = hist[ix - 1]
        text = c["kind"] == "t"
        bdead, adead = set(b["dead"]), set(t["dead"])
        newly_dead = [d for d in (adead - bdead) if d in b["lst"]]
        old = set(b["lst"])
        al = t["lst"]
        new = [y for y in al if y not in old]
        # does this transaction touch a unit that is already outside the link set?
        if t["n"] > prev:
            if any(d in lost for d in newly_dead):
                return True
            for y in new:
                i = al.index(y)
                if (i > 0 and al[i - 1] in lost) or (i + 1 < len(al) and al[i + 1] in lost):
                    return True
        # cuts made by this transaction
        if text or t["k"] != "loc":
            for d in newly_dead:
                if _nonleading(b["lst"], d):
                    lost.update(_run_from(b["lst"], d))
                i = b["lst"].index(d)
                if i + 1 < len(b["lst"]) and b["lst"][i + 1] == (d[0], d[1] + 1) and b["lst"][i + 1] not in adead:
                    lost.update(_run_from(b["lst"], b["lst"][i + 1]))
        for y in new:
            i = al.index(y)
            left = next((u for u in reversed(al[:i]) if u in old), None)
            right = next((u for u in al[i + 1:] if u in old), None)
            if left and right and right == (left[0], left[1] + 1):
                lost.update(_run_from(b["lst"], right))
            if (left in lost) or (right in lost):
                lost.add(y)
    return False


def _d5(c):
    q = c.get("quote")
    if c["pred"] != "C20_QuotationDelivery" or not q or q["a"] != "quote" or not (q["su"] or q["eu"]) or not c.get("hist"):
        return False
    head = c["src"].split("|")[0]
    if ":" not in head:
        return False          # a root collection always exists
    cl, ck = head.split(":")
    tid = (int(cl), int(ck))
    hist = c["hist"]
    if q["wid"] not in hist[-1]["weak"]:
        return False
    return len(hist) < 2 or tid not in set(hist[-2]["units"])


def _d6(c):
    if c["pred"] != "C20_NotifiedAfterStashedOverwrite" or c.get("kind") != "l" or not c.get("hist"):
        return False
    hist = c["hist"]
    for ix in range(1, len(hist)):
        b, t = hist[ix - 1], hist[ix]
        if t["lst"] and t["lst"][-1] not in set(b["lst"]) and set(b["pds"]) & set(t["lst"]):
            return True
    return False


SHAPES = {"D1": _d1, "D2": _d2, "D3": _d3, "D4": lambda c: _d4(c) or _d4_lost(c), "D5": _d5, "D6": _d6}


def shapes_of(c):
    """the defect shapes that fit one violation context, in priority order"""
    out = []
    for d in PRIORITY:
        try:
            if SHAPES[d](c):
                out.append(d)
        except (KeyError, IndexError, TypeError, ValueError):
            pass
    return out


def _deep(x):
    """ids as tuples (a context that went through JSON holds them as 2-element lists)"""
    if isinstance(x, dict):
        return {k: _deep(v) for k, v in x.items()}
    if isinstance(x, (list, tuple)):
        if len(x) == 2 and all(isinstance(i, int) and not isinstance(i, bool) for i in x):
            return tuple(x)
        return [_deep(v) for v in x]
    return x


def primary(info):
    """the entry a behaviour belongs to, or None when some C20 violation of it has none of the six shapes"""
    ctx = _deep(info.get("ctx"))
    mine = [p for p in info.get("preds", []) if p[0].startswith("C20_")]
    if not ctx or len(ctx) != len(mine):
        return None
    first = None
    for c in sorted(ctx, key=lambda c: (c["line"], c.get("k", 0))):
        s = shapes_of(c)
        if not s:
            return None
        if first is None:
            first = s[0]
    return first


def c20_d1_start_boundary_on_tombstone(info):
    return primary(info) == "D1"


def c20_d2_exclusive_start_not_linked(info):
    return primary(info) == "D2"


def c20_d3_text_exclusive_adjacent_boundaries(info):
    return primary(info) == "D3"


def c20_d4_cut_of_quoted_run_drops_links(info):
    return primary(info) == "D4"


def c20_d5_unbounded_nested_quotation_before_source(info):
    return primary(info) == "D5"


def c20_d6_stashed_overwrite_of_linked_entry(info):
    return primary(info) == "D6"
