#!/usr/bin/env python3
"""Keeps spec/Trace_Events.tla in step with spec/Trace_Yata.tla.

Trace_Events!LocalX and Trace_Events!SyncX are the bodies of Trace_Yata!Local / Trace_Yata!Sync plus the C11 checks (Local has
no `extra` hook, Sync defines its extra checks in a LET). They are DERIVED from the current text of Trace_Yata.tla:
    tools/events_regen.py          rewrites the two actions in spec/Trace_Events.tla
    tools/events_regen.py --check  exit 1 when they are out of date (events_pipe.check turns that into a tool error)"""
import os
import sys

SPEC = os.path.join(os.path.dirname(os.path.dirname(os.path.abspath(__file__))), "spec")
HEAD = ('(* local operation (one call, or several calls inside one transaction: call.a = "multi");   *)\n'
        '(* body of Trace_Yata!Local + explicit deletions of a multi transaction + C11 checks      *)\n')


def _between(text, start, end):
    i = text.index(start)
    j = text.index(end, i)
    return text[i:j].rstrip() + "\n"


def _sub(text, old, new):
    if text.count(old) != 1:
        raise ValueError("Trace_Yata.tla changed shape: expected exactly one occurrence of %r" % old[:60])
    return text.replace(old, new)


def derive():
    base = open(os.path.join(SPEC, "Trace_Yata.tla")).read()
    x = _between(base, "Local ==\n", "(* replica r applies a payload").replace("Local ==", "LocalX ==", 1)
    # the explicit deletions of a multi-operation transaction (call.a = "multi") are part of Trace_Yata!Local itself
    if 'ELSE IF call.a \\in {"fmt", "multi"} THEN XD \\cup Ids(Ev.upd.del)' not in x:
        raise ValueError("Trace_Yata.tla changed shape: Local has no case for multi-operation transactions")
    fol = ('                     \\o (IF Ev.hasfol THEN FolChecks(E2, R2, Ev.obs, Ev.fol.v1) \\o FolChecks(E2, R2, Ev.obs, Ev.fol.v2) ELSE <<>>)\n'
           '         dr ==')
    x = _sub(x, fol, fol.replace("\n         dr ==", "\n                     \\o C11Checks(E2, R, R2)\n         dr =="))
    sy = _between(base, "Sync ==\n", "(* one committed transaction of the repository").replace("Sync ==", "SyncX ==", 1)
    mono = '<<"C06_Monotone", \\A x \\in SVOf(Have(R)) : \\E y \\in SVOf(Have(R2)) : y[1] = x[1] /\\ y[2] >= x[2]>> >>\n'
    sy = _sub(sy, mono, mono + "           \\o C11Checks(E2, R, R2)\n")
    return x, sy


def rewrite(text):
    x, sy = derive()
    a = text.index("(* local operation (one call")
    b = text.index("DlvExtra(E2, R, R2)")
    text = text[:a] + HEAD + x + "\n" + text[b:]
    a = text.index("SyncX ==\n")
    b = text.index("TNextX ==")
    return text[:a] + sy + "\n" + text[b:]


def in_sync():
    p = os.path.join(SPEC, "Trace_Events.tla")
    cur = open(p).read()
    return rewrite(cur) == cur


if __name__ == "__main__":
    p = os.path.join(SPEC, "Trace_Events.tla")
    if "--check" in sys.argv:
        sys.exit(0 if in_sync() else 1)
    cur = open(p).read()
    new = rewrite(cur)
    if new != cur:
        open(p, "w").write(new)
        print("spec/Trace_Events.tla regenerated")
    else:
        print("spec/Trace_Events.tla is up to date")
