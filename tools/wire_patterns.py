"""Structural signatures of the C09 findings (used through tools/patterns.py by vlib.match_known).
`info` = {"preds": [[pred, line], ...], "schedule": {"cid", "case", ("col", "enc", "map")}}.
Each signature describes the failing *input*, never a whole property: a violation of C09 on any other input is
still reported."""

WIDE = {0: 0, 1: 536870912, 2: 1073741824, 5: 2684354560}


def _case(info):
    return (info.get("schedule") or {}).get("case") or {}


def _preds(info):
    return {p[0] for p in info.get("preds", [])}


def wire_json_content(info):
    """F4a: legacy JSON content (ref 2) is undecodable in either encoding (ItemContent::decode reads len+1 strings)."""
    c = _case(info)
    return c.get("k") == "block" and c.get("kind") in ("json1", "json3")


def wire_v2_write_buf(info):
    """F4b: anything that goes through Write::write_buf of EncoderV2 carries its length twice:
    Binary content, sync / awareness / custom messages, and the `buf` column program; v1 is unaffected."""
    s = info.get("schedule") or {}
    c = _case(info)
    p = _preds(info)
    if "C09_RoundTripV1" in p:
        return False
    if c.get("k") == "col":
        return s.get("col") == "buf" and s.get("enc") == "v2"
    if c.get("k") == "block":
        return c.get("kind") in ("bin0", "bin3")
    if c.get("k") == "msg":   # every message that carries a buffer
        return c.get("tag") in ("sync1", "sync2", "update", "awareness") or c.get("tag", "").startswith("custom")
    return False


def wire_custom_tag_ge128(info):
    """F4c: Message::Custom with tag >= 128: the tag is written as a raw byte and read as a varint
    (repaired in /repo by a3aa1e9; kept for trees without that commit: fails already in v1)."""
    c = _case(info)
    return c.get("k") == "msg" and c.get("tag") in ("custom128", "custom255") and "C09_RoundTripV1" in _preds(info)


def wire_intdiff_ge_2_30(info):
    """F10: a v2 clock column (left / right origin, parent id, key clock) whose consecutive values differ by 2^30 or
    more: IntDiffOptRleEncoder shifts the difference left in i32. Column programs: value map `wide` with such a step;
    update classes: id class `huge` (every clock >= 2^30). v1 is unaffected."""
    s = info.get("schedule") or {}
    c = _case(info)
    if "C09_RoundTripV1" in _preds(info):
        return False
    if c.get("k") == "col":
        # left.client / right.client belong to the same encoder run as the clock column (write_left_id writes both)
        if s.get("enc") != "v2" or s.get("col", "").split(".")[0] not in ("left", "right") or not s.get("map", "").endswith("/wide"):
            return False
        vals = [0] + [WIDE[a] for a in c.get("s", [])]
        return any(abs(b - a) >= 1 << 30 for a, b in zip(vals, vals[1:]))
    if c.get("k") == "block":   # the base element R always has an origin with a clock >= 2^30
        return c.get("idc") == "huge"
    return False


def wire_xmlhook_name(info):
    """XmlHook type content written by Yjs carries the hook name (writeKey); TypeRef::decode does not read it, so the
    rest of the update is misparsed."""
    c = _case(info)
    return c.get("k") == "block" and c.get("kind") == "txmlhook"
