"""C18 -- y-sync handshake and awareness registers: design checks, G -> X -> V.

Two halves, both under property C18:
  awareness : spec/Awareness.tla, MC_Awareness.tla, Trace_Awareness.tla, harness/src/aware.rs
  protocol  : spec/SyncProto.tla, MC_SyncProto.tla, MC_SyncCodec.tla, Trace_SyncProto.tla, harness/src/syncproto.rs
X binary: harness/src/bin/yx_c18.rs (aware-run | sync-run)."""
import hashlib
import json
import os
import random
import shutil
import time

import vlib

ENGINE_TEXT = ("TLA+/TLC design check of the awareness merge rule and of the two-peer handshake + TLC-generated schedules "
               "(exhaustive within bounds, seeded TLC simulation beyond) executed on real yrs::sync Awareness / "
               "DefaultProtocol over byte queues + TLC trace validation")
PROPS = ["C18"]
PREFIXES = ["C18_"]


def _bin():
    return os.path.join(vlib.HARNESS, "target", "debug", "yx_c18")


# design checks: name -> (module, cfg)
D_GROUPS = {
    "d_aware1": ("MC_Awareness", "D_aware1.cfg"),    # one state owner + a relay that times it out, 2 observers
    "d_aware2": ("MC_Awareness", "D_aware2.cfg"),    # two state owners, multi-client updates
    "d_aware2q": ("MC_Awareness", "D_aware2q.cfg"),  # the same with one value
    "d_sync": ("MC_SyncProto", "D_sync4.cfg"),       # handshake, 2 edits per peer + offline third author
    "d_syncq": ("MC_SyncProto", "D_syncq.cfg"),      # handshake with AwarenessQuery messages, 1 edit per peer
    "d_aware1_big": ("MC_Awareness", "D_aware1_big.cfg"),
    "d_sync_big": ("MC_SyncProto", "D_sync5.cfg"),
}

# generator groups: name -> options
#   kind: aware | sync | codec;  sim: TLC simulation (number of traces per tier);  sample: behaviours kept per tier
G_GROUPS = {
    "aware_x": {"kind": "aware", "module": "MC_Awareness", "cfg": "G_aware4.cfg"},
    "aware_s": {"kind": "aware", "module": "MC_Awareness", "cfg": "G_aware_sim.cfg",
                "sim": {"quick": 4000, "thorough": 60000}},
    "sync_a": {"kind": "sync", "module": "MC_SyncProto", "cfg": "G_sync_a.cfg", "sample": {"quick": 4000}},
    "sync_b2": {"kind": "sync", "module": "MC_SyncProto", "cfg": "G_sync_b2.cfg", "sample": {"quick": 4000}},
    "sync_b": {"kind": "sync", "module": "MC_SyncProto", "cfg": "G_sync_b.cfg", "sample": {"thorough": 60000}},
    "sync_s": {"kind": "sync", "module": "MC_SyncProto", "cfg": "G_sync_sim.cfg",
               "sim": {"quick": 3000, "thorough": 40000}},
    "codec": {"kind": "codec", "module": "MC_SyncCodec", "cfg": "G_codec.cfg"},
    "codec3": {"kind": "codec", "module": "MC_SyncCodec", "cfg": "G_codec3.cfg"},
}
TIERS = {
    "quick": {"design": ["d_aware1", "d_aware2q", "d_sync", "d_syncq"], "gen": ["aware_x", "aware_s", "sync_a", "sync_b2", "sync_s", "codec"]},
    "thorough": {"design": ["d_aware1", "d_aware2", "d_sync", "d_syncq", "d_aware1_big", "d_sync_big"],
                 "gen": ["aware_x", "aware_s", "sync_a", "sync_b", "sync_s", "codec3"]},
}
TRACE = {"aware": ("Trace_Awareness", "Trace_Awareness.cfg", "aware-run"),
         "sync": ("Trace_SyncProto", "Trace_SyncProto.cfg", "sync-run"),
         "codec": ("Trace_SyncProto", "Trace_SyncProto.cfg", "sync-run")}


def _h(*a):
    return int(hashlib.sha256(("|".join(str(x) for x in a)).encode()).hexdigest()[:12], 16)


# ------------------------------------------------------------------------------------------------
# schedules

AWARE_PEERS = [{"id": 1, "role": "owner"}, {"id": 2, "role": "owner"}, {"id": 8, "role": "obs"}, {"id": 9, "role": "obs"}]


def aware_schedule(bid, h):
    """TLC history (producers + observer 9 in every order) + reference observer 8 applying every update once in
    emission order; 8 goes first so that 9's partial sets meet 8's prefixes."""
    nupd = sum(1 for s in h if s["a"] == "upd")
    first_obs = next((i for i, s in enumerate(h) if s["a"] == "app" and s["p"] == 9), len(h))
    ref = [{"a": "app", "p": 8, "u": i} for i in range(1, nupd + 1)]
    return {"bid": bid, "cfg": {"peers": AWARE_PEERS}, "steps": h[:first_obs] + ref + h[first_obs:]}


def aware_nontrivial(s):
    """non-trivial: observer 9 applies out of emission order or twice, or an owner applies an update that mentions
    its own client id (re-assertion path)."""
    seen, mk = [], {}
    n = 0
    for st in s["steps"]:
        if st["a"] == "upd":
            n += 1
            mk[n] = st
        if st["a"] == "app":
            if st["p"] == 9:
                if st["u"] in seen or (seen and st["u"] < max(seen)):
                    return True
                seen.append(st["u"])
            elif st["p"] in (1, 2) and st["p"] in mk.get(st["u"], {}).get("cs", []):
                return True
    return False


def sync_schedule(bid, h, rnd):
    peers = [{"id": 1, "role": "peer", "gc": rnd.random() < 0.6, "aw": "s"},
             {"id": 2, "role": "peer", "gc": rnd.random() < 0.6, "aw": "s"},
             {"id": 3, "role": "author", "gc": True, "aw": ""}]
    return {"bid": bid, "cfg": {"peers": peers}, "steps": h}


def sync_nontrivial(s):
    """non-trivial: an edit happens after the first connect (concurrent with the handshake), or a peer connects
    holding out-of-band deliveries."""
    connected = False
    for st in s["steps"]:
        if st["a"] == "connect":
            connected = True
        elif st["a"] == "edit" and connected:
            return True
        elif st["a"] == "pre":
            return True
    return False


def codec_schedule(bid, h):
    return {"bid": bid, "cfg": {"peers": []}, "steps": h}


# ------------------------------------------------------------------------------------------------
# pipeline

def _cache(key):
    cdir = os.path.join(vlib.WORK, "cache")
    os.makedirs(cdir, exist_ok=True)
    return os.path.join(cdir, key + ".json")


def run_design(dname, workdir):
    cpath = _cache("%s-c18-%s" % (vlib.tree_hash(), dname))
    if os.path.exists(cpath):
        with open(cpath) as f:
            r = json.load(f)
        r["cached"] = True
        return r
    module, cfg = D_GROUPS[dname]
    # small heaps / few workers: the sandbox is shared (a killed TLC is a tool error, never a verdict)
    r = vlib.design_check(module, cfg, os.path.join(workdir, dname), workers=6, heap="4g" if dname.endswith("_big") else "2g")
    r = {k: r[k] for k in ("distinct", "generated", "depth", "wall", "coverage")}
    r["cached"] = False
    with open(cpath, "w") as f:
        json.dump(r, f)
    return r


BATCH_LINES = 90000     # trace lines per vlib.validate call (6 TLC processes of <= 15000 lines, 3g heap each)


def _validate_batched(tmod, tcfg, tfile, vdir):
    """vlib.validate on batches of whole behaviours so that no TLC process has to hold a huge trace."""
    with open(tfile) as f:
        lines = f.readlines()
    starts = [i for i, ln in enumerate(lines) if ln.startswith('{"bid":')] + [len(lines)]
    batches, a = [], 0
    for b in starts[1:]:
        if b - a >= BATCH_LINES:
            batches.append((a, b))
            a = b
    if a < len(lines):
        batches.append((a, len(lines)))
    if len(batches) <= 1:
        return vlib.validate(tmod, tcfg, tfile, vdir, parallel=6)
    merged = {"viol": [], "drift": [], "cnt": {"beh": 0, "ev": 0, "checks": 0}, "lines": 0, "states": 0}
    for k, (a, b) in enumerate(batches):
        bf = tfile + ".b%03d" % k
        with open(bf, "w") as f:
            f.writelines(lines[a:b])
        # trace line numbers reported by V are relative to the part files anyway
        m = vlib.validate(tmod, tcfg, bf, vdir, parallel=6)
        os.remove(bf)
        merged["viol"] += m["viol"]
        merged["drift"] += m["drift"]
        for c in merged["cnt"]:
            merged["cnt"][c] += m["cnt"][c]
        merged["lines"] += m["lines"]
        merged["states"] += m["states"]
    return merged


def run_group(gname, tier, workdir):
    seed = vlib.seed()
    cpath = _cache("%s-c18-%s-%s-%d" % (vlib.tree_hash(), gname, tier, seed))
    if os.path.exists(cpath):
        with open(cpath) as f:
            r = json.load(f)
        r["cached"] = True
        return r
    opts = G_GROUPS[gname]
    kind = opts["kind"]
    wd = os.path.join(workdir, gname)
    shutil.rmtree(wd, ignore_errors=True)
    os.makedirs(wd)
    t0 = time.time()
    nsim = opts.get("sim", {}).get(tier)
    if nsim:
        g = vlib.run_tlc(opts["module"], opts["cfg"], os.path.join(wd, "g"), workers=1, timeout=1500, heap="2g",
                         simulate="num=%d" % nsim, extra=["-seed", str(_h(seed, gname) % (1 << 31)), "-depth", "60"])
        if g["error"]:
            raise vlib.ToolError("G %s/%s (simulation) failed: %s\n%s" % (opts["module"], opts["cfg"], g["error"], g.get("tail", "")))
    else:
        g = vlib.generate(opts["module"], opts["cfg"], os.path.join(wd, "g"), workers=6, heap="2g")
    hists = g["replay"]
    total = len(hists)
    # distinct behaviours in a canonical order (TLC's print order depends on worker scheduling)
    uniq = {}
    for h in hists:
        uniq.setdefault(json.dumps(h, sort_keys=True), h)
    hists = [uniq[k] for k in sorted(uniq)]
    n = opts.get("sample", {}).get(tier)
    if n and len(hists) > n:
        hists = random.Random(_h(seed, gname, "sample")).sample(hists, n)
    scheds = []
    for idx, h in enumerate(hists):
        bid = "%s-%06d" % (gname, idx)
        if kind == "aware":
            scheds.append(aware_schedule(bid, h))
        elif kind == "sync":
            scheds.append(sync_schedule(bid, h, random.Random(_h(seed, bid))))
        else:
            scheds.append(codec_schedule(bid, h))
    gstats = {"distinct": g["distinct"], "generated": g["generated"], "depth": g["depth"], "wall": g["wall"],
              "replay": total, "kept": len(scheds), "simulated": bool(nsim)}
    sfile = os.path.join(wd, "schedules.ndjson")
    tfile = os.path.join(wd, "trace.ndjson")
    with open(sfile, "w") as f:
        for s in scheds:
            f.write(json.dumps(s) + "\n")
    tmod, tcfg, xcmd = TRACE[kind]
    tx = time.time()
    rc, out = vlib.sh([_bin(), xcmd, "--in", sfile, "--out", tfile], timeout=1800)
    if rc != 0:
        raise vlib.ToolError("yx_c18 %s failed (rc %d): %s" % (xcmd, rc, out[-2000:]))
    try:
        xs = json.loads(out.strip().splitlines()[-1])
    except Exception:  # noqa
        xs = {}
    tv = time.time()
    merged = _validate_batched(tmod, tcfg, tfile, os.path.join(wd, "v"))
    by_bid = {s["bid"]: s for s in scheds}
    bad = {}
    for bid, pred, line in merged["viol"]:
        bad.setdefault(bid, []).append([pred, line])
    ntf = {"aware": aware_nontrivial, "sync": sync_nontrivial, "codec": lambda s: len(s["steps"][0]["msgs"]) > 1}[kind]
    nt = [hashlib.sha256(json.dumps(s["steps"], sort_keys=True).encode()).hexdigest()[:16] for s in scheds if ntf(s)]
    res = {"group": gname, "kind": kind, "g": gstats, "x": xs, "x_wall": tv - tx, "v_wall": time.time() - tv, "merged": merged,
           "bad": {b: {"preds": p, "schedule": by_bid.get(b)} for b, p in bad.items()}, "engine": "c18",
           "nontrivial": sorted(set(nt)), "samples": scheds[len(scheds) // 2:len(scheds) // 2 + 1],
           "wall": time.time() - t0, "cached": False}
    with open(cpath, "w") as f:
        json.dump(res, f)
    if not bad:
        for p in (tfile, sfile):
            try:
                os.remove(p)
            except OSError:
                pass
    return res


# ------------------------------------------------------------------------------------------------
# plugin interface used by ./check and tools/mkmanifest.py

def check(prop, tier):
    ev = vlib.Evidence(prop, tier)
    bt = vlib.build_harness("yx_c18")
    wd = os.path.join(vlib.WORK, "run-%s" % prop)
    plan = dict(TIERS[tier])
    only = [g for g in os.environ.get("C18_GROUPS", "").split(",") if g]
    if only:
        # development / mutant runs: a subset of the generator groups, no design checks (the design checks do not
        # depend on /repo); never used for evidence that is claimed
        plan["gen"] = [g for g in plan["gen"] if g in only]
        plan["design"] = []
        ev.assumptions.append("partial run: C18_GROUPS=%s" % ",".join(only))
    for d in plan["design"]:
        r = run_design(d, wd)
        ev.add_tlc(D_GROUPS[d][1], r, "design")
        vlib.log("design %s: %d states, %.1fs%s" % (d, r["distinct"], r["wall"], " (cached)" if r.get("cached") else ""))
    results = []
    for g in plan["gen"]:
        r = run_group(g, tier, wd)
        results.append(r)
        ev.add_tlc(G_GROUPS[g]["cfg"], {"distinct": r["g"]["distinct"], "generated": r["g"]["generated"], "depth": r["g"]["depth"],
                                       "wall": r["g"]["wall"], "replay": [0] * r["g"]["kept"]}, "G")
        ev.add_v(g, r["merged"], r["nontrivial"], r["v_wall"])
        for s in r["samples"]:
            ev.sample(s)
        vlib.log("group %s: G %d printed / %d kept (%.1fs), X %.1fs, V %d events %.1fs, violating %d, drift %d%s"
                 % (g, r["g"]["replay"], r["g"]["kept"], r["g"]["wall"], r["x_wall"], r["merged"]["cnt"]["ev"], r["v_wall"],
                    len(r["bad"]), len(r["merged"]["drift"]), " (cached)" if r.get("cached") else ""))
    ev.cov["rule"] = ("behaviours = TLC-enumerated histories: awareness -- all producer histories within the G bounds "
                      "(set / clean / time-out removal / subset and full updates / owners applying each other's updates) x all "
                      "application orders with one duplicate at an observer, plus a reference observer in emission order; "
                      "handshake -- all interleavings of connect / handle on two FIFO directions with local edits and out-of-band "
                      "prior deliveries within the G bounds (sampled where the tier says so), plus seeded TLC simulation with larger "
                      "bounds; message shapes -- all sequences of <= 2 (3) messages over an alphabet covering every Message tag. "
                      "Executed on real yrs::sync code, validated by TLC against Trace_Awareness / Trace_SyncProto. "
                      "non-trivial = out-of-order / duplicate application or own-client re-assertion (awareness), an edit concurrent "
                      "with the handshake or a prior out-of-band delivery (handshake), a multi-message frame (shapes)")
    ev.cov["exhaustive"] = False
    ev.cov["exhaustive_parts"] = [g for g in plan["gen"] if not G_GROUPS[g].get("sim") and not G_GROUPS[g].get("sample", {}).get(tier)]
    ev.cov["harness_build_s"] = round(bt, 1)
    ev.assumptions += ["TLC, CommunityModules", "harness adapters (aware.rs, syncproto.rs), independent lib0-v1 decoder (codec.rs), "
                      "observation functions (obs.rs) and hook H1 (yrs::verif) report faithfully",
                      "a peer reads its inbox only once it has connected itself (stated in MC_SyncProto; without it the abstract "
                      "protocol does not converge)",
                      "a client id is used by one Awareness instance at a time (a (client, clock) pair carries one value)"]
    rc = vlib.report(prop, ev, results, PREFIXES)
    ev.write()
    return rc


def replay(doc):
    """Re-executes the schedule of a replay file on the real code, validates it alone and prints every recorded
    event with the verdict (called by tools/replay.py for files whose detail.engine is "c18"; accepts the parsed
    file or its path)."""
    if isinstance(doc, str):
        with open(doc) as f:
            doc = json.load(f)
    sched = doc["schedule"]
    steps = sched.get("steps", [])
    kind = "codec" if steps and all(s.get("a") == "codec" for s in steps) else \
        ("aware" if any(s.get("a") in ("set", "clean", "rem", "upd", "app") for s in steps) else "sync")
    vlib.build_harness("yx_c18")
    wd = os.path.join(vlib.WORK, "replay-c18")
    shutil.rmtree(wd, ignore_errors=True)
    os.makedirs(wd)
    sfile, tfile = os.path.join(wd, "schedule.ndjson"), os.path.join(wd, "trace.ndjson")
    with open(sfile, "w") as f:
        f.write(json.dumps(sched) + "\n")
    tmod, tcfg, xcmd = TRACE[kind]
    rc, out = vlib.sh([_bin(), xcmd, "--in", sfile, "--out", tfile])
    if rc != 0:
        raise vlib.ToolError("yx_c18 %s failed: %s" % (xcmd, out[-2000:]))
    with open(tfile) as f:
        for i, ln in enumerate(f, 1):
            print("%3d %s" % (i, ln.rstrip()[:3000]))
    merged = vlib.validate(tmod, tcfg, tfile, os.path.join(wd, "v"), parallel=1)
    for b, pred, line in merged["viol"]:
        print("violated: %s at trace line %s" % (pred, line))
    print("verdict: %s" % ("VIOLATION" if merged["viol"] else "held"))
    return vlib.EXIT_VIOLATION if merged["viol"] else vlib.EXIT_OK


def manifest_entries():
    return [{
        "property_id": "C18",
        "quick_cmd": "./check C18 --tier quick",
        "thorough_cmd": "./check C18 --tier thorough",
        "evidence_file": "evidence/C18.json",
        "replay_cmd_template": "./check replay {path}",
        "engine": "c18",
        "level_claimed": {
            "category": "model_checking",
            "text": ("TLC checks the awareness merge rule (transcribed case by case from apply_update_internal) for clock monotonicity, "
                     "no-lower-replaces, own-state-kept / owner re-assertion, idempotence, order-insensitivity and the "
                     "last-writer-wins maximum in every state of the design models, and the two-peer handshake model for "
                     "equal documents at quiescence under every interleaving with concurrent edits and prior divergence. "
                     "TLC-generated schedules are executed on real Awareness instances (controlled clock, updates as bytes) and "
                     "on two real peers running DefaultProtocol::start/handle over byte queues; TLC validates every recorded "
                     "register (iter / meta / state), every SyncStep2 answer (complete, sound), every document state, "
                     "quiescent equality and every message round trip (all Message tags, Custom tags 4..255)."),
            "design_ref": "DESIGN.md section 6/C18"},
        "level_note": ("Trusted: TLC + CommunityModules; harness adapters aware.rs / syncproto.rs; independent lib0-v1 decoder "
                       "(codec.rs); obs.rs + hook H1 for integrated ids. Small scope: awareness exhaustive for 2 owners, clocks <= 3, "
                       "<= 4 producer steps (G) / unbounded steps with <= 3 updates (design), handshake exhaustive for <= 2-3 edits "
                       "(G, sampled in the quick tier) / <= 4 edits (design); beyond that seeded TLC simulation."),
        "technique": ("TLA+ specs (Awareness, SyncProto) model-checked with TLC; TLC-generated schedules replayed on real yrs::sync; "
                      "recorded traces validated by TLC against Trace_Awareness / Trace_SyncProto"),
    }]
