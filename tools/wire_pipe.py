"""G -> X -> V pipeline of the Wire specification (C09: wire formats round-trip, v1/v2 carry the same information).

  design : TLC checks C09_CodecRoundTrip (Decode(Encode(s)) = s for the transcribed lib0 v2 column codecs) for every
           letter sequence up to the bound, and the block-header grammar for every block class.
  G      : TLC prints every letter sequence (MC_Wire, Mode codec) and every class combination of the wire types
           (Mode grammar); the Yjs fixtures come from the harness.
  X      : harness/src/wire.rs (bin yx_wire) pushes them through the real EncoderV1/V2, DecoderV1/V2, Update, ... of yrs.
  V      : TLC validates the recorded trace against Trace_Wire.
"""
import hashlib
import json
import os
import shutil
import time

import vlib

PROPS = ["C09"]
ENGINE_TEXT = ("TLA+/TLC design check of the transcribed lib0 column codecs + TLC-enumerated sequences and wire-type classes "
               "executed on the yrs encoders/decoders + TLC trace validation (Trace_Wire)")
TIERS = {
    "quick": {"design": "D_wire6.cfg", "gen": "G_wire6.cfg", "per_trace": 8000},
    "thorough": {"design": "D_wire8.cfg", "gen": "G_wire8.cfg", "per_trace": 6000},
}
TOOL_PREDS = ("T_ClassBinding", "T_HarnessBroken")


def yx_wire():
    return os.path.join(vlib.HARNESS, "target", "debug", "yx_wire")


def case_id(c):
    if c["k"] == "block":
        return "block-%s-o%d-ro%d-%s-sub%d-%s" % (c["kind"], c["o"], c["ro"], c["par"], c["sub"], c["idc"])
    rest = [str(c[k]) for k in sorted(c) if k != "k"]
    return "-".join([c["k"]] + rest)


def nontrivial_seq(s):
    """a letter sequence exercises run-length state when it has a repeated value or a repeated difference"""
    d = [b - a for a, b in zip([0] + s, s)]
    return any(a == b for a, b in zip(s, s[1:])) or any(a == b for a, b in zip(d, d[1:]))


def make_cases(tier, wd, ev):
    plan = TIERS[tier]
    g = vlib.generate("MC_Wire", plan["gen"], os.path.join(wd, "g_codec"))
    ev.add_tlc(plan["gen"], g, "G")
    seqs = sorted((r["s"] for r in g["replay"] if r.get("k") == "col"), key=lambda s: (len(s), s))
    gg = vlib.generate("MC_Wire", "G_wiregrammar.cfg", os.path.join(wd, "g_grammar"))
    ev.add_tlc("G_wiregrammar.cfg", gg, "G")
    classes = sorted(gg["replay"], key=case_id)
    rc, out = vlib.sh([yx_wire(), "fixtures"])
    if rc != 0:
        raise vlib.ToolError("yx_wire fixtures failed: %s" % out[-500:])
    fixtures = json.loads(out.strip().splitlines()[-1])
    cases = [{"cid": "col-%06d" % i, "case": {"k": "col", "s": s}} for i, s in enumerate(seqs)]
    ids = set()
    for c in classes + fixtures:
        cid = case_id(c)
        if cid in ids:
            raise vlib.ToolError("duplicate case id %s" % cid)
        ids.add(cid)
        cases.append({"cid": cid, "case": c})
    return cases, {"sequences": len(seqs), "classes": len(classes), "fixtures": len(fixtures)}


def run(tier):
    """Returns (result dict for vlib.report, merged V verdict, stats)."""
    ev = vlib.Evidence("C09", tier)
    bt = vlib.build_harness("yx_wire")
    wd = os.path.join(vlib.WORK, "run-C09")
    shutil.rmtree(wd, ignore_errors=True)
    os.makedirs(wd)
    plan = TIERS[tier]
    d = vlib.design_check("MC_Wire", plan["design"], os.path.join(wd, "design"))
    ev.add_tlc(plan["design"], d, "design")
    cases, stats = make_cases(tier, wd, ev)
    by_cid = {c["cid"]: c for c in cases}
    merged = {"viol": [], "drift": [], "cnt": {"beh": 0, "ev": 0, "checks": 0}, "lines": 0, "states": 0}
    x_wall = v_wall = 0.0
    kept = []
    per = plan["per_trace"]
    for part, a in enumerate(range(0, len(cases), per)):
        cfile = os.path.join(wd, "cases%03d.ndjson" % part)
        tfile = os.path.join(wd, "trace%03d.ndjson" % part)
        with open(cfile, "w") as f:
            for c in cases[a:a + per]:
                f.write(json.dumps(c) + "\n")
        t0 = time.time()
        rc, out = vlib.sh([yx_wire(), "run", "--in", cfile, "--out", tfile, "--chunk", "100"], timeout=1800)
        if rc != 0:
            raise vlib.ToolError("yx_wire run failed (rc %d): %s" % (rc, out[-2000:]))
        t1 = time.time()
        m = vlib.validate("Trace_Wire", "Trace_Wire.cfg", tfile, os.path.join(wd, "v%03d" % part), parallel=10)
        v_wall += time.time() - t1
        x_wall += t1 - t0
        merged["viol"] += m["viol"]
        merged["drift"] += m["drift"]
        for k in merged["cnt"]:
            merged["cnt"][k] += m["cnt"][k]
        merged["lines"] += m["lines"]
        merged["states"] += m["states"]
        if m["viol"] and len(kept) < 2:
            kept.append(tfile)
        else:
            os.remove(tfile)
        os.remove(cfile)
    # one "behaviour" per failing case: column entries are named cid/col/enc/map
    bad = {}
    tool = []
    for name, pred, line in merged["viol"]:
        if pred in TOOL_PREDS:
            tool.append((name, pred))
            continue
        cid = name.split("/")[0]
        sched = dict(by_cid.get(cid, {"cid": cid}))
        if "/" in name:
            _, col, enc, mp = name.split("/", 3)
            sched = dict(sched, col=col, enc=enc, map=mp)
        sched["replay"] = "write this object's cid+case as one line to a file and run: harness/target/debug/yx_wire run --in <file> --out <trace>"
        bad.setdefault(name, {"preds": [], "schedule": sched})["preds"].append([pred, line])
    if tool:
        raise vlib.ToolError("the harness and the specification disagree about %d case(s), e.g. %s" % (len(tool), tool[:3]))
    seq_of = {c["cid"]: c["case"]["s"] for c in cases if c["case"]["k"] == "col"}
    nontrivial = [cid for cid, s in seq_of.items() if nontrivial_seq(s)] + [c["cid"] for c in cases if c["case"]["k"] != "col"]
    ev.add_v("wire-" + tier, merged, nontrivial, v_wall)
    for c in (cases[len(seq_of) // 2], cases[len(seq_of) + 5], cases[-3]):
        ev.sample(c)
    ev.cov["exhaustive"] = True
    ev.cov["rule"] = ("part 1: every letter sequence over {0,1,2,5} up to length %d (%d sequences), each pushed through every column "
                      "program (client, left/right id, info, parent info, type ref, len, string table, key table, delete-set clocks, "
                      "varints, buffers, all columns interleaved) x value maps (identity, 53-bit clients, varint boundaries, clocks up "
                      "to 2^31) of the real EncoderV2/DecoderV2 (v1 for length <= 2); behaviours = encoder/decoder runs; non-trivial = "
                      "the sequence has a repeated value or difference (run-length state is exercised). part 2: every class combination "
                      "of the grammar model (%d classes: blocks = content kind x origin x right origin x parent kind x key x id class; "
                      "GC/Skip ranges; delete sets; state vectors; snapshots; id maps; sticky indexes; messages; awareness updates; Any "
                      "values nested <= 2), one representative each. part 3: %d Yjs payloads copied from the yrs test-suite. "
                      "Exhaustive within these finite spaces; not beyond." % (
                          int(plan["gen"][6]), stats["sequences"], stats["classes"], stats["fixtures"]))
    ev.cov["harness_build_s"] = round(bt, 1)
    ev.cov["x_wall_s"] = round(x_wall, 1)
    ev.cov["cases"] = stats
    ev.assumptions = ["TLC, CommunityModules (Json, IOUtils)",
                      "harness: independent lib0-v1 update decoder/encoder (harness/src/codec.rs, wire_cases.rs), independent tokeniser "
                      "of the v2 column buffers (wire.rs), canonical renderings (sorted keys, numbers by value)",
                      "hook H1 (yrs::verif::blocks) for the structural part of the document dumps",
                      "representatives stand for their classes; integers are ideal in the specification"]
    drift_kinds = {}
    for name, what, line in merged["drift"]:
        drift_kinds.setdefault(what, []).append(name)
    return ev, {"bad": bad, "engine": "wire"}, drift_kinds, kept


def summary(bad):
    """Comment lines: the violating inputs grouped by what they are (smallest example first)."""
    broken_kinds = ("json1", "json3", "bin0", "bin3", "txmlhook")
    groups = {}
    for name, info in bad.items():
        sc = info["schedule"]
        c = sc.get("case", {})
        preds = {p[0][4:] for p in info["preds"]}
        if c.get("k") == "col":
            what = "column program %s, %s, value map %s" % (sc.get("col"), sc.get("enc"), sc.get("map"))
            size = (len(c.get("s", [])), c.get("s", []), name)
        else:
            kind = {"block": "content kind", "range": "range kind", "msg": "message", "any": "Any", "yjs": "Yjs payload"}.get(c.get("k"), c.get("k"))
            val = c.get("kind") or c.get("tag") or c.get("name") or c.get("leaf") or c.get("shape") or ""
            if c.get("k") == "block" and c.get("idc") == "huge" and val not in broken_kinds:
                what = "blocks of id class huge (clocks >= 2^30), any content kind"
            else:
                what = "%s %s" % (kind, val)
            size = (0, [], name)
        g = groups.setdefault(what, [0, size, sc, set()])
        g[0] += 1
        g[3] |= preds
        if size < g[1]:
            g[1], g[2] = size, sc
    for what, (n, size, sc, preds) in sorted(groups.items()):
        ex = "s=%s" % sc["case"]["s"] if sc.get("case", {}).get("k") == "col" else size[2]
        print("# C09 %-62s %6d input(s) violate %s; smallest: %s" % (what, n, ",".join(sorted(preds)), ex))


def replay(doc, verbose=True):
    """Re-executes the case of a replay file written by vlib.report on the current tree; exit code as a check."""
    sched = doc["schedule"]
    vlib.build_harness("yx_wire")
    wd = os.path.join(vlib.WORK, "replay-C09")
    shutil.rmtree(wd, ignore_errors=True)
    os.makedirs(wd)
    cfile, tfile = os.path.join(wd, "case.ndjson"), os.path.join(wd, "trace.ndjson")
    with open(cfile, "w") as f:
        f.write(json.dumps({"cid": sched["cid"], "case": sched["case"]}) + "\n")
    rc, out = vlib.sh([yx_wire(), "run", "--in", cfile, "--out", tfile])
    if rc != 0:
        raise vlib.ToolError("yx_wire run failed: %s" % out[-1000:])
    m = vlib.validate("Trace_Wire", "Trace_Wire.cfg", tfile, os.path.join(wd, "v"), parallel=1)
    if verbose:
        with open(tfile) as f:
            for ln in f:
                e = json.loads(ln)
                if e.get("k") == "col":
                    for c in e["cols"]:
                        if c["outcome"] != "ok" or c["out"] != c["inp"]:
                            print("  %s %s map=%s wrote %s read %s (%s) %s" % (c["col"], c["enc"], c["map"], c["inp"], c["out"], c["outcome"], c["conc"]))
                elif e.get("k") != "reset":
                    for fld in ("x", "v1", "v2", "x12"):
                        if fld in e:
                            print("  %-3s ok=%s %s %s" % (fld, e[fld]["ok"], e[fld]["msg"], e[fld]["c"]))
                    for i, x in enumerate(e.get("eff", [])):
                        print("  effect[%d] ok=%s %s" % (i, x["ok"], x["msg"]))
    for v in m["viol"]:
        print("violated: %s by %s" % (v[1], v[0]))
    return vlib.EXIT_VIOLATION if m["viol"] else vlib.EXIT_OK


def check(prop, tier):
    ev, res, drift_kinds, kept = run(tier)
    summary(res["bad"])
    for what, names in sorted(drift_kinds.items()):
        print("DRIFT property=C09 %s in %d case(s), e.g. %s  # implementation-level prediction differs, property predicates hold"
              % (what, len(names), sorted(names)[0]))
    rc = vlib.report(prop, ev, [res], ["C09_"])
    if kept:
        vlib.log("traces with violations kept: %s" % " ".join(kept))
    ev.write()
    return rc


def manifest_entries():
    return [{
        "property_id": "C09",
        "quick_cmd": "./check C09 --tier quick",
        "thorough_cmd": "./check C09 --tier thorough",
        "evidence_file": "evidence/C09.json",
        "replay_cmd_template": "./check replay {path}",
        "engine": "wire",
        "level_claimed": {
            "category": "model_checking",
            "text": ("Restricted scope (DESIGN.md 6/C09). (1) The lib0 v2 column codecs (UIntOptRle, IntDiffOptRle, Rle, string table, key "
                     "table, delete-set clock stream) are transcribed into Wire.tla as state machines over ideal integers; TLC proves "
                     "Decode(Encode(s)) = s for all sequences over a 4-letter alphabet up to length 6 (quick) / 8 (thorough); every such "
                     "sequence is then written through the public EncoderV2 trait methods of yrs with several concrete value maps "
                     "(53-bit client ids, varint boundaries, clock differences up to and beyond 2^30), read back through DecoderV2, and "
                     "TLC compares the values (C09_ColumnRoundTrip) and the independently tokenised bytes (drift). (2) TLC enumerates the "
                     "class combinations of a grammar model of every wire type; one representative per class (hand-encoded with an "
                     "independent lib0-v1 encoder where the Rust API cannot create it: JSON, Binary, Deleted, GC, Skip, XmlHook) goes "
                     "through decode/encode v1, v2, v1->v2->v1 and is applied to documents; TLC evaluates C09_RoundTripV1/V2, "
                     "C09_CrossEncoding, C09_SameEffect. (3) 14 Yjs payloads from the yrs test-suite: C09_YjsPayload. Parts 2-3 are "
                     "exhaustive enumerations of a finite class model, not proofs over all values."),
            "design_ref": "DESIGN.md section 6/C09"},
        "level_note": ("NOT covered: arbitrary integers, floats and unicode (only the listed representatives and boundaries: 0/31/32/63/64/127/"
                       "128/8192/2^29/2^30-1/2^30/2^31-1/2^32-1 clocks, 1/2^32-1/2^32/2^53-1 clients, empty/ASCII/2-/3-/4-byte strings); "
                       "sequences longer than 8 or alphabets beyond 4 letters; v2 payloads are judged through the library's own v1 "
                       "encoder (no independent v2 update decoder, only an independent tokeniser of the column buffers); sub-document "
                       "options other than guid/gc/autoLoad/collectionId (shouldLoad is receiver-local, Yjs `meta` is not modelled); the "
                       "large Yjs corpora in assets/ (editing traces, b4 datasets); decoder behaviour on malformed input (C10). "
                       "Trusted: TLC, the harness codecs and canonical renderings, hook H1."),
        "technique": ("TLA+ spec (Wire/MC_Wire) model-checked with TLC; TLC-enumerated sequences and classes executed on real yrs "
                      "encoders/decoders; recorded traces validated by TLC against Trace_Wire"),
    }]
