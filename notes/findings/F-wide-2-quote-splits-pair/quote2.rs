use yrs::updates::decoder::Decode;
use yrs::{Doc, GetString, Map, OffsetKind, Options, Quotable, ReadTxn, StateVector, Text, Transact, Update};

fn mk(id: u64, k: OffsetKind) -> Doc {
    let mut o = Options::default();
    o.client_id = yrs::block::ClientID::new(id);
    o.offset_kind = k;
    Doc::with_options(o)
}

fn main() {
    for with_quote in [false, true] {
        let a = mk(1, OffsetKind::Bytes);
        let t = a.get_or_insert_text("t");
        let m = a.get_or_insert_map("m");
        let b = mk(2, OffsetKind::Bytes);
        let tb = b.get_or_insert_text("t");
        b.get_or_insert_map("m");
        t.insert(&mut a.transact_mut(), 0, "x😀yz");
        if with_quote {
            // quote "x😀": offsets 0 and 1 are character boundaries of the bytes document
            let mut txn = a.transact_mut();
            let q = t.quote(&txn, 0..=1).unwrap();
            m.insert(&mut txn, "q", q);
        }
        // the author goes on typing: "W" between y and z (byte offset 1 + 4 + 1)
        t.insert(&mut a.transact_mut(), 6, "W");
        let u = a.transact().encode_state_as_update_v1(&StateVector::default());
        let r = std::panic::catch_unwind(std::panic::AssertUnwindSafe(|| b.transact_mut().apply_update(Update::decode_v1(&u).unwrap())));
        println!("with quotation: {:<5}  author {:?} len {}   peer {:?} (apply: {:?})  update {:?}", with_quote, t.get_string(&a.transact()), t.len(&a.transact()),
            tb.get_string(&b.transact()), r.map(|x| x.is_ok()).map_err(|_| "panic"), Update::decode_v1(&u).map(|u| format!("{:?}", u)).unwrap_or_default());
    }
}
