use std::ops::Bound;
use yrs::updates::decoder::Decode;
use yrs::{Doc, GetString, Map, OffsetKind, Options, Out, Quotable, ReadTxn, Text, TextRef, Transact, Update, WeakRef};

fn mk(id: u64, k: OffsetKind) -> Doc {
    let mut o = Options::default();
    o.client_id = yrs::block::ClientID::new(id);
    o.offset_kind = k;
    Doc::with_options(o)
}

fn read(doc: &Doc) -> String {
    let txn = doc.transact();
    let m = txn.get_map("m").unwrap();
    match m.get(&txn, "q") {
        Some(Out::YWeakLink(w)) => {
            let t: WeakRef<TextRef> = WeakRef::from(w);
            t.get_string(&txn)
        }
        _ => "<none>".into(),
    }
}

/// text "x😀yz"; quote `range` (offsets of the author's kind) on a document of kind `kind`; read it there and on a peer of the other kind
fn case(kind: OffsetKind, what: &str, range: (Bound<u32>, Bound<u32>), expect: &str) {
    let other = if kind == OffsetKind::Bytes { OffsetKind::Utf16 } else { OffsetKind::Bytes };
    let a = mk(1, kind);
    let t = a.get_or_insert_text("t");
    let m = a.get_or_insert_map("m");
    let b = mk(2, other);
    b.get_or_insert_text("t");
    b.get_or_insert_map("m");
    t.insert(&mut a.transact_mut(), 0, "x😀yz");
    {
        let mut txn = a.transact_mut();
        let q = t.quote(&txn, range).unwrap();
        m.insert(&mut txn, "q", q);
    }
    let u = a.transact().encode_state_as_update_v1(&Default::default());
    b.transact_mut().apply_update(Update::decode_v1(&u).unwrap()).unwrap();
    let (ra, rb) = (read(&a), read(&b));
    println!("{:?} {:<34} expected {:<8} author {:<8} peer({:?}) {:<8} {}", kind, what, format!("{:?}", expect), format!("{:?}", ra), other, format!("{:?}", rb),
        if ra == expect && rb == expect { "" } else { "<-- WRONG" });
}

fn main() {
    use Bound::*;
    // bytes: x = 0, emoji = 1..5, y = 5, z = 6
    case(OffsetKind::Bytes, "[x ..= emoji]  0..=1", (Included(0), Included(1)), "x😀");
    case(OffsetKind::Bytes, "[x .. y)       0..5", (Included(0), Excluded(5)), "x😀");
    case(OffsetKind::Bytes, "[emoji ..]     1..", (Included(1), Unbounded), "😀yz");
    case(OffsetKind::Bytes, "(emoji ..]     (1, ..)", (Excluded(1), Unbounded), "yz");
    case(OffsetKind::Bytes, "(x ..= emoji]  (0, 1]", (Excluded(0), Included(1)), "😀");
    // utf16: x = 0, emoji = 1..3, y = 3, z = 4; a bound names a code unit, whole characters only
    case(OffsetKind::Utf16, "[x ..= emoji]  0..=2", (Included(0), Included(2)), "x😀");
    case(OffsetKind::Utf16, "[x .. y)       0..3", (Included(0), Excluded(3)), "x😀");
    case(OffsetKind::Utf16, "[emoji ..]     1..", (Included(1), Unbounded), "😀yz");
    case(OffsetKind::Utf16, "(emoji ..]     (2, ..)", (Excluded(2), Unbounded), "yz");
    case(OffsetKind::Utf16, "(x ..= emoji]  (0, 2]", (Excluded(0), Included(2)), "😀");
}
