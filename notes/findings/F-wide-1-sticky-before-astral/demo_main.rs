use yrs::updates::decoder::Decode;
use yrs::updates::encoder::Encode;
use yrs::{Assoc, Doc, GetString, IndexedSequence, OffsetKind, Options, ReadTxn, StickyIndex, Text, Transact, Update};

fn mk(id: u64, k: OffsetKind) -> Doc {
    let mut o = Options::default();
    o.client_id = yrs::block::ClientID::new(id);
    o.offset_kind = k;
    Doc::with_options(o)
}

fn main() {
    // A counts in bytes, B in UTF-16 units (as every Yjs peer does)
    let a = mk(1, OffsetKind::Bytes);
    let b = mk(2, OffsetKind::Utf16);
    let ta = a.get_or_insert_text("t");
    let tb = b.get_or_insert_text("t");
    ta.insert(&mut a.transact_mut(), 0, "a😀b");
    let u = a.transact().encode_state_as_update_v1(&Default::default());
    b.transact_mut().apply_update(Update::decode_v1(&u).unwrap()).unwrap();
    // cursor directly behind the emoji, sticking to it (Assoc::Before), created on A: byte offset 1 + 4
    let sa = ta.sticky_index(&a.transact(), 5, Assoc::Before).unwrap();
    // the same cursor created on B: unit offset 1 + 2
    let sb = tb.sticky_index(&b.transact(), 3, Assoc::Before).unwrap();
    println!("created on A (bytes): {:?}", sa);
    println!("created on B (utf16): {:?}", sb);
    let sa_on_b = StickyIndex::decode_v1(&sa.encode_v1()).unwrap();
    let sb_on_a = StickyIndex::decode_v1(&sb.encode_v1()).unwrap();
    println!("A's index on A: {:?} (expected 5)", sa.get_offset(&a.transact()).map(|o| o.index));
    println!("A's index on B: {:?} (expected 3)", sa_on_b.get_offset(&b.transact()).map(|o| o.index));
    println!("B's index on B: {:?} (expected 3)", sb.get_offset(&b.transact()).map(|o| o.index));
    println!("B's index on A: {:?} (expected 5)", sb_on_a.get_offset(&a.transact()).map(|o| o.index));
    println!("{}", tb.get_string(&b.transact()));
}
