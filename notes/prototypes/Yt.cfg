CONSTANTS Clients = {1,2}
 Observers = {9}
 MaxOps = 3
SPECIFICATION TSpec
INVARIANTS Convergence Between PairOrder Closed
POSTCONDITION Post
CHECK_DEADLOCK FALSE
