CONSTANTS Clients = {1,2}
 Observers = {9}
 MaxOps = 3
 Conts = {1,2}
 FIXED = TRUE
SPECIFICATION Spec
INVARIANTS NothingLost PendingIffMissing Converge
CHECK_DEADLOCK FALSE
