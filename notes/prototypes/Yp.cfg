CONSTANTS Clients = {1,2}
 Observers = {9}
 MaxOps = 2
SPECIFICATION Spec
INVARIANTS Convergence Between PairOrder Closed
CHECK_DEADLOCK FALSE
