CONSTANTS Clients = {1,2}
 Observers = {9}
 MaxOps = 3
SPECIFICATION Spec
INVARIANTS Convergence Between PairOrder Closed PrintDone
CHECK_DEADLOCK FALSE
