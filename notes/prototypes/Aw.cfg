CONSTANTS Owners = {1,2}
 Obs = {8,9}
 MaxClock = 3
 Vals = {"x","y"}
SPECIFICATION Spec
INVARIANTS OrderInsensitive SameClockSameLive
CHECK_DEADLOCK FALSE
