---- MODULE Yf ----
EXTENDS Naturals, Sequences, FiniteSets, TLC
CONSTANTS Clients, Observers, MaxOps, Conts, FIXED
Replicas == Clients \cup Observers
None == <<0,0>>
VARIABLES items, nxt, seq, stash, pmiss, top, msgs, ops, got
vars == <<items, nxt, seq, stash, pmiss, top, msgs, ops, got>>

HaveC(r, k) == {seq[r][k][i] : i \in 1..Len(seq[r][k])}
Have(r) == UNION {HaveC(r,k) : k \in Conts}
Pos(s, id) == CHOOSE i \in 1..Len(s) : s[i] = id
InsertAt(s, i, x) == SubSeq(s,1,i) \o <<x>> \o SubSeq(s,i+1,Len(s))

RECURSIVE Scan(_,_,_,_,_,_,_)
Scan(s, it, o, ri, left, conf, before) ==
  IF o >= ri THEN left
  ELSE LET x == s[o]
           b2 == before \cup {x}
           c2 == conf \cup {x}
       IN IF items[x].origin = items[it].origin
          THEN IF x[1] < it[1] THEN Scan(s, it, o+1, ri, o, {}, b2)
               ELSE IF items[x].rorigin = items[it].rorigin THEN left
               ELSE Scan(s, it, o+1, ri, left, c2, b2)
          ELSE IF items[x].origin # None /\ items[x].origin \in b2
               THEN IF items[x].origin \notin c2 THEN Scan(s, it, o+1, ri, o, {}, b2)
                    ELSE Scan(s, it, o+1, ri, left, c2, b2)
               ELSE left
Integrate(s, it) ==
  LET li == IF items[it].origin = None THEN 0 ELSE Pos(s, items[it].origin)
      ri == IF items[it].rorigin = None THEN Len(s)+1 ELSE Pos(s, items[it].rorigin)
  IN InsertAt(s, Scan(s, it, li+1, ri, li, {}, {}), it)

Deps(it) == {items[it].origin, items[it].rorigin} \ {None}
\* is_missing as in the code: beyond the list end, or inside a hole
Missing(sq, tp, id) == id[2] >= tp[id[1]] \/ id \notin UNION {{sq[k][i] : i \in 1..Len(sq[k])} : k \in Conts}
MaxN(a,b) == IF a > b THEN a ELSE b
MinN(a,b) == IF a < b THEN a ELSE b
\* integrate everything integrable (fix-point), returns <<seqs, top, rest>>
RECURSIVE IntegrateAll(_,_,_)
IntegrateAll(sq, tp, cand) ==
  LET ready == {x \in cand : \A d \in Deps(x) : ~Missing(sq, tp, d)}
  IN IF ready = {} THEN <<sq, tp, cand>>
     ELSE LET x == CHOOSE y \in ready : \A z \in ready : (y[1] > z[1]) \/ (y[1] = z[1] /\ y[2] <= z[2])
              k == items[x].cont
          IN IntegrateAll([sq EXCEPT ![k] = Integrate(sq[k], x)], [tp EXCEPT ![x[1]] = MaxN(@, x[2]+1)], cand \ {x})
FirstMissing(sq, tp, x) == IF items[x].origin # None /\ Missing(sq, tp, items[x].origin) THEN items[x].origin ELSE items[x].rorigin
\* missing vector for a set of stashed units
NoClock == 999
MissVec(sq, tp, rest, old) ==
  [c \in Clients |->
     LET ds == {FirstMissing(sq, tp, x) : x \in rest}
         mine == {d \in ds : d[1] = c}
     IN IF mine = {} THEN old[c]
        ELSE IF FIXED THEN MinN(old[c], CHOOSE m \in {d[2] : d \in mine} : \A n \in {d[2] : d \in mine} : m <= n)
             ELSE MinN(old[c], tp[c])]
\* one apply_update incl. retry
RECURSIVE Apply(_,_,_,_,_,_)
Apply(sq, tp, st, pm, ins, depth) ==
  LET hv == UNION {{sq[k][i] : i \in 1..Len(sq[k])} : k \in Conts}
      res == IntegrateAll(sq, tp, ins \ hv)
      sq2 == res[1] tp2 == res[2] rest == res[3]
      \* step 3: retry decision on the OLD pending, evaluated after integrating the new update
      retry == st # {} /\ \E c \in Clients : pm[c] # NoClock /\
                  (IF FIXED THEN ~Missing(sq2, tp2, <<c, pm[c]>>) ELSE pm[c] < tp2[c])
      pm2 == MissVec(sq2, tp2, rest, pm)
      st2 == st \cup rest
  IN IF retry /\ depth < 4
     THEN Apply(sq2, tp2, {}, [c \in Clients |-> NoClock], st2, depth + 1)
     ELSE <<sq2, tp2, st2, IF st2 = {} THEN [c \in Clients |-> NoClock] ELSE pm2>>

Init == /\ items = [i \in {} |-> 0] /\ nxt = [c \in Clients |-> 0]
        /\ seq = [r \in Replicas |-> [k \in Conts |-> <<>>]]
        /\ stash = [r \in Replicas |-> {}] /\ pmiss = [r \in Replicas |-> [c \in Clients |-> NoClock]]
        /\ top = [r \in Replicas |-> [c \in Clients |-> 0]]
        /\ msgs = {} /\ ops = 0 /\ got = [r \in Replicas |-> {}]

Insert(r, k, p) ==
  /\ r \in Clients /\ ops < MaxOps /\ ops' = ops + 1
  /\ LET s == seq[r][k]
         id == <<r, nxt[r]>>
         o == IF p = 0 THEN None ELSE s[p]
         ro == IF p = Len(s) THEN None ELSE s[p+1]
     IN /\ items' = [i \in DOMAIN items \cup {id} |-> IF i = id THEN [origin |-> o, rorigin |-> ro, cont |-> k] ELSE items[i]]
        /\ seq' = [seq EXCEPT ![r][k] = InsertAt(s, p, id)]
        /\ msgs' = msgs \cup {id}
        /\ top' = [top EXCEPT ![r][r] = nxt[r] + 1]
        /\ got' = [got EXCEPT ![r] = @ \cup {id}]
  /\ nxt' = [nxt EXCEPT ![r] = @ + 1]
  /\ UNCHANGED <<stash, pmiss>>

Deliver(r, id) ==
  LET res == Apply(seq[r], top[r], stash[r], pmiss[r], {id}, 0)
  IN /\ seq' = [seq EXCEPT ![r] = res[1]] /\ top' = [top EXCEPT ![r] = res[2]]
     /\ stash' = [stash EXCEPT ![r] = res[3]] /\ pmiss' = [pmiss EXCEPT ![r] = res[4]]
     /\ got' = [got EXCEPT ![r] = @ \cup {id}]
     /\ UNCHANGED <<items, nxt, msgs, ops>>

Next == \/ \E r \in Clients, k \in Conts : \E p \in 0..Len(seq[r][k]) : Insert(r, k, p)
        \/ \E r \in Replicas : \E id \in msgs \ got[r] : Deliver(r, id)
Spec == Init /\ [][Next]_vars

NothingLost == \A r \in Replicas : got[r] = Have(r) \cup stash[r]
PendingIffMissing == \A r \in Replicas : (stash[r] # {}) <=> (\E x \in got[r] \ Have(r) : ~(Deps(x) \subseteq Have(r)))
Converge == \A a, b \in Replicas : Have(a) = Have(b) => seq[a] = seq[b]
====
