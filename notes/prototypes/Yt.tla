---- MODULE Yt ----
EXTENDS Naturals, Sequences, FiniteSets, TLC, Json, IOUtils
CONSTANTS Clients, Observers, MaxOps
Replicas == Clients \cup Observers
None == <<0,0>>
VARIABLES items, nxt, seq, del, stash, sds, msgs, ops
vars == <<items, nxt, seq, del, stash, sds, msgs, ops>>

Ids == {<<c,k>> : c \in Clients, k \in 0..(MaxOps-1)}
Have(r) == {seq[r][i] : i \in 1..Len(seq[r])}
Pos(s, id) == CHOOSE i \in 1..Len(s) : s[i] = id
Vis(r) == SelectSeq(seq[r], LAMBDA x : x \notin del[r])
InsertAt(s, i, x) == SubSeq(s,1,i) \o <<x>> \o SubSeq(s,i+1,Len(s))   \* after index i

\* YATA: returns index after which `it` goes
RECURSIVE Scan(_,_,_,_,_,_,_)
Scan(s, it, o, ri, left, conf, before) ==
  IF o >= ri THEN left
  ELSE LET x == s[o]
           b2 == before \cup {x}
           c2 == conf \cup {x}
       IN IF items[x].origin = items[it].origin
          THEN IF x[1] < it[1] THEN Scan(s, it, o+1, ri, o, {}, b2)
               ELSE IF items[x].rorigin = items[it].rorigin THEN left
               ELSE Scan(s, it, o+1, ri, left, c2, b2)
          ELSE IF items[x].origin # None /\ items[x].origin \in b2
               THEN IF items[x].origin \notin c2 THEN Scan(s, it, o+1, ri, o, {}, b2)
                    ELSE Scan(s, it, o+1, ri, left, c2, b2)
               ELSE left

Integrate(s, it) ==
  LET li == IF items[it].origin = None THEN 0 ELSE Pos(s, items[it].origin)
      ri == IF items[it].rorigin = None THEN Len(s)+1 ELSE Pos(s, items[it].rorigin)
      at == Scan(s, it, li+1, ri, li, {}, {})
  IN InsertAt(s, at, it)

Deps(it) == {items[it].origin, items[it].rorigin} \ {None}
\* integrate all integrable candidates, deterministic order
RECURSIVE IntegrateAll(_,_)
IntegrateAll(s, cand) ==
  LET hv == {s[i] : i \in 1..Len(s)}
      ready == {x \in cand : Deps(x) \subseteq hv /\ (x[2] = 0 \/ TRUE)}
  IN IF ready = {} THEN <<s, cand>>
     ELSE LET x == CHOOSE y \in ready : \A z \in ready : (y[1] > z[1]) \/ (y[1] = z[1] /\ y[2] <= z[2])
          IN IntegrateAll(Integrate(s, x), cand \ {x})

Init == /\ items = [i \in {} |-> 0] /\ nxt = [c \in Clients |-> 0]
        /\ seq = [r \in Replicas |-> <<>>] /\ del = [r \in Replicas |-> {}]
        /\ stash = [r \in Replicas |-> {}] /\ sds = [r \in Replicas |-> {}] /\ msgs = {} /\ ops = [c \in Clients |-> 0]

Insert(r, p) ==
  /\ r \in Clients /\ TRUE /\ ops' = [ops EXCEPT ![r] = @+1]
  /\ LET v == Vis(r)
         id == <<r, nxt[r]>>
         \* text rule: left = visible elem p (or none), then skip tombstones to the right
         lpos == IF p = 0 THEN 0 ELSE Pos(seq[r], v[p])
         RECURSIVE Skip(_)
         Skip(i) == IF i < Len(seq[r]) /\ seq[r][i+1] \in del[r] THEN Skip(i+1) ELSE i
         at == Skip(lpos)
         o == IF at = 0 THEN None ELSE seq[r][at]
         ro == IF at = Len(seq[r]) THEN None ELSE seq[r][at+1]
     IN /\ items' = [i \in DOMAIN items \cup {id} |-> IF i = id THEN [origin |-> o, rorigin |-> ro] ELSE items[i]]
        /\ seq' = [seq EXCEPT ![r] = InsertAt(seq[r], at, id)]
        /\ msgs' = msgs \cup {[ins |-> {id}, del |-> {}]}
  /\ nxt' = [nxt EXCEPT ![r] = @ + 1]
  /\ UNCHANGED <<del, stash, sds>>

Delete(r, p) ==
  /\ r \in Clients /\ TRUE /\ ops' = [ops EXCEPT ![r] = @+1]
  /\ LET v == Vis(r) IN
     /\ del' = [del EXCEPT ![r] = @ \cup {v[p]}]
     /\ msgs' = msgs \cup {[ins |-> {}, del |-> {v[p]}]}
  /\ UNCHANGED <<items, nxt, seq, stash, sds>>

Deliver(r, u) ==
  LET cand == (u.ins \cup stash[r]) \ Have(r)
      res == IntegrateAll(seq[r], cand)
      hv2 == {res[1][i] : i \in 1..Len(res[1])}
      ds == u.del \cup sds[r]
  IN /\ seq' = [seq EXCEPT ![r] = res[1]]
     /\ stash' = [stash EXCEPT ![r] = res[2]]
     /\ del' = [del EXCEPT ![r] = @ \cup (ds \cap hv2)]
     /\ sds' = [sds EXCEPT ![r] = ds \ hv2]
     /\ UNCHANGED <<items, nxt, msgs, ops>>

Rec == ndJsonDeserialize(IOEnv.TRACE)
VARIABLES l, got, viol
tvars == <<vars, l, got, viol>>
ToSet(q) == {<<q[i][1], q[i][2]>> : i \in 1..Len(q)}
DeliverAll(r, U) ==
  LET cand == ((UNION {u.ins : u \in U}) \cup stash[r]) \ Have(r)
      res == IntegrateAll(seq[r], cand)
      hv2 == {res[1][i] : i \in 1..Len(res[1])}
      ds == (UNION {u.del : u \in U}) \cup sds[r]
  IN /\ seq' = [seq EXCEPT ![r] = res[1]]
     /\ stash' = [stash EXCEPT ![r] = res[2]]
     /\ del' = [del EXCEPT ![r] = @ \cup (ds \cap hv2)]
     /\ sds' = [sds EXCEPT ![r] = ds \ hv2]
     /\ UNCHANGED <<items, nxt, msgs, ops>>
Ev == Rec[l]
TInit == Init /\ l = 1 /\ got = [r \in Replicas |-> {}] /\ viol = {}
TNext == /\ l <= Len(Rec) /\ l' = l + 1
         /\ \/ /\ Ev.k = "ins" /\ Insert(Ev.r, Ev.p) /\ UNCHANGED <<got>>
            \/ /\ Ev.k = "del" /\ Delete(Ev.r, Ev.p) /\ UNCHANGED <<got>>
            \/ /\ Ev.k = "sync" /\ DeliverAll(Ev.b, msgs \ got[Ev.b]) /\ got' = [got EXCEPT ![Ev.b] = msgs]
            \/ /\ Ev.k = "dlv" /\ Deliver(Ev.r, [ins |-> ToSet(Ev.ins), del |-> ToSet(Ev.del)]) /\ UNCHANGED <<got, ops>>
            \/ /\ Ev.k = "reset" /\ items' = [i \in {} |-> 0] /\ nxt' = [c \in Clients |-> 0]
                  /\ seq' = [r \in Replicas |-> <<>>] /\ del' = [r \in Replicas |-> {}]
                  /\ stash' = [r \in Replicas |-> {}] /\ sds' = [r \in Replicas |-> {}] /\ msgs' = {} /\ ops' = [c \in Clients |-> 0]
                  /\ got' = [r \in Replicas |-> {}]
         /\ viol' = viol
TSpec == TInit /\ [][TNext]_tvars
Accepted == IF l = Len(Rec) + 1 THEN TRUE ELSE Print(<<"STUCK at", l, Rec[l]>>, FALSE)
Post == TLCGet("stats").diameter = Len(Rec) + 1
Delivered(r) == Have(r) \cup stash[r]
Convergence == \A a, b \in Replicas : (Have(a) = Have(b) /\ del[a] \cup sds[a] = del[b] \cup sds[b]) => (seq[a] = seq[b])
Between == \A r \in Replicas : \A i \in 1..Len(seq[r]) :
   LET it == seq[r][i] IN
     /\ (items[it].origin # None => Pos(seq[r], items[it].origin) < i)
     /\ (items[it].rorigin # None => Pos(seq[r], items[it].rorigin) > i)
PairOrder == \A a, b \in Replicas : \A x, y \in Have(a) \cap Have(b) :
     (Pos(seq[a], x) < Pos(seq[a], y)) <=> (Pos(seq[b], x) < Pos(seq[b], y))
Closed == \A r \in Replicas : \A x \in stash[r] : ~(Deps(x) \subseteq Have(r))
DelLimit == Cardinality(UNION {del[r] : r \in Replicas}) <= 1
====
