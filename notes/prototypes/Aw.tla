---- MODULE Aw ----
EXTENDS Naturals, FiniteSets, TLC
CONSTANTS Owners, Obs, MaxClock, Vals
Peers == Owners \cup Obs
Absent == [clock |-> 0, data |-> "absent"]
VARIABLES st, msgs, recvd
vars == <<st, msgs, recvd>>
Init == st = [p \in Peers |-> [c \in {1} |-> Absent]] /\ msgs = {} /\ recvd = [p \in Peers |-> {}]
Present(p,c) == st[p][c].data # "absent"
SetLocal(p, v) == /\ p \in Owners /\ st[p][p].clock < MaxClock
   /\ st' = [st EXCEPT ![p][p] = [clock |-> IF Present(p,p) THEN @.clock + 1 ELSE 1, data |-> v]]
   /\ UNCHANGED <<msgs, recvd>>
Remove(p, c) == /\ p \in Owners /\ st[p][c].clock < MaxClock
   /\ st' = [st EXCEPT ![p][c] = IF Present(p,c) THEN [clock |-> @.clock + 1, data |-> "null"] ELSE [clock |-> 1, data |-> "null"]]
   /\ UNCHANGED <<msgs, recvd>>
Emit(p, c) == /\ p \in Owners /\ Present(p,c) /\ msgs' = msgs \cup {<<c, st[p][c].clock, st[p][c].data>>} /\ UNCHANGED <<st, recvd>>
Apply(p, e) ==
  LET c == e[1] clock == e[2] new == e[3] cur == st[p][c] IN
  /\ recvd' = [recvd EXCEPT ![p] = @ \cup {e}]
  /\ UNCHANGED msgs
  /\ IF ~Present(p,c) THEN st' = [st EXCEPT ![p][c] = [clock |-> clock, data |-> new]]
     ELSE LET isRemoved == cur.clock = clock /\ new = "null" /\ cur.data # "null" IN
          IF cur.clock < clock \/ isRemoved THEN
             IF new = "null" THEN
                IF c = p /\ cur.data # "null" THEN st' = [st EXCEPT ![p][c] = [clock |-> clock + 1, data |-> cur.data]]
                ELSE st' = [st EXCEPT ![p][c] = [clock |-> clock, data |-> "null"]]
             ELSE st' = [st EXCEPT ![p][c] = [clock |-> clock, data |-> new]]
          ELSE UNCHANGED st
Next == \/ \E v \in Vals : SetLocal(1, v)
        \/ \E p \in Owners : Remove(p, 1)
        \/ \E p \in Owners : Emit(p, 1)
        \/ \E p \in Peers, e \in msgs : Apply(p, e)
Spec == Init /\ [][Next]_vars
OrderInsensitive == \A a, b \in Obs : recvd[a] = recvd[b] => st[a] = st[b]
ClockBound == \A p \in Peers, c \in {1} : st[p][c].clock <= MaxClock + 2
SameClockSameLive == \A e1, e2 \in msgs : (e1[1] = e2[1] /\ e1[2] = e2[2] /\ e1[3] # "null" /\ e2[3] # "null") => e1[3] = e2[3]
====
