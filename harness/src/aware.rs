//! X stage for the `Awareness` specification (C18): executes abstract schedules on real
//! `yrs::sync::Awareness` instances driven by a controlled clock and records one ndjson event per
//! spec action.  Every update crosses between peers as bytes (`encode_v1` / `decode_v1`).  After
//! every step the full register of the acting peer is recorded twice: through `Awareness::iter`
//! and through `Awareness::meta` + `Awareness::state` (probing every client id of the run).
//! The harness decides nothing: it drives and describes.

use serde_json::{json, Value};
use std::io::Write;
use std::panic::{catch_unwind, AssertUnwindSafe};
use std::sync::atomic::{AtomicU64, Ordering};
use std::sync::Arc;
use yrs::block::ClientID;
use yrs::sync::{Awareness, AwarenessUpdate};
use yrs::updates::decoder::Decode;
use yrs::updates::encoder::Encode;
use yrs::{Doc, Options};

pub struct Peer {
    pub id: u64,
    pub aw: Awareness,
}

pub struct World {
    pub peers: Vec<Peer>,
    pub ids: Vec<u64>,
    pub now: Arc<AtomicU64>,
    /// updates in emission order, as the bytes that travel
    pub log: Vec<Vec<u8>>,
}

pub fn panic_msg(p: &Box<dyn std::any::Any + Send>) -> String {
    if let Some(s) = p.downcast_ref::<&str>() {
        s.to_string()
    } else if let Some(s) = p.downcast_ref::<String>() {
        s.clone()
    } else {
        "?".into()
    }
}

/// JSON text of a state -> the value tag used by the specification (a JSON string is its text,
/// anything else its JSON text; a removed state is "null").
pub fn data_tag(data: Option<&str>) -> String {
    match data {
        None => "null".into(),
        Some(s) => match serde_json::from_str::<Value>(s) {
            Ok(Value::String(x)) => x,
            _ => s.to_string(),
        },
    }
}

fn value_tag(v: Option<Value>) -> String {
    match v {
        None => "null".into(),
        Some(Value::String(s)) => s,
        Some(other) => other.to_string(),
    }
}

pub fn entries_json(u: &AwarenessUpdate) -> Value {
    let mut v: Vec<(u64, u32, String)> = u.clients.iter().map(|(c, e)| (c.get(), e.clock, data_tag(if e.json.as_ref() == "null" { None } else { Some(e.json.as_ref()) }))).collect();
    v.sort();
    Value::Array(v.into_iter().map(|(c, k, d)| json!({"c": c, "k": k, "d": d})).collect())
}

/// register as `Awareness::iter` shows it
pub fn reg_iter(aw: &Awareness) -> Value {
    let mut v: Vec<(u64, u32, String, u64)> = aw.iter().map(|(c, s)| (c.get(), s.clock, data_tag(s.data.as_deref()), s.last_updated)).collect();
    v.sort();
    Value::Array(v.into_iter().map(|(c, k, d, t)| json!({"c": c, "k": k, "d": d, "t": t})).collect())
}

/// register as `Awareness::meta` + `Awareness::state` show it for the probed client ids
pub fn reg_acc(aw: &Awareness, ids: &[u64]) -> Value {
    let mut out = Vec::new();
    for c in ids {
        if let Some((k, t)) = aw.meta(ClientID::new(*c)) {
            let d = value_tag(aw.state::<Value>(ClientID::new(*c)));
            out.push(json!({"c": c, "k": k, "d": d, "t": t}));
        }
    }
    Value::Array(out)
}

impl World {
    pub fn new(cfg: &Value) -> World {
        let now = Arc::new(AtomicU64::new(0));
        let mut peers = Vec::new();
        let mut ids = Vec::new();
        for p in cfg["peers"].as_array().cloned().unwrap_or_default() {
            let id = p["id"].as_u64().unwrap();
            let mut o = Options::default();
            o.client_id = ClientID::new(id);
            let doc = Doc::with_options(o);
            let n = now.clone();
            let aw = Awareness::with_clock(doc, move || n.load(Ordering::SeqCst));
            peers.push(Peer { id, aw });
            ids.push(id);
        }
        // a client id nobody owns is probed as well
        ids.push(77);
        World { peers, ids, now, log: Vec::new() }
    }

    fn peer(&self, id: u64) -> usize {
        self.peers.iter().position(|p| p.id == id).unwrap_or_else(|| panic!("unknown peer {}", id))
    }

    fn observe(&self, pi: usize, ev: &mut Value) {
        let aw = &self.peers[pi].aw;
        let o = ev.as_object_mut().unwrap();
        o.insert("reg".into(), reg_iter(aw));
        o.insert("acc".into(), reg_acc(aw, &self.ids));
        o.insert("own".into(), json!(value_tag(aw.local_state::<Value>())));
        o.insert("ownraw".into(), json!(data_tag(aw.local_state_raw().as_deref())));
        o.insert("cid".into(), json!(aw.client_id().get()));
    }

    pub fn step(&mut self, ix: usize, st: &Value) -> Value {
        self.now.store(1000 + 10 * ix as u64, Ordering::SeqCst);
        let a = st["a"].as_str().unwrap_or("").to_string();
        let p = st["p"].as_u64().unwrap();
        let pi = self.peer(p);
        let mut ev = json!({"k": a, "p": p, "now": self.now.load(Ordering::SeqCst)});
        let outcome: String;
        match a.as_str() {
            "set" => {
                let v = st["v"].as_str().unwrap().to_string();
                ev["v"] = json!(v);
                let aw = &mut self.peers[pi].aw;
                outcome = match catch_unwind(AssertUnwindSafe(|| aw.set_local_state(json!(v)))) {
                    Ok(Ok(())) => "ok".into(),
                    Ok(Err(e)) => format!("error: {}", e),
                    Err(e) => format!("panic: {}", panic_msg(&e)),
                };
            }
            "clean" => {
                let aw = &mut self.peers[pi].aw;
                outcome = match catch_unwind(AssertUnwindSafe(|| aw.clean_local_state())) {
                    Ok(()) => "ok".into(),
                    Err(e) => format!("panic: {}", panic_msg(&e)),
                };
            }
            "rem" => {
                let c = st["c"].as_u64().unwrap();
                ev["c"] = json!(c);
                let aw = &mut self.peers[pi].aw;
                outcome = match catch_unwind(AssertUnwindSafe(|| aw.remove_state(ClientID::new(c)))) {
                    Ok(()) => "ok".into(),
                    Err(e) => format!("panic: {}", panic_msg(&e)),
                };
            }
            "upd" => {
                let cs: Vec<u64> = st["cs"].as_array().unwrap().iter().map(|x| x.as_u64().unwrap()).collect();
                let how = st["how"].as_str().unwrap_or("subset").to_string();
                ev["cs"] = json!(cs);
                ev["how"] = json!(how);
                let aw = &self.peers[pi].aw;
                let made = catch_unwind(AssertUnwindSafe(|| {
                    if how == "full" {
                        aw.update()
                    } else {
                        aw.update_with_clients(cs.iter().map(|c| ClientID::new(*c)))
                    }
                }));
                match made {
                    Ok(Ok(u)) => {
                        let bytes = u.encode_v1();
                        ev["made"] = entries_json(&u);
                        match catch_unwind(AssertUnwindSafe(|| AwarenessUpdate::decode_v1(&bytes))) {
                            Ok(Ok(d)) => {
                                ev["wire"] = entries_json(&d);
                                ev["rt"] = json!(d == u);
                                outcome = "ok".into();
                            }
                            Ok(Err(e)) => {
                                ev["wire"] = json!([]);
                                ev["rt"] = json!(false);
                                outcome = format!("error: decode: {}", e);
                            }
                            Err(e) => {
                                ev["wire"] = json!([]);
                                ev["rt"] = json!(false);
                                outcome = format!("panic: decode: {}", panic_msg(&e));
                            }
                        }
                        self.log.push(bytes);
                    }
                    Ok(Err(e)) => {
                        ev["made"] = json!([]);
                        ev["wire"] = json!([]);
                        ev["rt"] = json!(false);
                        outcome = format!("error: {}", e);
                        self.log.push(vec![0]);
                    }
                    Err(e) => {
                        ev["made"] = json!([]);
                        ev["wire"] = json!([]);
                        ev["rt"] = json!(false);
                        outcome = format!("panic: {}", panic_msg(&e));
                        self.log.push(vec![0]);
                    }
                }
            }
            "app" => {
                let u = st["u"].as_u64().unwrap() as usize;
                ev["u"] = json!(u);
                let bytes = self.log.get(u - 1).cloned().unwrap_or_else(|| vec![0]);
                let aw = &mut self.peers[pi].aw;
                outcome = match catch_unwind(AssertUnwindSafe(|| -> Result<(), String> {
                    let d = AwarenessUpdate::decode_v1(&bytes).map_err(|e| format!("decode: {}", e))?;
                    aw.apply_update(d).map_err(|e| format!("apply: {}", e))
                })) {
                    Ok(Ok(())) => "ok".into(),
                    Ok(Err(e)) => format!("error: {}", e),
                    Err(e) => format!("panic: {}", panic_msg(&e)),
                };
            }
            other => {
                outcome = format!("bad step {}", other);
            }
        }
        ev["outcome"] = json!(outcome);
        self.observe(pi, &mut ev);
        ev
    }
}

/// Runs every behaviour of a schedule file; writes the trace.
pub fn run(schedules: &str, out: &str) -> std::io::Result<(usize, usize)> {
    let text = std::fs::read_to_string(schedules)?;
    let mut w = std::io::BufWriter::new(std::fs::File::create(out)?);
    let mut nb = 0usize;
    let mut nev = 0usize;
    std::panic::set_hook(Box::new(|_| {}));
    for line in text.lines() {
        if line.trim().is_empty() {
            continue;
        }
        let b: Value = serde_json::from_str(line).expect("schedule line");
        let bid = b["bid"].as_str().unwrap_or("?").to_string();
        let cfg = &b["cfg"];
        let mut world = World::new(cfg);
        writeln!(w, "{}", json!({"k": "reset", "bid": bid, "cfg": cfg}))?;
        for (ix, st) in b["steps"].as_array().unwrap().iter().enumerate() {
            let e = world.step(ix, st);
            writeln!(w, "{}", e)?;
            nev += 1;
        }
        nb += 1;
    }
    w.flush()?;
    Ok((nb, nev))
}
