//! Value-level wire types (everything except updates): state vectors, snapshots, id sets, id maps,
//! sticky indexes, sync messages, awareness updates, Any values.

use super::super::{esc, fixtures};
use super::{canon_yrs_any, guard, res_err, res_ok};
use serde_json::{json, Value};
use std::collections::HashMap;
use std::sync::Arc;
use yrs::block::{BlockRange, ClientID};
use yrs::encoding::read::Error as RErr;
use yrs::sync::awareness::AwarenessUpdateEntry;
use yrs::sync::{AwarenessUpdate, Message, SyncMessage};
use yrs::updates::decoder::{Decode, Decoder};
use yrs::updates::encoder::{Encode, Encoder};
use yrs::{Any, Assoc, ContentAttribute, IdMap, IdSet, IndexScope, Snapshot, StateVector, StickyIndex, ID};

/// Any goes through write_any / read_any of the encoder under test.
struct AnyW(Any);
impl Encode for AnyW {
    fn encode<E: Encoder>(&self, e: &mut E) {
        e.write_any(&self.0)
    }
}
impl Decode for AnyW {
    fn decode<D: Decoder>(d: &mut D) -> Result<Self, RErr> {
        Ok(AnyW(d.read_any()?))
    }
}

/// x, v1 = decode_v1(encode_v1 x), v2 = decode_v2(encode_v2 x), x12 = v1 -> v2 -> v1; first byte of the v1 form.
fn rt<T: Encode + Decode>(v: &T, canon: &dyn Fn(&T) -> String) -> (Value, u8) {
    let one = |s: String| res_ok(vec![s]);
    let x = match guard("render", || Ok(canon(v))) {
        Ok(s) => one(s),
        Err(e) => res_err(&e),
    };
    let mut tag = 0u8;
    let v1 = match guard("v1", || {
        let b = v.encode_v1();
        let d = T::decode_v1(&b).map_err(|e| format!("decode_v1: {}", e))?;
        Ok((canon(&d), b.first().copied().unwrap_or(0)))
    }) {
        Ok((s, t)) => {
            tag = t;
            one(s)
        }
        Err(e) => res_err(&e),
    };
    let v2 = match guard("v2", || {
        let b = v.encode_v2();
        let d = T::decode_v2(&b).map_err(|e| format!("decode_v2: {}", e))?;
        Ok(canon(&d))
    }) {
        Ok(s) => one(s),
        Err(e) => res_err(&e),
    };
    let x12 = match guard("v1->v2->v1", || {
        let d1 = T::decode_v1(&v.encode_v1()).map_err(|e| format!("decode_v1: {}", e))?;
        let d2 = T::decode_v2(&d1.encode_v2()).map_err(|e| format!("decode_v2 of re-encoded: {}", e))?;
        let d3 = T::decode_v1(&d2.encode_v1()).map_err(|e| format!("decode_v1 of re-encoded: {}", e))?;
        Ok(canon(&d3))
    }) {
        Ok(s) => one(s),
        Err(e) => res_err(&e),
    };
    (json!({"k": "val", "x": x, "v1": v1, "v2": v2, "x12": x12, "eff": [], "notes": []}), tag)
}

fn canon_sv(sv: &StateVector) -> String {
    let mut v: Vec<(u64, u32)> = sv.iter().map(|(c, k)| (c.get(), *k)).collect();
    v.sort();
    format!("sv{:?}", v)
}
fn canon_ds(ds: &IdSet) -> String {
    let mut v = Vec::new();
    for (c, ranges) in ds.iter() {
        for r in ranges.iter() {
            v.push(format!("{}:[{},{})", c.get(), r.start, r.end));
        }
    }
    format!("ds[{}]", v.join(" "))
}
fn canon_snap(s: &Snapshot) -> String {
    format!("{} {}", canon_ds(&s.delete_set), canon_sv(&s.state_map))
}
fn canon_idmap(m: &IdMap<String>) -> String {
    let mut v = Vec::new();
    for (c, r) in m.iter() {
        let mut attrs: Vec<String> = r.attrs.iter().map(|a| format!("{}={}", esc(a.name()), esc(a.value()))).collect();
        attrs.sort();
        v.push(format!("{}:[{},{}){{{}}}", c.get(), r.range.start, r.range.end, attrs.join(",")));
    }
    format!("idmap[{}]", v.join(" "))
}
fn canon_sticky(s: &StickyIndex) -> String {
    esc(&format!("{:?}", s))
}
fn canon_aw(a: &AwarenessUpdate) -> String {
    let mut v: Vec<String> = a.clients.iter().map(|(c, e)| format!("{}:{}:'{}'", c.get(), e.clock, esc(&e.json))).collect();
    v.sort();
    format!("aw[{}]", v.join(" "))
}
fn canon_msg(m: &Message) -> String {
    match m {
        Message::Sync(SyncMessage::SyncStep1(sv)) => format!("sync1 {}", canon_sv(sv)),
        Message::Sync(SyncMessage::SyncStep2(u)) => format!("sync2 {:?}", u).replace(' ', ""),
        Message::Sync(SyncMessage::Update(u)) => format!("update {:?}", u).replace(' ', ""),
        Message::Auth(r) => format!("auth {:?}", r),
        Message::AwarenessQuery => "awq".into(),
        Message::Awareness(a) => format!("awareness {}", canon_aw(a)),
        Message::Custom(t, d) => format!("custom {} {:?}", t, d).replace(", ", ","),
    }
}

const BIGC: u64 = 9007199254740991;
fn cid(c: u64) -> ClientID {
    ClientID::new(c)
}
fn mk_sv(shape: &str) -> StateVector {
    let v: Vec<(u64, u32)> = match shape {
        "empty" => vec![],
        "one" => vec![(1, 1)],
        "two" => vec![(1, 127), (2, 128)],
        "big" => vec![(BIGC, 4294967295), (4294967296, 2147483648)],
        _ => vec![(1, 0)],
    };
    v.into_iter().map(|(c, k)| (cid(c), k)).collect()
}
fn mk_ds(shape: &str) -> IdSet {
    let v: Vec<(u64, u32, u32)> = match shape {
        "empty" => vec![],
        "one" => vec![(1, 0, 1)],
        "two" => vec![(1, 0, 2), (1, 5, 1)],
        "adjacent-clients" => vec![(1, 3, 1), (2, 0, 128)],
        _ => vec![(BIGC, 2147483648, 2147483647), (4294967295, 127, 1)],
    };
    let mut s = IdSet::new();
    for (c, k, l) in v {
        s.insert(ID::new(cid(c), k), l);
    }
    s
}
fn attr(n: &str, v: &str) -> ContentAttribute<String> {
    ContentAttribute::new(n, v.to_string())
}
fn mk_idmap(shape: &str) -> IdMap<String> {
    let mut m: IdMap<String> = IdMap::new();
    let r = |c: u64, k: u32, l: u32| BlockRange::new(ID::new(cid(c), k), l);
    match shape {
        "empty" => {}
        "one" => m.insert(r(1, 0, 3), vec![attr("insert", "u1")]),
        "shared" => {
            let a = attr("insert", "u1");
            m.insert(r(1, 0, 3), vec![a.clone()]);
            m.insert(r(1, 10, 2), vec![a.clone()]);
            m.insert(r(2, 0, 1), vec![a]);
        }
        "twoattrs" => m.insert(r(1, 5, 1), vec![attr("insert", "u1"), attr("at", "2026")]),
        "twoclients" => {
            m.insert(r(1, 0, 128), vec![attr("insert", "u\u{e9}")]);
            m.insert(r(BIGC, 4294967290, 5), vec![attr("delete", "u2")]);
        }
        "samename" => {
            m.insert(r(1, 0, 1), vec![attr("insert", "u1")]);
            m.insert(r(1, 1, 1), vec![attr("insert", "u2")]);
            m.insert(r(1, 2, 1), vec![attr("insert", "u1")]);
        }
        _ => m.insert(r(1, 0, 2), vec![]),
    }
    m
}
fn mk_aw(shape: &str) -> AwarenessUpdate {
    let e = |k: u32, j: &str| AwarenessUpdateEntry { clock: k, json: Arc::from(j) };
    let mut clients = HashMap::new();
    match shape {
        "empty" => {}
        "one" => {
            clients.insert(cid(1), e(1, "{\"a\":1}"));
        }
        "two" => {
            clients.insert(cid(1), e(127, "{\"a\":1}"));
            clients.insert(cid(2), e(128, "{\"name\":\"x\"}"));
        }
        "nullstate" => {
            clients.insert(cid(1), e(2, "null"));
        }
        _ => {
            clients.insert(cid(BIGC), e(4294967295, "{\"n\":\"\u{e9}\u{20ac}\u{1F600}\"}"));
        }
    }
    AwarenessUpdate { clients }
}
fn mk_msg(tag: &str) -> Message {
    let upd = vec![1u8, 1, 1, 0, 4, 1, 1, 114, 1, 97, 0];
    match tag {
        "sync1" => Message::Sync(SyncMessage::SyncStep1(mk_sv("big"))),
        "sync2" => Message::Sync(SyncMessage::SyncStep2(upd)),
        "update" => Message::Sync(SyncMessage::Update(upd)),
        "auth-ok" => Message::Auth(None),
        "auth-denied" => Message::Auth(Some("no \u{e9}".into())),
        "awq" => Message::AwarenessQuery,
        "awareness" => Message::Awareness(mk_aw("two")),
        "custom4" => Message::Custom(4, vec![1, 2, 3]),
        "custom127" => Message::Custom(127, vec![]),
        "custom128" => Message::Custom(128, vec![1]),
        _ => Message::Custom(255, vec![9; 130]),
    }
}
fn leaf(class: &str) -> Any {
    match class {
        "null" => Any::Null,
        "undefined" => Any::Undefined,
        "true" => Any::Bool(true),
        "false" => Any::Bool(false),
        "int0" => Any::Number(0.0),
        "int-small" => Any::Number(5.0),
        "int-63" => Any::Number(63.0),
        "int-64" => Any::Number(64.0),
        "int-neg" => Any::Number(-65.0),
        "int-large" => Any::Number(9007199254740991.0),
        "int-large-neg" => Any::Number(-9007199254740991.0),
        "f32" => Any::Number(1.5),
        "f64" => Any::Number(0.1),
        "negzero" => Any::Number(-0.0),
        "nan" => Any::Number(f64::NAN),
        "inf" => Any::Number(f64::INFINITY),
        "bigint" => Any::BigInt(1 << 62),
        "bigint-neg" => Any::BigInt(-1),
        "str-empty" => Any::String("".into()),
        "str-ascii" => Any::String("abc".into()),
        "str-2byte" => Any::String("\u{e9}".into()),
        "str-3byte" => Any::String("\u{20ac}".into()),
        "str-4byte" => Any::String("x\u{1F600}y".into()),
        "buf-empty" => Any::Buffer(Arc::from(Vec::<u8>::new())),
        _ => Any::Buffer(Arc::from(vec![0u8, 255, 128])),
    }
}
fn arr(v: Vec<Any>) -> Any {
    Any::Array(Arc::from(v))
}
fn map(v: Vec<(&str, Any)>) -> Any {
    Any::Map(Arc::new(v.into_iter().map(|(k, x)| (k.to_string(), x)).collect()))
}
fn mk_any(outer: &str, class: &str) -> Any {
    let l = leaf(class);
    match outer {
        "leaf" => l,
        "arr" => arr(vec![l.clone(), Any::Number(1.0), l]),
        "map" => map(vec![("a", l.clone()), ("b\u{e9}", l)]),
        "arrarr" => arr(vec![arr(vec![l]), arr(vec![])]),
        "arrmap" => arr(vec![map(vec![("a", l)])]),
        "maparr" => map(vec![("a", arr(vec![l.clone(), l]))]),
        "mapmap" => map(vec![("a", map(vec![("b", l)])), ("c", map(vec![]))]),
        "empty-arr" => arr(vec![]),
        _ => map(vec![]),
    }
}

pub fn run_value_case(case: &Value) -> Value {
    let s = |k: &str| case[k].as_str().unwrap_or("").to_string();
    let (mut ev, tag) = match s("k").as_str() {
        "sv" => rt(&mk_sv(&s("shape")), &canon_sv),
        "snap" => rt(&Snapshot::new(mk_sv(&s("sv")), mk_ds(&s("ds"))), &canon_snap),
        "idmap" => rt(&mk_idmap(&s("shape")), &canon_idmap),
        "sticky" => {
            let big = s("idc") == "big";
            let id = if big { ID::new(cid(BIGC), 4294967295) } else { ID::new(cid(1), 0) };
            let scope = match s("scope").as_str() {
                "relative" => IndexScope::Relative(id),
                "nested" => IndexScope::Nested(id),
                _ => IndexScope::Root(Arc::from(if big { "r\u{e9}\u{1F600}" } else { "r" })),
            };
            let assoc = if s("assoc") == "before" { Assoc::Before } else { Assoc::After };
            rt(&StickyIndex::new(scope, assoc), &canon_sticky)
        }
        "msg" => rt(&mk_msg(&s("tag")), &canon_msg),
        "aw" => rt(&mk_aw(&s("shape")), &canon_aw),
        "any" => {
            let a = mk_any(&s("outer"), &s("leaf"));
            let (mut ev, tag) = rt(&AnyW(a.clone()), &|w: &AnyW| canon_yrs_any(&w.0));
            // a sign of zero that does not survive is recorded, not judged (f64 equality holds)
            if let (Any::Number(f), Ok(Any::Number(g))) = (&a, Any::decode(&mut yrs::encoding::read::Cursor::new(&{
                let mut b = Vec::new();
                a.encode(&mut b);
                b
            }))) {
                if f.is_sign_negative() != g.is_sign_negative() && *f == 0.0 {
                    ev["notes"] = json!(["negative-zero-sign-lost"]);
                }
            }
            (ev, tag)
        }
        o => return json!({"k": "broken", "msg": format!("unknown case kind {}", o)}),
    };
    ev["feat"] = json!({"tag": tag});
    ev
}

/// Y.encodeStateVector output of Yjs: decodes, re-encodes to the same bytes, survives v2.
pub fn yjs_state_vector() -> Value {
    let p = fixtures::STATE_VECTOR_V1;
    let x = res_ok(vec!["sv[(14182974, 2), (93760946, 3)]".into()]);
    match guard("decode", || StateVector::decode_v1(p).map_err(|e| e.to_string())) {
        Ok(sv) => {
            let (mut ev, _) = rt(&sv, &canon_sv);
            ev["k"] = json!("yjs");
            ev["x"] = x;
            ev["xu"] = res_ok(vec![]);
            ev["su1"] = res_ok(vec![]);
            ev["su2"] = res_ok(vec![]);
            ev["pend"] = json!(true);
            let mut a = sv.encode_v1();
            let mut b = p.to_vec();
            // two entries: either order is the same vector
            if a != b && a.len() == b.len() {
                a.sort();
                b.sort();
            }
            if a != b {
                ev["notes"] = json!(["v1-bytes-differ-from-source"]);
            }
            ev
        }
        Err(e) => json!({"k": "yjs", "x": x, "v1": res_err(&e), "v2": res_err(&e), "x12": res_err(&e), "eff": [], "notes": [],
                         "xu": res_ok(vec![]), "su1": res_ok(vec![]), "su2": res_ok(vec![]), "pend": true}),
    }
}
