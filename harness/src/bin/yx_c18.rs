//! yx_c18 — X stage of property C18: awareness registers and the y-sync handshake.
//!   yx_c18 aware-run --in <schedules.ndjson> --out <trace.ndjson>
//!   yx_c18 sync-run  --in <schedules.ndjson> --out <trace.ndjson>
use std::collections::HashMap;

#[path = "../aware.rs"]
mod aware;
#[path = "../syncproto.rs"]
mod syncproto;

fn main() {
    let args: Vec<String> = std::env::args().collect();
    if args.len() < 2 {
        eprintln!("usage: yx_c18 <aware-run|sync-run> --in <schedules.ndjson> --out <trace.ndjson>");
        std::process::exit(2);
    }
    let mut opt: HashMap<String, String> = HashMap::new();
    let mut i = 2;
    while i + 1 < args.len() {
        opt.insert(args[i].trim_start_matches("--").to_string(), args[i + 1].clone());
        i += 2;
    }
    let res = match args[1].as_str() {
        "aware-run" => aware::run(&opt["in"], &opt["out"]),
        "sync-run" => syncproto::run(&opt["in"], &opt["out"]),
        other => {
            eprintln!("unknown command {}", other);
            std::process::exit(2);
        }
    };
    match res {
        Ok((nb, nev)) => println!("{{\"behaviours\": {}, \"events\": {}}}", nb, nev),
        Err(e) => {
            eprintln!("yx_c18: {}", e);
            std::process::exit(2);
        }
    }
}
