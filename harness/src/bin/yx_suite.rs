//! yx_suite — converts raw H3 logs (written by the repository's own test-suite run with the hooks on)
//! into Trace_Yata traces: one behaviour per test (thread name), one `txn` event per committed transaction.
//!
//!   yx_suite --in <raw file prefix (all files <prefix>.* are read)> --out <trace.ndjson> [--skip a,b,...]
//!
//! Tests that cannot be represented are skipped with a reason (printed as JSON summary): unnamed threads,
//! more than MAX ids/clocks for TLC's integers, two documents sharing a client id, oversized stores.

use serde_json::{json, Value};
use std::collections::{BTreeMap, BTreeSet, HashMap};
use std::io::{BufRead, Write};
use yx::codec::{self, Id, Parent};
use yx::obs;

fn unhex(s: &str) -> Vec<u8> {
    (0..s.len() / 2).map(|i| u8::from_str_radix(&s[2 * i..2 * i + 2], 16).unwrap_or(0)).collect()
}

struct Remap {
    clients: BTreeMap<u64, u64>,
}
impl Remap {
    fn id(&self, id: Id) -> Id {
        (*self.clients.get(&id.0).unwrap_or(&999), id.1)
    }
}

fn jid(v: &Value) -> Option<Id> {
    let a = v.as_array()?;
    if a.len() < 2 {
        return None;
    }
    Some((a[0].as_u64()?, a[1].as_u64()? as u32))
}

fn branch_info(v: &Value, rm: &Remap) -> yrs::verif::BranchInfo {
    let mut map: Vec<(String, (u64, u32))> = v["map"]
        .as_array()
        .map(|a| a.iter().map(|p| (p[0].as_str().unwrap_or("").to_string(), rm.id(jid(&p[1]).unwrap_or((0, 0))))).collect())
        .unwrap_or_default();
    map.sort();
    yrs::verif::BranchInfo {
        type_ref: v["t"].as_u64().unwrap_or(15) as u8,
        type_name: String::new(),
        start: jid(&v["start"]).map(|i| rm.id(i)),
        map,
        block_len: v["bl"].as_u64().unwrap_or(0) as u32,
        content_len: v["cl"].as_u64().unwrap_or(0) as u32,
    }
}

fn collect_clients(line: &Value, out: &mut BTreeSet<u64>, max_clock: &mut u64) {
    if let Some(bl) = line["blocks"].as_array() {
        for b in bl {
            if let Some(c) = b["c"].as_u64() {
                out.insert(c);
            }
            *max_clock = (*max_clock).max(b["k"].as_u64().unwrap_or(0) + b["n"].as_u64().unwrap_or(0));
            for f in ["o", "ro", "l", "r"] {
                if let Some(i) = jid(&b[f]) {
                    out.insert(i.0);
                }
            }
        }
    }
    for f in ["upd", "emit", "pending"] {
        if let Some(h) = line[f].as_str() {
            if !h.is_empty() {
                if let Ok(u) = codec::decode_update_v1(&unhex(h)) {
                    for b in &u.blocks {
                        out.insert(b.id.0);
                        *max_clock = (*max_clock).max((b.id.1 + b.len) as u64);
                        if let Some(o) = b.origin {
                            out.insert(o.0);
                        }
                        if let Some(o) = b.right_origin {
                            out.insert(o.0);
                        }
                        if let Parent::Nested(p) = &b.parent {
                            out.insert(p.0);
                        }
                    }
                    for d in &u.del {
                        out.insert(d.0);
                        *max_clock = (*max_clock).max((d.1 + d.2) as u64);
                    }
                }
            }
        }
    }
    if let Some(sv) = line["sv"].as_array() {
        for e in sv {
            if let Some(c) = e[0].as_u64() {
                out.insert(c);
            }
        }
    }
}

/// abstract units of an update; container info is resolved from the dumped store when the unit is integrated
fn units_json(bytes: &[u8], rm: &Remap, known: &mut HashMap<Id, (String, Id, String)>) -> (Vec<Value>, Vec<Id>, bool) {
    let mut ok = true;
    let w = match codec::decode_update_v1(bytes) {
        Ok(w) => w,
        Err(_) => return (vec![], vec![], false),
    };
    let mut out = Vec::new();
    for u in w.units() {
        let id = rm.id(u.id);
        let o = u.origin.map(|x| rm.id(x));
        let ro = u.right_origin.map(|x| rm.id(x));
        let sub0 = u.parent_sub.clone().unwrap_or_default();
        let (cont, par, sub) = match &u.parent {
            Parent::Root(n) => (obs::cont_key_root(n, &sub0), (0, 0), sub0),
            Parent::Nested(p) => {
                let p = rm.id(*p);
                (obs::cont_key_nested(p, &sub0), p, sub0)
            }
            Parent::Inherit => {
                let mut r = None;
                for n in [o, ro].iter().flatten() {
                    if let Some(k) = known.get(n) {
                        r = Some(k.clone());
                        break;
                    }
                }
                r.or_else(|| known.get(&id).cloned()).unwrap_or_else(|| {
                    ok = false;
                    ("?|".to_string(), (0, 0), String::new())
                })
            }
        };
        let (cont, par, sub) = match known.get(&id) {
            Some(k) if u.kind == "gc" || cont.starts_with('?') => k.clone(),
            _ => (cont, par, sub),
        };
        if u.kind != "gc" && !cont.starts_with('?') {
            known.entry(id).or_insert((cont.clone(), par, sub.clone()));
        }
        out.push(json!({"id": obs::idv(id), "o": obs::idv(o.unwrap_or((0, 0))), "ro": obs::idv(ro.unwrap_or((0, 0))), "cont": cont, "sub": sub,
            "par": obs::idv(par), "kind": u.kind, "t": if u.kind == "type" { u.val.clone() } else { String::new() },
            "q": obs::idsv(&u.quoted.iter().map(|x| rm.id(*x)).collect::<Vec<_>>())}));
    }
    let del: Vec<Id> = w.del_units().into_iter().map(|x| rm.id(x)).collect();
    (out, del, ok)
}

fn main() {
    let args: Vec<String> = std::env::args().collect();
    let mut opt: HashMap<String, String> = HashMap::new();
    let mut i = 1;
    while i + 1 < args.len() {
        opt.insert(args[i].trim_start_matches("--").to_string(), args[i + 1].clone());
        i += 2;
    }
    let prefix = opt["in"].clone();
    let skip: Vec<String> = opt.get("skip").map(|s| s.split(',').map(|x| x.to_string()).collect()).unwrap_or_default();
    let dir = std::path::Path::new(&prefix).parent().unwrap().to_path_buf();
    let base = std::path::Path::new(&prefix).file_name().unwrap().to_string_lossy().to_string();
    // group lines by (file, thread)
    let mut groups: BTreeMap<String, Vec<Value>> = BTreeMap::new();
    let mut skipped: BTreeMap<String, String> = BTreeMap::new();
    for e in std::fs::read_dir(&dir).unwrap().flatten() {
        let name = e.file_name().to_string_lossy().to_string();
        if !name.starts_with(&format!("{}.", base)) {
            continue;
        }
        let f = std::io::BufReader::new(std::fs::File::open(e.path()).unwrap());
        for line in f.lines().flatten() {
            // cheap thread extraction before parsing (some tests produce hundreds of MB)
            let t = match line.find("\"thread\":\"") {
                Some(p) => {
                    let rest = &line[p + 10..];
                    rest[..rest.find('"').unwrap_or(0)].to_string()
                }
                None => continue,
            };
            if t.is_empty() {
                skipped.insert("<unnamed threads>".into(), "no test name".into());
                continue;
            }
            if skip.iter().any(|s| t.contains(s.as_str())) {
                skipped.insert(t, "excluded by --skip".into());
                continue;
            }
            if groups.get(&t).map(|g| g.len()).unwrap_or(0) > 1500 {
                skipped.insert(t.clone(), "too many transactions".into());
                continue;
            }
            if let Ok(v) = serde_json::from_str::<Value>(&line) {
                groups.entry(t).or_default().push(v);
            }
        }
    }
    let mut w = std::io::BufWriter::new(std::fs::File::create(&opt["out"]).unwrap());
    let mut nb = 0;
    let mut nev = 0;
    'tests: for (test, lines) in groups.iter() {
        if skipped.contains_key(test) {
            continue;
        }
        // client remapping (TLC integers are 32 bit; order preserved) and applicability checks
        let mut clients = BTreeSet::new();
        let mut max_clock = 0u64;
        let mut doc_client: HashMap<String, u64> = HashMap::new();
        let mut docs: Vec<String> = Vec::new();
        for l in lines {
            collect_clients(l, &mut clients, &mut max_clock);
            let d = l["doc"].as_str().unwrap_or("").to_string();
            if !docs.contains(&d) {
                docs.push(d.clone());
            }
            doc_client.insert(d, l["client"].as_u64().unwrap_or(0));
            if l["big"].as_bool().unwrap_or(false) {
                skipped.insert(test.clone(), "store too large for a per-transaction dump".into());
                continue 'tests;
            }
        }
        let max_units: u64 = lines.iter().map(|l| l["blocks"].as_array().map(|a| a.iter().map(|b| b["n"].as_u64().unwrap_or(0)).sum::<u64>()).unwrap_or(0)).max().unwrap_or(0);
        if max_units > 160 {
            skipped.insert(test.clone(), "document too large for quick trace validation".into());
            continue;
        }
        if clients.len() > 40 || max_clock > 100_000 || docs.len() > 12 {
            skipped.insert(test.clone(), "too many clients / documents or clocks too large".into());
            continue;
        }
        // two documents with the same client id that both hold blocks of that client would make ids ambiguous
        let mut seen_c: HashMap<u64, &String> = HashMap::new();
        let mut dup = false;
        for d in &docs {
            let c = doc_client[d];
            if let Some(_other) = seen_c.get(&c) {
                dup = true;
            }
            seen_c.insert(c, d);
        }
        if dup {
            skipped.insert(test.clone(), "two documents share a client id".into());
            continue;
        }
        // a document whose store shrinks between two commits is really two documents sharing a guid
        let mut last_units: HashMap<String, u64> = HashMap::new();
        let mut shrinks = false;
        for l in lines {
            if l["h"] == "commit" {
                let d = l["doc"].as_str().unwrap_or("").to_string();
                let n: u64 = l["blocks"].as_array().map(|a| a.iter().map(|b| b["n"].as_u64().unwrap_or(0)).sum()).unwrap_or(0);
                if let Some(p) = last_units.get(&d) {
                    if n < *p {
                        shrinks = true;
                    }
                }
                last_units.insert(d, n);
            }
        }
        if shrinks {
            skipped.insert(test.clone(), "two documents share a guid".into());
            continue;
        }
        let rm = Remap { clients: clients.iter().enumerate().map(|(i, c)| (*c, i as u64 + 1)).collect() };
        let rep_of: HashMap<&String, u64> = docs.iter().enumerate().map(|(i, d)| (d, 101 + i as u64)).collect();
        let mut gc_of: HashMap<&String, bool> = HashMap::new();
        for l in lines {
            if l["h"] == "commit" {
                gc_of.entry(docs.iter().find(|d| Some(d.as_str()) == l["doc"].as_str()).unwrap()).or_insert(l["gc"].as_bool().unwrap_or(true));
            }
        }
        let reps: Vec<Value> = docs.iter().map(|d| json!({"id": rep_of[d], "gc": gc_of.get(d).copied().unwrap_or(true)})).collect();
        let bid = format!("suite:{}", test);
        let mut evs: Vec<Value> = Vec::new();
        let mut known: HashMap<Id, (String, Id, String)> = HashMap::new();
        let mut incoming: HashMap<String, Vec<Vec<u8>>> = HashMap::new();
        let mut usable = true;
        for l in lines {
            let d = l["doc"].as_str().unwrap_or("").to_string();
            if l["h"] == "apply" {
                incoming.entry(d).or_default().push(unhex(l["upd"].as_str().unwrap_or("")));
                continue;
            }
            // commit: store dump -> structural observation
            let blocks: Vec<yrs::verif::BlockInfo> = l["blocks"]
                .as_array()
                .map(|a| {
                    a.iter()
                        .map(|b| {
                            let kind: &'static str = match b["kind"].as_str() {
                                Some("gc") => "gc",
                                Some("skip") => "skip",
                                _ => "item",
                            };
                            let item = if kind == "item" {
                                Some(yrs::verif::ItemInfo {
                                    deleted: b["del"].as_bool().unwrap_or(false),
                                    countable: b["cnt"].as_bool().unwrap_or(true),
                                    keep: b["keep"].as_bool().unwrap_or(false),
                                    linked: false,
                                    origin: jid(&b["o"]).map(|x| rm.id(x)),
                                    right_origin: jid(&b["ro"]).map(|x| rm.id(x)),
                                    left: jid(&b["l"]).map(|x| rm.id(x)),
                                    right: jid(&b["r"]).map(|x| rm.id(x)),
                                    parent: if let Some(n) = b["p"]["root"].as_str() {
                                        yrs::verif::ParentInfo::Root(n.to_string())
                                    } else if let Some(i) = jid(&b["p"]["id"]) {
                                        yrs::verif::ParentInfo::Nested(rm.id(i))
                                    } else {
                                        yrs::verif::ParentInfo::Unresolved
                                    },
                                    parent_sub: if b["hassub"].as_bool().unwrap_or(false) { Some(b["sub"].as_str().unwrap_or("").to_string()) } else { None },
                                    redone: None,
                                    content_ref: b["ref"].as_u64().unwrap_or(0) as u8,
                                    content_len_utf16: b["n"].as_u64().unwrap_or(0) as u32,
                                    branch: if b["branch"].is_null() { None } else { Some(branch_info(&b["branch"], &rm)) },
                                })
                            } else {
                                None
                            };
                            yrs::verif::BlockInfo { client: rm.id((b["c"].as_u64().unwrap_or(0), 1)).0, clock: b["k"].as_u64().unwrap_or(0) as u32, len: b["n"].as_u64().unwrap_or(0) as u32, kind, item }
                        })
                        .collect()
                })
                .unwrap_or_default();
            // exact container of every integrated unit
            for b in &blocks {
                if let Some(it) = &b.item {
                    let sub = it.parent_sub.clone().unwrap_or_default();
                    let (cont, par) = match &it.parent {
                        yrs::verif::ParentInfo::Root(n) => (obs::cont_key_root(n, &sub), (0, 0)),
                        yrs::verif::ParentInfo::Nested(p) => (obs::cont_key_nested(*p, &sub), *p),
                        yrs::verif::ParentInfo::Unresolved => continue,
                    };
                    for i in 0..b.len {
                        known.insert((b.client, b.clock + i), (cont.clone(), par, sub.clone()));
                    }
                }
            }
            let mut sorted = blocks;
            sorted.sort_by_key(|b| (b.client, b.clock));
            let roots: Vec<yrs::verif::RootInfo> = l["roots"]
                .as_array()
                .map(|a| a.iter().map(|r| yrs::verif::RootInfo { name: r["name"].as_str().unwrap_or("").to_string(), branch: branch_info(&r["branch"], &rm) }).collect())
                .unwrap_or_default();
            let skips: Vec<(u64, u32, u32)> = l["skips"]
                .as_array()
                .map(|a| a.iter().map(|s| (rm.id((s[0].as_u64().unwrap_or(0), 1)).0, s[1].as_u64().unwrap_or(0) as u32, s[2].as_u64().unwrap_or(0) as u32)).collect())
                .unwrap_or_default();
            let st = obs::structural_from(sorted, roots, skips);
            let mut o = st.to_json();
            let om = o.as_object_mut().unwrap();
            // pending
            let mut pend: Vec<Id> = Vec::new();
            let mut pend_units: Vec<Value> = Vec::new();
            if let Some(h) = l["pending"].as_str() {
                if !h.is_empty() {
                    let (us, _, _) = units_json(&unhex(h), &rm, &mut known);
                    for u in &us {
                        let a = u["id"].as_array().unwrap();
                        pend.push((a[0].as_u64().unwrap(), a[1].as_u64().unwrap() as u32));
                    }
                    pend_units = us;
                }
            }
            pend.sort();
            let mut pds: Vec<Id> = Vec::new();
            for r in l["pds"].as_array().cloned().unwrap_or_default() {
                let c = rm.id((r[0].as_u64().unwrap_or(0), 1)).0;
                for k in r[1].as_u64().unwrap_or(0)..r[2].as_u64().unwrap_or(0) {
                    pds.push((c, k as u32));
                }
            }
            pds.sort();
            let mut sv: Vec<Id> = l["sv"].as_array().map(|a| a.iter().map(|e| rm.id((e[0].as_u64().unwrap_or(0), e[1].as_u64().unwrap_or(0) as u32))).collect()).unwrap_or_default();
            sv.sort();
            om.insert("pub".into(), json!({}));
            om.insert("c17".into(), json!("ok"));
            om.insert("nopub".into(), json!(true));
            om.insert("missing".into(), json!(!pend.is_empty() || !pds.is_empty()));
            om.insert("pend".into(), obs::idsv(&pend));
            om.insert("pmiss".into(), json!([]));
            om.insert("pds".into(), obs::idsv(&pds));
            om.insert("sv".into(), obs::idsv(&sv));
            // payload: what was applied (remote) or what was created (local)
            let inc = incoming.remove(&d).unwrap_or_default();
            let emit_bytes = unhex(l["emit"].as_str().unwrap_or(""));
            let (emit_ins, emit_del, ok1) = if emit_bytes.is_empty() { (vec![], vec![], true) } else { units_json(&emit_bytes, &rm, &mut known) };
            let (mut pins, mut pdel) = (Vec::new(), Vec::new());
            let mut ok2 = true;
            // what the transaction applied (possibly several updates, possibly mixed with local edits in the same
            // transaction) plus everything it added itself
            for b in &inc {
                let (a, c, ok) = units_json(b, &rm, &mut known);
                ok2 &= ok;
                pins.extend(a);
                pdel.extend(c);
            }
            for u in &emit_ins {
                if !pins.iter().any(|x| x["id"] == u["id"]) {
                    pins.push(u.clone());
                }
            }
            pdel.extend(emit_del.iter().cloned());
            if !(ok1 && ok2) {
                usable = false;
            }
            pdel.sort();
            pdel.dedup();
            evs.push(json!({"k": "txn", "r": rep_of[&d], "local": l["local"].as_bool().unwrap_or(true) && inc.is_empty(),
                "upd": {"ins": pins, "del": obs::idsv(&pdel)}, "emit": {"ins": emit_ins, "del": obs::idsv(&emit_del)}, "pendu": pend_units, "obs": o}));
        }
        if !usable {
            skipped.insert(test.clone(), "an update carries a unit whose container cannot be resolved (hand-crafted update)".into());
            continue;
        }
        if evs.is_empty() {
            continue;
        }
        writeln!(w, "{}", json!({"k": "reset", "bid": bid, "cfg": {"replicas": reps}})).unwrap();
        for e in evs {
            writeln!(w, "{}", e).unwrap();
            nev += 1;
        }
        nb += 1;
    }
    w.flush().unwrap();
    println!("{}", json!({"behaviours": nb, "events": nev, "skipped": skipped}));
}
