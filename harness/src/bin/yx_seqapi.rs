//! yx_seqapi — executes SeqApi programs (single-replica public API calls) and records accessor dumps.
use std::collections::HashMap;

fn main() {
    let args: Vec<String> = std::env::args().collect();
    let mut opt: HashMap<String, String> = HashMap::new();
    let mut i = 1;
    while i + 1 < args.len() {
        opt.insert(args[i].trim_start_matches("--").to_string(), args[i + 1].clone());
        i += 2;
    }
    match yx::seqapi::run(&opt["in"], &opt["out"]) {
        Ok((nb, nev)) => println!("{{\"behaviours\": {}, \"events\": {}}}", nb, nev),
        Err(e) => {
            eprintln!("yx_seqapi: {}", e);
            std::process::exit(2);
        }
    }
}
