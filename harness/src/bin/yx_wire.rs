//! yx_wire — X stage of the Wire check (C09).
//!   yx_wire run --in <cases.ndjson> --out <trace.ndjson> [--chunk N]
//!   yx_wire fixtures            prints the Yjs fixture cases as a JSON array
use std::collections::HashMap;

#[path = "../wire.rs"]
mod wire;

fn main() {
    let args: Vec<String> = std::env::args().collect();
    if args.len() < 2 {
        eprintln!("usage: yx_wire run --in <cases.ndjson> --out <trace.ndjson> [--chunk N] | yx_wire fixtures");
        std::process::exit(2);
    }
    let mut opt: HashMap<String, String> = HashMap::new();
    let mut i = 2;
    while i + 1 < args.len() {
        opt.insert(args[i].trim_start_matches("--").to_string(), args[i + 1].clone());
        i += 2;
    }
    match args[1].as_str() {
        "fixtures" => println!("{}", serde_json::Value::Array(wire::fixture_names())),
        "run" => {
            let chunk: usize = opt.get("chunk").and_then(|s| s.parse().ok()).unwrap_or(200);
            match wire::run(&opt["in"], &opt["out"], chunk) {
                Ok((nc, nev)) => println!("{{\"cases\": {}, \"events\": {}}}", nc, nev),
                Err(e) => {
                    eprintln!("yx_wire: {}", e);
                    std::process::exit(2);
                }
            }
        }
        other => {
            eprintln!("unknown command {}", other);
            std::process::exit(2);
        }
    }
}
