use serde_json::Value;
use yrs::updates::decoder::Decode;
use yrs::{ReadTxn, Transact, Update};
fn main() {
    let args: Vec<String> = std::env::args().collect();
    let text = std::fs::read_to_string(&args[1]).unwrap();
    let upto: usize = args[2].parse().unwrap();
    let b: Value = serde_json::from_str(text.lines().next().unwrap()).unwrap();
    let bid = b["bid"].as_str().unwrap();
    let seed: u64 = args[3].parse().unwrap();
    let mut w = yx::yata::World::new(&b["cfg"], seed ^ yx::yata::hash_str(bid));
    let steps = b["steps"].as_array().unwrap();
    for st in &steps[..upto] {
        w.step(st);
    }
    let st = &steps[upto];
    println!("next step: {}", st);
    let f = w.rep(st["f"].as_u64().unwrap());
    let t = w.rep(st["t"].as_u64().unwrap());
    {
        let txn = w.reps[t].doc.transact();
        for bl in yrs::verif::blocks(&txn) {
            println!("T block {}#{} len {} {}", bl.client, bl.clock, bl.len, bl.kind);
        }
        println!("T skips {:?}", yrs::verif::skips(&txn));
        let sv = txn.state_vector();
        let ftxn = w.reps[f].doc.transact();
        let bytes = ftxn.encode_state_as_update_v1(&sv);
        let u = Update::decode_v1(&bytes).unwrap();
        println!("payload: {:#?}", u);
    }
}
