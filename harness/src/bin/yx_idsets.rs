//! yx_idsets — X stage of the C16 check: executes IdSet / IdMap construction programs and
//! document schedules on the real library and records ndjson traces (see ../idsets.rs).
#[path = "../idsets.rs"]
mod idsets;

use std::collections::HashMap;

fn main() {
    let args: Vec<String> = std::env::args().collect();
    if args.len() < 2 || args[1] != "run" {
        eprintln!("usage: yx_idsets run --in <schedules.ndjson> --out <trace.ndjson>");
        std::process::exit(2);
    }
    let mut opt: HashMap<String, String> = HashMap::new();
    let mut i = 2;
    while i + 1 < args.len() {
        opt.insert(args[i].trim_start_matches("--").to_string(), args[i + 1].clone());
        i += 2;
    }
    match idsets::run(&opt["in"], &opt["out"]) {
        Ok((nb, nev, fresh)) => println!("{{\"behaviours\": {}, \"events\": {}, \"fresh\": {}}}", nb, nev, fresh),
        Err(e) => {
            eprintln!("yx_idsets: {}", e);
            std::process::exit(2);
        }
    }
}
