//! yx_ffi -- C19: the SeqApi and Yata adapters driven through the exported C functions of yffi.
//!   yx_ffi seqapi-run --in <programs.ndjson> --out <trace.ndjson>
//!   yx_ffi yata-run   --in <schedules.ndjson> --out <trace.ndjson> [--seed N]
//! (the *-worker sub-commands are started by the supervising process, see ffi.rs `supervise`)
use std::collections::HashMap;

#[path = "../ffi.rs"]
mod ffi;
#[path = "../ffi_extras.rs"]
mod ffi_extras;

fn main() {
    let args: Vec<String> = std::env::args().collect();
    if args.len() < 2 {
        eprintln!("usage: yx_ffi <seqapi-run|yata-run> --in <file> --out <trace> [--seed N]");
        std::process::exit(2);
    }
    let mut opt: HashMap<String, String> = HashMap::new();
    let mut i = 2;
    while i + 1 < args.len() {
        opt.insert(args[i].trim_start_matches("--").to_string(), args[i + 1].clone());
        i += 2;
    }
    let seed: u64 = opt.get("seed").and_then(|s| s.parse().ok()).unwrap_or(0);
    let start: usize = opt.get("start").and_then(|s| s.parse().ok()).unwrap_or(0);
    let journal = opt.get("journal").cloned().unwrap_or_default();
    let extra = vec!["--seed".to_string(), seed.to_string()];
    let done = |r: std::io::Result<(usize, usize)>| match r {
        Ok((nb, nev)) => println!("{{\"behaviours\": {}, \"events\": {}}}", nb, nev),
        Err(e) => {
            eprintln!("yx_ffi: {}", e);
            std::process::exit(2);
        }
    };
    match args[1].as_str() {
        "seqapi-run" => std::process::exit(ffi::supervise("seqapi-worker", &opt["in"], &opt["out"], &extra)),
        "seqapi-worker" => done(ffi::seq_worker(&opt["in"], &opt["out"], &journal, start)),
        "yata-run" => {
            let mut ex = extra.clone();
            if let Some(r) = opt.get("repeat") {
                ex.push("--repeat".into());
                ex.push(r.clone());
            }
            std::process::exit(ffi::supervise("yata-worker", &opt["in"], &opt["out"], &ex))
        }
        "yata-worker" => {
            let rep: usize = opt.get("repeat").and_then(|s| s.parse().ok()).unwrap_or(1);
            done(ffi::yata_worker(&opt["in"], &opt["out"], &journal, start, seed, rep))
        }
        other => {
            eprintln!("unknown command {}", other);
            std::process::exit(2);
        }
    }
}
