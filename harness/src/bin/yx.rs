//! yx — executes specification schedules on the real library and records traces.
use std::collections::HashMap;

fn main() {
    let args: Vec<String> = std::env::args().collect();
    if args.len() < 2 {
        eprintln!("usage: yx <yata-run> --in <schedules.ndjson> --out <trace.ndjson> [--seed N] [--repeat N]");
        std::process::exit(2);
    }
    let mut opt: HashMap<String, String> = HashMap::new();
    let mut i = 2;
    while i + 1 < args.len() {
        opt.insert(args[i].trim_start_matches("--").to_string(), args[i + 1].clone());
        i += 2;
    }
    let seed: u64 = opt.get("seed").and_then(|s| s.parse().ok()).unwrap_or(0);
    match args[1].as_str() {
        "yata-run" => {
            let rep: usize = opt.get("repeat").and_then(|s| s.parse().ok()).unwrap_or(1);
            match yx::yata::run(&opt["in"], &opt["out"], seed, rep) {
                Ok((nb, nev)) => println!("{{\"behaviours\": {}, \"events\": {}}}", nb, nev),
                Err(e) => {
                    eprintln!("yx: {}", e);
                    std::process::exit(2);
                }
            }
        }
        "yata-random" => {
            let nb: usize = opt.get("behaviours").and_then(|s| s.parse().ok()).unwrap_or(10);
            let ops: usize = opt.get("ops").and_then(|s| s.parse().ok()).unwrap_or(20);
            let ext: Vec<String> = opt.get("ext").map(|s| s.split(',').filter(|x| !x.is_empty()).map(|x| x.to_string()).collect()).unwrap_or_default();
            let gc_off = opt.get("gc-off").map(|s| s == "1").unwrap_or(false);
            let rich = opt.get("rich").map(|s| s == "1").unwrap_or(false);
            let from: usize = opt.get("from").and_then(|s| s.parse().ok()).unwrap_or(0);
            // --wide k: every k-th behaviour mixes BMP and astral characters (0 = none)
            let wide: usize = opt.get("wide").and_then(|s| s.parse().ok()).unwrap_or(0);
            let cf = opt.get("cf").map(|s| s == "1").unwrap_or(false);
            match yx::yata::random_from(&opt["out-sched"], &opt["out"], seed, from, nb, ops, &ext, gc_off, rich || cf, cf, wide) {
                Ok((nb, nev)) => println!("{{\"behaviours\": {}, \"events\": {}}}", nb, nev),
                Err(e) => {
                    eprintln!("yx: {}", e);
                    std::process::exit(2);
                }
            }
        }
        other => {
            eprintln!("unknown command {}", other);
            std::process::exit(2);
        }
    }
}
