//! C19 extras: twin comparisons C API vs Rust API of the facilities that have no place in the SeqApi / Yata traces:
//! state vectors and diffs against an older state vector (v1, v2), snapshots, sticky indexes (creation, encode / decode /
//! JSON round trips, resolution after every later call), shallow observers (text / array / map / xml event payloads) and the
//! undo manager (undo / redo round trip, stack lengths, stack events).  For every call event the observations of the
//! C-driven document are recorded under `twin.c.x` and those of the natively driven twin under `twin.r.x`, with identical
//! shapes; TLC compares the two records (`C19_ExtrasEqual` in Trace_Ffi).  Only programs whose values are plain numbers
//! take part (`cfg.extras`), so that both documents hold the same content.
use crate::ffi::{abstract_update, any_to_lv, attr_str, read_out, tag_of, take_bin, take_str, tok, yffi as y, Arena, Cx, LV};
use serde_json::{json, Value};
use std::cell::RefCell;
use std::ffi::{c_char, c_void, CStr};
use std::ptr::{null, null_mut};
use std::rc::Rc;
use std::sync::{Arc, Mutex};
use yrs::types::{Change, DeepObservable, Delta, EntryChange, Event, PathSegment};
use yrs::undo::UndoManager;
use yrs::updates::decoder::Decode;
use yrs::updates::encoder::{Encode, Encoder, EncoderV1, EncoderV2};
use yrs::{Any, Assoc, Doc, In, Observable, Out, ReadTxn, Snapshot, StateVector, StickyIndex, Text, Transact, TransactionMut, Update};
use yx::seqapi::Sx;

type Queue = RefCell<Vec<Value>>;

pub struct Extras {
    on: bool,
    gc: bool,
    undo_on: bool,
    bytes: bool,
    dumper: Option<Sx>,
    commits: usize,
    // C side
    cq: Box<Queue>,
    csubs: Vec<*mut y::Subscription>,
    cmgr: *mut y::YUndoManager,
    cuq: Box<Queue>,
    cusubs: Vec<*mut y::Subscription>,
    cdq: Box<Queue>,
    caq: Box<Queue>,
    csnaps: Vec<Vec<u8>>,
    cstick: Vec<[*mut y::YStickyIndex; 3]>,
    csv_prev: Vec<u8>,
    // twin side
    tq: Rc<Queue>,
    tsubs: Vec<yrs::Subscription>,
    tmgr: Option<UndoManager<()>>,
    tuq: Rc<Queue>,
    tdq: Arc<Mutex<Vec<Value>>>,
    taq: Arc<Mutex<Vec<Value>>>,
    tsnaps: Vec<Snapshot>,
    tstick: Vec<[Option<StickyIndex>; 3]>,
    tsv_prev: StateVector,
}

fn ins_val(lv: &LV) -> Value {
    match lv {
        LV::Str(s) => json!(["s", s]),
        other => json!(["v", tag_of(other)]),
    }
}

fn out_tag_r(o: &Out) -> String {
    match o {
        Out::Any(a) => tag_of(&any_to_lv(a)),
        other => other
            .try_branch()
            .map(|b| match b.id() {
                yrs::BranchID::Nested(id) => format!("{}:{}", id.client.get(), id.clock),
                yrs::BranchID::Root(n) => n.to_string(),
            })
            .unwrap_or_else(|| "?".into()),
    }
}

fn bptr<T: AsRef<yrs::branch::Branch>>(t: &T) -> yrs::branch::BranchPtr {
    let b: &yrs::branch::Branch = t.as_ref();
    yrs::branch::BranchPtr::from(b)
}

fn bt<T: AsRef<yrs::branch::Branch>>(t: &T) -> String {
    btok(t.as_ref())
}

fn btok(b: &yrs::branch::Branch) -> String {
    match b.id() {
        yrs::BranchID::Nested(id) => format!("{}:{}", id.client.get(), id.clock),
        yrs::BranchID::Root(n) => n.to_string(),
    }
}

unsafe fn c_path(p: *mut y::YPathSegment, n: u32) -> Value {
    let mut v = Vec::new();
    for i in 0..n as usize {
        let s = &*p.add(i);
        if s.tag == y::Y_EVENT_PATH_KEY {
            v.push(json!(CStr::from_ptr(s.value.key).to_string_lossy().to_string()));
        } else {
            v.push(json!(s.value.index));
        }
    }
    y::ypath_destroy(p, n);
    Value::Array(v)
}

fn r_path(p: yrs::types::Path) -> Value {
    Value::Array(
        p.into_iter()
            .map(|s| match s {
                PathSegment::Key(k) => json!(k.to_string()),
                PathSegment::Index(i) => json!(i),
            })
            .collect(),
    )
}

unsafe fn c_text_delta(d: *mut y::YDeltaOut, n: u32) -> Value {
    let mut ops = Vec::new();
    for i in 0..n as usize {
        let x = &*d.add(i);
        let mut attrs: Vec<(String, String)> = (0..x.attributes_len as usize)
            .map(|j| {
                let a = &*x.attributes.add(j);
                (CStr::from_ptr(a.key).to_string_lossy().to_string(), attr_str(&read_out(&a.value)))
            })
            .collect();
        attrs.sort();
        let attrs: Vec<Value> = attrs.into_iter().map(|(k, v)| json!([k, v])).collect();
        match x.tag {
            y::Y_EVENT_CHANGE_ADD => ops.push(json!({"t": "i", "v": ins_val(&read_out(x.insert)), "n": x.len, "attrs": attrs})),
            y::Y_EVENT_CHANGE_DELETE => ops.push(json!({"t": "d", "v": [], "n": x.len, "attrs": []})),
            _ => ops.push(json!({"t": "r", "v": [], "n": x.len, "attrs": attrs})),
        }
    }
    y::ytext_delta_destroy(d, n);
    Value::Array(ops)
}

fn r_text_delta(d: &[Delta]) -> Value {
    let at = |a: &Option<Box<yrs::types::Attrs>>| -> Vec<Value> {
        let mut v: Vec<(String, String)> = a.as_ref().map(|m| m.iter().map(|(k, v)| (k.to_string(), attr_str(&any_to_lv(v)))).collect()).unwrap_or_default();
        v.sort();
        v.into_iter().map(|(k, v)| json!([k, v])).collect()
    };
    Value::Array(
        d.iter()
            .map(|x| match x {
                Delta::Inserted(v, a) => {
                    let iv = match v {
                        Out::Any(any) => ins_val(&any_to_lv(any)),
                        other => json!(["v", out_tag_r(other)]),
                    };
                    json!({"t": "i", "v": iv, "n": 1, "attrs": at(a)})
                }
                Delta::Deleted(n) => json!({"t": "d", "v": [], "n": n, "attrs": []}),
                Delta::Retain(n, a) => json!({"t": "r", "v": [], "n": n, "attrs": at(a)}),
            })
            .collect(),
    )
}

unsafe fn c_changes(d: *mut y::YEventChange, n: u32) -> Value {
    let mut ops = Vec::new();
    for i in 0..n as usize {
        let x = &*d.add(i);
        match x.tag {
            y::Y_EVENT_CHANGE_ADD => {
                let vals: Vec<String> = (0..x.len as usize).map(|j| tag_of(&read_out(x.values.add(j)))).collect();
                ops.push(json!({"t": "a", "n": x.len, "vals": vals}));
            }
            y::Y_EVENT_CHANGE_DELETE => ops.push(json!({"t": "d", "n": x.len, "vals": []})),
            _ => ops.push(json!({"t": "r", "n": x.len, "vals": []})),
        }
    }
    y::yevent_delta_destroy(d, n);
    Value::Array(ops)
}

fn r_changes(d: &[Change]) -> Value {
    Value::Array(
        d.iter()
            .map(|x| match x {
                Change::Added(v) => json!({"t": "a", "n": v.len(), "vals": v.iter().map(out_tag_r).collect::<Vec<_>>()}),
                Change::Removed(n) => json!({"t": "d", "n": n, "vals": []}),
                Change::Retain(n) => json!({"t": "r", "n": n, "vals": []}),
            })
            .collect(),
    )
}

unsafe fn c_keys(d: *mut y::YEventKeyChange, n: u32) -> Value {
    let mut v: Vec<(String, Value)> = Vec::new();
    for i in 0..n as usize {
        let x = &*d.add(i);
        let k = CStr::from_ptr(x.key).to_string_lossy().to_string();
        let old = if x.old_value.is_null() { String::new() } else { tag_of(&read_out(x.old_value)) };
        let new = if x.new_value.is_null() { String::new() } else { tag_of(&read_out(x.new_value)) };
        let what = match x.tag {
            y::Y_EVENT_KEY_CHANGE_ADD => "add",
            y::Y_EVENT_KEY_CHANGE_DELETE => "del",
            y::Y_EVENT_KEY_CHANGE_UPDATE => "upd",
            _ => "?",
        };
        v.push((k.clone(), json!([k, what, old, new])));
    }
    y::yevent_keys_destroy(d, n);
    v.sort_by(|a, b| a.0.cmp(&b.0));
    Value::Array(v.into_iter().map(|x| x.1).collect())
}

fn r_keys(m: &std::collections::HashMap<std::sync::Arc<str>, EntryChange>) -> Value {
    let mut v: Vec<(String, Value)> = m
        .iter()
        .map(|(k, c)| {
            let k = k.to_string();
            let e = match c {
                EntryChange::Inserted(n) => json!([k, "add", "", out_tag_r(n)]),
                EntryChange::Updated(o, n) => json!([k, "upd", out_tag_r(o), out_tag_r(n)]),
                EntryChange::Removed(o) => json!([k, "del", out_tag_r(o), ""]),
            };
            (k, e)
        })
        .collect();
    v.sort_by(|a, b| a.0.cmp(&b.0));
    Value::Array(v.into_iter().map(|x| x.1).collect())
}

unsafe fn c_text_event(e: *const y::YTextEvent) -> Value {
    let mut n = 0u32;
    let d = y::ytext_event_delta(e, &mut n);
    let delta = c_text_delta(d, n);
    let mut pn = 0u32;
    let p = y::ytext_event_path(e, &mut pn);
    json!({"type": "text", "target": tok(y::ytext_event_target(e)), "path": c_path(p, pn), "delta": delta, "keys": []})
}
unsafe fn c_array_event(e: *const y::YArrayEvent) -> Value {
    let mut n = 0u32;
    let d = y::yarray_event_delta(e, &mut n);
    let delta = c_changes(d, n);
    let mut pn = 0u32;
    let p = y::yarray_event_path(e, &mut pn);
    json!({"type": "array", "target": tok(y::yarray_event_target(e)), "path": c_path(p, pn), "delta": delta, "keys": []})
}
unsafe fn c_map_event(e: *const y::YMapEvent) -> Value {
    let mut n = 0u32;
    let d = y::ymap_event_keys(e, &mut n);
    let keys = c_keys(d, n);
    let mut pn = 0u32;
    let p = y::ymap_event_path(e, &mut pn);
    json!({"type": "map", "target": tok(y::ymap_event_target(e)), "path": c_path(p, pn), "delta": [], "keys": keys})
}
unsafe fn c_xml_event(e: *const y::YXmlEvent) -> Value {
    let mut n = 0u32;
    let d = y::yxmlelem_event_delta(e, &mut n);
    let delta = c_changes(d, n);
    let mut kn = 0u32;
    let k = y::yxmlelem_event_keys(e, &mut kn);
    let keys = c_keys(k, kn);
    let mut pn = 0u32;
    let p = y::yxmlelem_event_path(e, &mut pn);
    json!({"type": "xml", "target": tok(y::yxmlelem_event_target(e)), "path": c_path(p, pn), "delta": delta, "keys": keys})
}
unsafe fn c_xmltext_event(e: *const y::YXmlTextEvent) -> Value {
    let mut n = 0u32;
    let d = y::yxmltext_event_delta(e, &mut n);
    let delta = c_text_delta(d, n);
    let mut kn = 0u32;
    let k = y::yxmltext_event_keys(e, &mut kn);
    let keys = c_keys(k, kn);
    let mut pn = 0u32;
    let p = y::yxmltext_event_path(e, &mut pn);
    json!({"type": "xmltext", "target": tok(y::yxmltext_event_target(e)), "path": c_path(p, pn), "delta": delta, "keys": keys})
}
fn r_event(txn: &TransactionMut, e: &Event) -> Value {
    match e {
        Event::Text(e) => json!({"type": "text", "target": bt(e.target()), "path": r_path(e.path()), "delta": r_text_delta(e.delta(txn)), "keys": []}),
        Event::Array(e) => json!({"type": "array", "target": bt(e.target()), "path": r_path(e.path()), "delta": r_changes(e.delta(txn)), "keys": []}),
        Event::Map(e) => json!({"type": "map", "target": bt(e.target()), "path": r_path(e.path()), "delta": [], "keys": r_keys(e.keys(txn))}),
        Event::XmlFragment(e) => json!({"type": "xml", "target": bt(e.target()), "path": r_path(e.path()), "delta": r_changes(e.delta(txn)), "keys": r_keys(e.keys(txn))}),
        Event::XmlText(e) => json!({"type": "xmltext", "target": bt(e.target()), "path": r_path(e.path()), "delta": r_text_delta(e.delta(txn)), "keys": r_keys(e.keys(txn))}),
        _ => json!({"type": "other", "target": "", "path": [], "delta": [], "keys": []}),
    }
}
/// deep observer registered through `yobserve_deep`: an array of tagged event cells
extern "C" fn on_deep(state: *mut c_void, len: u32, events: *const y::YEvent) {
    unsafe {
        let q = &*(state as *const Queue);
        for i in 0..len as usize {
            let e = &*events.add(i);
            let v = match e.tag {
                y::Y_TEXT => c_text_event(&e.content.text),
                y::Y_ARRAY => c_array_event(&e.content.array),
                y::Y_MAP => c_map_event(&e.content.map),
                y::Y_XML_ELEM | y::Y_XML_FRAG => c_xml_event(&e.content.xml_elem),
                y::Y_XML_TEXT => c_xmltext_event(&e.content.xml_text),
                t => json!({"type": format!("other{}", t), "target": "", "path": [], "delta": [], "keys": []}),
            };
            q.borrow_mut().push(v);
        }
    }
}
unsafe fn c_sv(s: &y::YStateVector) -> Value {
    let mut v: Vec<(u64, u32)> = (0..s.entries_count as usize).map(|i| (*s.client_ids.add(i), *s.clocks.add(i))).collect();
    v.sort();
    Value::Array(v.into_iter().map(|(c, k)| json!([c, k])).collect())
}
unsafe fn c_idset(s: &y::YIdSet) -> Value {
    let mut v: Vec<(u64, u32)> = Vec::new();
    for i in 0..s.entries_count as usize {
        let cl = *s.client_ids.add(i);
        let seq = &*s.ranges.add(i);
        for j in 0..seq.len as usize {
            let r = &*seq.seq.add(j);
            for k in r.start..r.end {
                v.push((cl, k));
            }
        }
    }
    v.sort();
    Value::Array(v.into_iter().map(|(c, k)| json!([c, k])).collect())
}
fn r_idset(s: &yrs::IdSet) -> Value {
    let mut v: Vec<(u64, u32)> = Vec::new();
    for (c, rs) in s.iter() {
        for r in rs.iter() {
            for k in r.start..r.end {
                v.push((c.get(), k));
            }
        }
    }
    v.sort();
    Value::Array(v.into_iter().map(|(c, k)| json!([c, k])).collect())
}
/// registered through `ydoc_observe_after_transaction`
extern "C" fn on_after_txn(state: *mut c_void, e: *mut y::YAfterTransactionEvent) {
    unsafe {
        let q = &*(state as *const Queue);
        q.borrow_mut().push(json!({"before": c_sv(&(*e).before_state), "after": c_sv(&(*e).after_state), "ds": c_idset(&(*e).delete_set)}));
    }
}

extern "C" fn on_text(state: *mut c_void, e: *const y::YTextEvent) {
    unsafe {
        let q = &*(state as *const Queue);
        let mut n = 0u32;
        let d = y::ytext_event_delta(e, &mut n);
        let delta = c_text_delta(d, n);
        let mut pn = 0u32;
        let p = y::ytext_event_path(e, &mut pn);
        q.borrow_mut().push(json!({"type": "text", "target": tok(y::ytext_event_target(e)), "path": c_path(p, pn), "delta": delta, "keys": []}));
    }
}
extern "C" fn on_array(state: *mut c_void, e: *const y::YArrayEvent) {
    unsafe {
        let q = &*(state as *const Queue);
        let mut n = 0u32;
        let d = y::yarray_event_delta(e, &mut n);
        let delta = c_changes(d, n);
        let mut pn = 0u32;
        let p = y::yarray_event_path(e, &mut pn);
        q.borrow_mut().push(json!({"type": "array", "target": tok(y::yarray_event_target(e)), "path": c_path(p, pn), "delta": delta, "keys": []}));
    }
}
extern "C" fn on_map(state: *mut c_void, e: *const y::YMapEvent) {
    unsafe {
        let q = &*(state as *const Queue);
        let mut n = 0u32;
        let d = y::ymap_event_keys(e, &mut n);
        let keys = c_keys(d, n);
        let mut pn = 0u32;
        let p = y::ymap_event_path(e, &mut pn);
        q.borrow_mut().push(json!({"type": "map", "target": tok(y::ymap_event_target(e)), "path": c_path(p, pn), "delta": [], "keys": keys}));
    }
}
extern "C" fn on_xml(state: *mut c_void, e: *const y::YXmlEvent) {
    unsafe {
        let q = &*(state as *const Queue);
        let mut n = 0u32;
        let d = y::yxmlelem_event_delta(e, &mut n);
        let delta = c_changes(d, n);
        let mut kn = 0u32;
        let k = y::yxmlelem_event_keys(e, &mut kn);
        let keys = c_keys(k, kn);
        let mut pn = 0u32;
        let p = y::yxmlelem_event_path(e, &mut pn);
        q.borrow_mut().push(json!({"type": "xml", "target": tok(y::yxmlelem_event_target(e)), "path": c_path(p, pn), "delta": delta, "keys": keys}));
    }
}
extern "C" fn on_undo_added(state: *mut c_void, e: *const y::YUndoEvent) {
    unsafe {
        let q = &*(state as *const Queue);
        q.borrow_mut().push(json!(["added", if (*e).kind == y::Y_KIND_UNDO { "undo" } else { "redo" }, (*e).origin_len]));
    }
}
extern "C" fn on_undo_popped(state: *mut c_void, e: *const y::YUndoEvent) {
    unsafe {
        let q = &*(state as *const Queue);
        q.borrow_mut().push(json!(["popped", if (*e).kind == y::Y_KIND_UNDO { "undo" } else { "redo" }, (*e).origin_len]));
    }
}

fn sorted_events(q: &Queue) -> Value {
    let mut v: Vec<Value> = q.borrow_mut().drain(..).collect();
    v.sort_by(|a, b| (a["type"].as_str(), a["target"].as_str()).cmp(&(b["type"].as_str(), b["target"].as_str())));
    Value::Array(v)
}

/// Every observation is recorded as its canonical JSON TEXT (object keys sorted): TLC compares the two sides as strings, so a
/// deviation that changes the SHAPE of an observation (a NULL where the other side has a value) is a plain inequality and
/// never an ill-typed comparison inside TLC.
fn stringify(rec: &mut Value) {
    if let Some(m) = rec.as_object_mut() {
        for (_, v) in m.iter_mut() {
            if !v.is_string() {
                *v = Value::String(v.to_string());
            }
        }
    }
}

fn sorted_list(mut v: Vec<Value>) -> Value {
    v.sort_by(|a, b| (a["type"].as_str(), a["target"].as_str()).cmp(&(b["type"].as_str(), b["target"].as_str())));
    Value::Array(v)
}

fn sv_json(sv: &StateVector) -> Value {
    let mut v: Vec<(u64, u32)> = sv.iter().map(|(c, k)| (c.get(), *k)).collect();
    v.sort();
    Value::Array(v.into_iter().map(|(c, k)| json!([c, k])).collect())
}

fn snap_json(bytes: &[u8]) -> Value {
    match Snapshot::decode_v1(bytes) {
        Ok(s) => {
            let mut ds: Vec<(u64, u32)> = Vec::new();
            for (c, rs) in s.delete_set.iter() {
                for r in rs.iter() {
                    for k in r.start..r.end {
                        ds.push((c.get(), k));
                    }
                }
            }
            ds.sort();
            json!({"sv": sv_json(&s.state_map), "ds": ds.into_iter().map(|(c, k)| json!([c, k])).collect::<Vec<_>>(), "err": ""})
        }
        Err(e) => json!({"sv": [], "ds": [], "err": e.to_string()}),
    }
}

fn v2_abstract(bytes: Option<&[u8]>) -> Value {
    match bytes {
        None => abstract_update(None),
        Some(b) => match Update::decode_v2(b) {
            Ok(u) => abstract_update(Some(&u.encode_v1())),
            Err(e) => json!({"units": [], "ds": [], "err": format!("v2: {}", e)}),
        },
    }
}

/// fields of an accessor dump that both drivers record (the C dump carries a few more)
fn project(d: &Value) -> Value {
    let mut out = serde_json::Map::new();
    if let Some(m) = d.as_object() {
        for (t, rec) in m {
            let keep: &[&str] = match rec["kind"].as_str().unwrap_or("") {
                "text" | "xmltext" => &["kind", "len", "str", "diff"],
                "array" => &["kind", "len", "iter", "get", "json", "jnest"],
                "map" => &["kind", "len", "keys", "iter", "values", "has", "get", "json", "jnest"],
                "xmlelem" => &["kind", "name", "len", "children", "get", "first", "sibs", "succ", "attrs"],
                _ => &["kind", "name", "len", "children", "get", "first", "sibs", "succ"],
            };
            let mut r = serde_json::Map::new();
            for k in keep {
                r.insert(k.to_string(), rec[*k].clone());
            }
            out.insert(t.clone(), Value::Object(r));
        }
    }
    Value::Object(out)
}

impl Extras {
    pub unsafe fn new(cx: &Cx, tdoc: &Doc, on: bool, cfg: &Value) -> Extras {
        let gc = cfg["gc"].as_bool().unwrap_or(true);
        let undo_on = on && cfg["undo"].as_bool().unwrap_or(false);
        let mut x = Extras {
            on, gc, undo_on, bytes: cfg["offset"].as_str() == Some("bytes"), dumper: if on { Some(Sx::new(cfg)) } else { None }, commits: 0,
            cq: Box::new(RefCell::new(Vec::new())), csubs: Vec::new(), cmgr: null_mut(), cuq: Box::new(RefCell::new(Vec::new())), cusubs: Vec::new(),
            cdq: Box::new(RefCell::new(Vec::new())), caq: Box::new(RefCell::new(Vec::new())),
            csnaps: Vec::new(), cstick: Vec::new(), csv_prev: vec![0],
            tq: Rc::new(RefCell::new(Vec::new())), tsubs: Vec::new(), tmgr: None, tuq: Rc::new(RefCell::new(Vec::new())), tsnaps: Vec::new(),
            tdq: Arc::new(Mutex::new(Vec::new())), taq: Arc::new(Mutex::new(Vec::new())),
            tstick: Vec::new(), tsv_prev: StateVector::default(),
        };
        if !on {
            return x;
        }
        // shallow observers on the four roots, C side
        let st = &*x.cq as *const Queue as *mut c_void;
        x.csubs.push(y::ytext_observe(cx.rt, st, on_text));
        x.csubs.push(y::yarray_observe(cx.ra, st, on_array));
        x.csubs.push(y::ymap_observe(cx.rm, st, on_map));
        x.csubs.push(y::yxmlelem_observe(cx.rx, st, on_xml));
        // ... and on the twin
        let (tt, ta, tm, tx) = {
            let t = tdoc.transact();
            (t.get_text("t").unwrap(), t.get_array("a").unwrap(), t.get_map("m").unwrap(), t.get_xml_fragment("x").unwrap())
        };
        let q = x.tq.clone();
        x.tsubs.push(tt.observe(move |txn, e| {
            q.borrow_mut().push(json!({"type": "text", "target": bt(e.target()), "path": r_path(e.path()), "delta": r_text_delta(e.delta(txn)), "keys": []}));
        }));
        let q = x.tq.clone();
        x.tsubs.push(ta.observe(move |txn, e| {
            q.borrow_mut().push(json!({"type": "array", "target": bt(e.target()), "path": r_path(e.path()), "delta": r_changes(e.delta(txn)), "keys": []}));
        }));
        let q = x.tq.clone();
        x.tsubs.push(tm.observe(move |txn, e| {
            q.borrow_mut().push(json!({"type": "map", "target": bt(e.target()), "path": r_path(e.path()), "delta": [], "keys": r_keys(e.keys(txn))}));
        }));
        let q = x.tq.clone();
        x.tsubs.push(tx.observe(move |txn, e| {
            q.borrow_mut().push(json!({"type": "xml", "target": bt(e.target()), "path": r_path(e.path()), "delta": r_changes(e.delta(txn)), "keys": r_keys(e.keys(txn))}));
        }));
        // deep observers on the array and the map root (nested types live there), after-transaction observer on the document
        let dq = &*x.cdq as *const Queue as *mut c_void;
        x.csubs.push(y::yobserve_deep(cx.ra, dq, on_deep));
        x.csubs.push(y::yobserve_deep(cx.rm, dq, on_deep));
        x.csubs.push(y::yobserve_deep(cx.rx, dq, on_deep));
        let aq = &*x.caq as *const Queue as *mut c_void;
        x.csubs.push(y::ydoc_observe_after_transaction(cx.doc, aq, on_after_txn));
        for root in [bptr(&ta), bptr(&tm), bptr(&tx)] {
            let q = x.tdq.clone();
            let mut root = root;
            x.tsubs.push(root.observe_deep(move |txn, evs| {
                for e in evs.iter() {
                    q.lock().unwrap().push(r_event(txn, e));
                }
            }));
        }
        let q = x.taq.clone();
        x.tsubs.push(
            tdoc.observe_transaction_cleanup(move |_, e| {
                q.lock().unwrap().push(json!({"before": sv_json(&e.before_state), "after": sv_json(&e.after_state), "ds": r_idset(&e.delete_set)}));
            })
            .unwrap(),
        );
        if undo_on {
            // every transaction is a stack item of its own (capture time-out 0); scope = the text root
            let o = y::YUndoManagerOptions { capture_timeout_millis: 0 };
            x.cmgr = y::yundo_manager(&o);
            y::yundo_manager_add_scope(x.cmgr, cx.doc, cx.rt);
            let us = &*x.cuq as *const Queue as *mut c_void;
            x.cusubs.push(y::yundo_manager_observe_added(x.cmgr, us, on_undo_added));
            x.cusubs.push(y::yundo_manager_observe_popped(x.cmgr, us, on_undo_popped));
            let mut ro = yrs::undo::Options::default();
            ro.capture_timeout_millis = 0;
            let mut m: UndoManager<()> = UndoManager::with_options(ro);
            m.expand_scope(tdoc, &tt);
            let q = x.tuq.clone();
            let s1 = m.observe_item_added(move |_, e| {
                q.borrow_mut().push(json!(["added", if e.kind() == yrs::undo::EventKind::Undo { "undo" } else { "redo" }, e.origin().map(|o| o.as_ref().len()).unwrap_or(0)]));
            });
            let q = x.tuq.clone();
            let s2 = m.observe_item_popped(move |_, e| {
                q.borrow_mut().push(json!(["popped", if e.kind() == yrs::undo::EventKind::Undo { "undo" } else { "redo" }, e.origin().map(|o| o.as_ref().len()).unwrap_or(0)]));
            });
            x.tsubs.push(s1);
            x.tsubs.push(s2);
            x.tmgr = Some(m);
        }
        x
    }

    unsafe fn c_read_sticky(p: *mut y::YStickyIndex, txn: *const y::Transaction) -> Value {
        if p.is_null() {
            return json!(["null", 0]);
        }
        let mut b: *mut y::Branch = null_mut();
        let mut ix: u32 = u32::MAX;
        y::ysticky_index_read(p, txn, &mut b, &mut ix);
        if b.is_null() { json!(["", -1]) } else { json!([tok(b), ix]) }
    }

    fn r_read_sticky<T: ReadTxn>(p: &Option<StickyIndex>, txn: &T) -> Value {
        match p {
            None => json!(["null", 0]),
            Some(s) => match s.get_offset(txn) {
                Some(o) => json!([btok(&o.branch), o.index]),
                None => json!(["", -1]),
            },
        }
    }

    /// inside the open transactions, after every call: where does every sticky index point now?
    pub unsafe fn after_call(&mut self, _cx: &Cx, txn: *mut y::Transaction, ttxn: &TransactionMut, ev: &mut Value, _tdump: &Value) {
        if !self.on || txn.is_null() {
            return;
        }
        let c: Vec<Value> = self.cstick.iter().map(|h| json!([Self::c_read_sticky(h[0], txn), Self::c_read_sticky(h[1], txn), Self::c_read_sticky(h[2], txn)])).collect();
        let r: Vec<Value> = self.tstick.iter().map(|h| json!([Self::r_read_sticky(&h[0], ttxn), Self::r_read_sticky(&h[1], ttxn), Self::r_read_sticky(&h[2], ttxn)])).collect();
        ev["twin"]["c"]["x"] = json!({"sticky": Value::Array(c)});
        ev["twin"]["r"]["x"] = json!({"sticky": Value::Array(r)});
        stringify(&mut ev["twin"]["c"]["x"]);
        stringify(&mut ev["twin"]["r"]["x"]);
    }

    pub unsafe fn after_commit(&mut self, cx: &Cx, tdoc: &Doc, ev: &mut Value, last: bool) {
        if !self.on {
            return;
        }
        self.commits += 1;
        let mut c = serde_json::Map::new();
        let mut r = serde_json::Map::new();
        // (already in text form, see `stringify`)
        if let Some(v) = ev["twin"]["c"]["x"].get("sticky") {
            c.insert("sticky".into(), v.clone());
        }
        if let Some(v) = ev["twin"]["r"]["x"].get("sticky") {
            r.insert("sticky".into(), v.clone());
        }
        // observer payloads of this transaction
        c.insert("obs".into(), sorted_events(&self.cq));
        r.insert("obs".into(), sorted_events(&self.tq));
        c.insert("deep".into(), sorted_events(&self.cdq));
        r.insert("deep".into(), sorted_list(self.tdq.lock().unwrap().drain(..).collect()));
        c.insert("after_txn".into(), Value::Array(self.caq.borrow_mut().drain(..).collect()));
        r.insert("after_txn".into(), Value::Array(self.taq.lock().unwrap().drain(..).collect()));
        if self.commits == 1 {
            // document / transaction getters
            let rt = y::ydoc_read_transaction(cx.doc);
            let mut ar = Arena::default();
            let known = y::ytype_get(rt, ar.s("t"));
            let unknown = y::ytype_get(rt, ar.s("nope"));
            let ro = y::ytransaction_writeable(rt);
            y::ytransaction_commit(rt);
            let wt = y::ydoc_write_transaction(cx.doc, 0, null());
            let rw = y::ytransaction_writeable(wt);
            // a second transaction while a read-write one is open must be refused, not block
            let second = y::ydoc_read_transaction(cx.doc);
            let refused = second.is_null();
            if !second.is_null() {
                y::ytransaction_commit(second);
            }
            y::ytransaction_commit(wt);
            let guid = take_str(y::ydoc_guid(cx.doc)).unwrap_or_default();
            c.insert("docinfo".into(), json!([y::ydoc_id(cx.doc), y::ydoc_should_load(cx.doc), y::ydoc_auto_load(cx.doc), ro, rw, refused, tok(known), unknown.is_null(),
                                             guid.len(), y::ydoc_collection_id(cx.doc).is_null()]));
            let second_r = {
                let _w = tdoc.transact_mut();
                tdoc.try_transact().is_err()
            };
            r.insert("docinfo".into(), json!([tdoc.client_id().get(), tdoc.should_load() as u8, tdoc.auto_load() as u8, 0, 1, second_r, "t", true,
                                             tdoc.guid().len(), tdoc.collection_id().is_none()]));
        }
        let tdump;
        {
            // ---- reads in read-only transactions
            let rtxn = y::ydoc_read_transaction(cx.doc);
            let t = tdoc.transact();
            // state vector, diff against the state vector of the previous commit (v1 / v2)
            let mut n = 0u32;
            let svb = take_bin(y::ytransaction_state_vector_v1(rtxn, &mut n), n).unwrap_or_default();
            c.insert("sv".into(), StateVector::decode_v1(&svb).map(|s| sv_json(&s)).unwrap_or(json!("undecodable")));
            let tsv = t.state_vector();
            r.insert("sv".into(), sv_json(&tsv));
            let d1 = take_bin(y::ytransaction_state_diff_v1(rtxn, self.csv_prev.as_ptr() as *const c_char, self.csv_prev.len() as u32, &mut n), n);
            c.insert("diff1".into(), abstract_update(d1.as_deref()));
            r.insert("diff1".into(), abstract_update(Some(&t.encode_diff_v1(&self.tsv_prev))));
            let d2 = take_bin(y::ytransaction_state_diff_v2(rtxn, self.csv_prev.as_ptr() as *const c_char, self.csv_prev.len() as u32, &mut n), n);
            c.insert("diff2".into(), v2_abstract(d2.as_deref()));
            r.insert("diff2".into(), v2_abstract(Some(&t.encode_diff_v2(&self.tsv_prev))));
            self.csv_prev = svb;
            self.tsv_prev = tsv;
            // snapshot descriptor
            let sb = take_bin(y::ytransaction_snapshot(rtxn, &mut n), n).unwrap_or_default();
            c.insert("snap".into(), snap_json(&sb));
            let ts = t.snapshot();
            r.insert("snap".into(), snap_json(&ts.encode_v1()));
            if self.csnaps.len() < 3 {
                self.csnaps.push(sb);
                self.tsnaps.push(ts);
            }
            if last {
                // the document as of every remembered snapshot (NULL / Err when the document collects garbage)
                let mut cs = Vec::new();
                let mut rs = Vec::new();
                for (sb, ts) in self.csnaps.iter().zip(self.tsnaps.iter()) {
                    let a = take_bin(y::ytransaction_encode_state_from_snapshot_v1(rtxn, sb.as_ptr() as *const c_char, sb.len() as u32, &mut n), n);
                    let b = take_bin(y::ytransaction_encode_state_from_snapshot_v2(rtxn, sb.as_ptr() as *const c_char, sb.len() as u32, &mut n), n);
                    cs.push(json!([abstract_update(a.as_deref()), v2_abstract(b.as_deref())]));
                    let mut e1 = EncoderV1::new();
                    let ra = t.encode_state_from_snapshot(ts, &mut e1).ok().map(|_| e1.to_vec());
                    let mut e2 = EncoderV2::new();
                    let rb = t.encode_state_from_snapshot(ts, &mut e2).ok().map(|_| e2.to_vec());
                    rs.push(json!([abstract_update(ra.as_deref()), v2_abstract(rb.as_deref())]));
                }
                c.insert("from_snap".into(), Value::Array(cs));
                r.insert("from_snap".into(), Value::Array(rs));
                let _ = self.gc;
            }
            // every accessor, C API vs Rust API
            c.insert("dump".into(), project(&ev["after"]));
            tdump = self.dumper.as_ref().map(|d| d.dump(&t)).unwrap_or(json!({}));
            r.insert("dump".into(), project(&tdump));
            y::ytransaction_commit(rtxn);
        }
        // ---- new sticky indexes at the first two commit points (creation needs a read-write transaction in the C API)
        if self.commits <= 2 {
            let wtxn = y::ydoc_write_transaction(cx.doc, 0, null());
            let t = tdoc.transact_mut();
            let mut made_c = Vec::new();
            let mut made_r = Vec::new();
            let tt = t.get_text("t").unwrap();
            let ta = t.get_array("a").unwrap();
            // positions: unit boundaries of the text (in the document's offset unit), element boundaries of the array
            let s = take_str(y::ytext_string(cx.rt, wtxn)).unwrap_or_default();
            let mut tpos: Vec<u32> = vec![0];
            let mut acc = 0u32;
            for ch in s.chars() {
                acc += if self.bytes { ch.len_utf8() as u32 } else { ch.len_utf16() as u32 };
                tpos.push(acc);
            }
            let apos: Vec<u32> = (0..=y::yarray_len(cx.ra)).collect();
            let pick = |v: &Vec<u32>| -> Vec<u32> {
                if v.len() <= 3 { v.clone() } else { vec![v[0], v[v.len() / 2], v[v.len() - 1]] }
            };
            for (cb, rb, pos) in [(cx.rt, bptr(&tt), pick(&tpos)), (cx.ra, bptr(&ta), pick(&apos))] {
                for p in pos {
                    for assoc in [0i8, -1i8] {
                        // C: create, encode / decode, to_json / from_json
                        let h = y::ysticky_index_from_index(cb, wtxn, p, assoc);
                        let (h2, h3, rec) = if h.is_null() {
                            (null_mut(), null_mut(), json!({"assoc": 9, "bin": [], "json": "null"}))
                        } else {
                            let mut n = 0u32;
                            let bin = take_bin(y::ysticky_index_encode(h, &mut n), n).unwrap_or_default();
                            let h2 = y::ysticky_index_decode(bin.as_ptr() as *const c_char, bin.len() as u32);
                            let js = y::ysticky_index_to_json(h);
                            let h3 = if js.is_null() { null_mut() } else { y::ysticky_index_from_json(js) };
                            let jtxt = take_str(js).unwrap_or_default();
                            (h2, h3, json!({"assoc": y::ysticky_index_assoc(h), "bin": bin, "json": serde_json::from_str::<Value>(&jtxt).unwrap_or(json!(jtxt))}))
                        };
                        made_c.push(rec);
                        self.cstick.push([h, h2, h3]);
                        // Rust: the same
                        let a = if assoc >= 0 { Assoc::After } else { Assoc::Before };
                        let rh = StickyIndex::at(&t, rb, p, a);
                        let (rh2, rh3, rec) = match &rh {
                            None => (None, None, json!({"assoc": 9, "bin": [], "json": "null"})),
                            Some(s) => {
                                let bin = s.encode_v1();
                                let js = serde_json::to_string(s).unwrap_or_default();
                                (
                                    StickyIndex::decode_v1(&bin).ok(),
                                    serde_json::from_str::<StickyIndex>(&js).ok(),
                                    json!({"assoc": if s.assoc == Assoc::After { 0 } else { -1 }, "bin": bin, "json": serde_json::from_str::<Value>(&js).unwrap_or(json!(js))}),
                                )
                            }
                        };
                        made_r.push(rec);
                        self.tstick.push([rh, rh2, rh3]);
                    }
                }
            }
            drop(t);
            y::ytransaction_commit(wtxn);
            c.insert("sticky_new".into(), Value::Array(made_c));
            r.insert("sticky_new".into(), Value::Array(made_r));
            // (an empty transaction fires nothing; anything it did fire shows in the next event's `obs`)
        }
        // ---- a delta applied through `ytext_insert_delta` / `Text::apply_delta` at the end of a text program
        if last && self.undo_on {
            let width = |s: &str| -> u32 { s.chars().map(|c| if self.bytes { c.len_utf8() as u32 } else { c.len_utf16() as u32 }).sum() };
            let word = "\u{394}1";
            for round in 0..2 {
                let wtxn = y::ydoc_write_transaction(cx.doc, 0, null());
                let mut t = tdoc.transact_mut();
                let tt = t.get_text("t").unwrap();
                let l = y::ytext_len(cx.rt, wtxn);
                let mut ar = Arena::default();
                let ai = ar.lv(&LV::Map(vec![("i".into(), LV::Str("d".into()))]));
                let ab = ar.lv(&LV::Map(vec![("b".into(), LV::Bool(true))]));
                let ins = ar.lv(&LV::Str(word.into()));
                let emb = ar.lv(&LV::Num(77.0));
                let mk = |k: &str, v: Any| -> Option<Box<yrs::types::Attrs>> {
                    let mut a = yrs::types::Attrs::new();
                    a.insert(k.into(), v);
                    Some(Box::new(a))
                };
                if round == 0 {
                    let mut d = vec![y::ydelta_input_insert(&ins, &ai), y::ydelta_input_insert(&emb, null()), y::ydelta_input_retain(l, &ab)];
                    let n = if l > 0 { 3 } else { 2 };
                    y::ytext_insert_delta(cx.rt, wtxn, d.as_mut_ptr(), n);
                    let mut rd: Vec<Delta<In>> = vec![Delta::Inserted(In::Any(Any::String(word.into())), mk("i", Any::String("d".into()))), Delta::Inserted(In::Any(Any::Number(77.0)), None)];
                    if l > 0 {
                        rd.push(Delta::Retain(l, mk("b", Any::Bool(true))));
                    }
                    tt.apply_delta(&mut t, rd);
                } else if l > width(word) + 1 {
                    let keep = width(word) + 1;
                    let mut d = vec![y::ydelta_input_retain(keep, null()), y::ydelta_input_delete(l - keep)];
                    y::ytext_insert_delta(cx.rt, wtxn, d.as_mut_ptr(), 2);
                    tt.apply_delta(&mut t, vec![Delta::<In>::Retain(keep, None), Delta::Deleted(l - keep)]);
                }
                let cd = project(&cx.dump(wtxn))["t"].clone();
                let cs = cx.state(wtxn);
                let rdump = project(&self.dumper.as_ref().unwrap().dump(&t))["t"].clone();
                let rs = abstract_update(Some(&t.encode_state_as_update_v1(&StateVector::default())));
                drop(t);
                y::ytransaction_commit(wtxn);
                c.insert(format!("delta{}", round), json!([cd, cs]));
                r.insert(format!("delta{}", round), json!([rdump, rs]));
            }
        }
        // ---- undo / redo round trip at the end of the program
        if last && self.undo_on {
            let mut cu = Vec::new();
            let mut ru = Vec::new();
            let read_c = |cx: &Cx| -> Value {
                let rt = y::ydoc_read_transaction(cx.doc);
                let d = cx.dump(rt);
                y::ytransaction_commit(rt);
                project(&d)["t"].clone()
            };
            let read_r = |me: &Extras| -> Value {
                let t = tdoc.transact();
                project(&me.dumper.as_ref().unwrap().dump(&t))["t"].clone()
            };
            for round in 0..2 {
                for _ in 0..8 {
                    let f = if round == 0 { y::yundo_manager_undo(self.cmgr) } else { y::yundo_manager_redo(self.cmgr) };
                    cu.push(json!([round, f, y::yundo_manager_undo_stack_len(self.cmgr), y::yundo_manager_redo_stack_len(self.cmgr), read_c(cx)]));
                    let m = self.tmgr.as_mut().unwrap();
                    let g = if round == 0 { m.undo_blocking() } else { m.redo_blocking() };
                    let (ul, rl) = (m.undo_stack().len(), m.redo_stack().len());
                    ru.push(json!([round, g as u8, ul, rl, read_r(self)]));
                    if f == 0 && !g {
                        break;
                    }
                }
            }
            y::yundo_manager_stop(self.cmgr);
            self.tmgr.as_mut().unwrap().reset();
            y::yundo_manager_clear(self.cmgr);
            self.tmgr.as_mut().unwrap().clear_all();
            cu.push(json!([9, 0, y::yundo_manager_undo_stack_len(self.cmgr), y::yundo_manager_redo_stack_len(self.cmgr), {}]));
            let m = self.tmgr.as_ref().unwrap();
            ru.push(json!([9, 0, m.undo_stack().len(), m.redo_stack().len(), {}]));
            c.insert("undo".into(), Value::Array(cu));
            r.insert("undo".into(), Value::Array(ru));
            c.insert("undo_events".into(), Value::Array(self.cuq.borrow_mut().drain(..).collect()));
            r.insert("undo_events".into(), Value::Array(self.tuq.borrow_mut().drain(..).collect()));
            // what the undo / redo transactions told the observers
            c.insert("obs_undo".into(), sorted_events(&self.cq));
            r.insert("obs_undo".into(), sorted_events(&self.tq));
        }
        ev["twin"]["c"]["x"] = Value::Object(c);
        ev["twin"]["r"]["x"] = Value::Object(r);
        stringify(&mut ev["twin"]["c"]["x"]);
        stringify(&mut ev["twin"]["r"]["x"]);
    }

    pub unsafe fn finish(&mut self) {
        for h in self.cstick.drain(..) {
            for p in h {
                if !p.is_null() {
                    y::ysticky_index_destroy(p);
                }
            }
        }
        for s in self.cusubs.drain(..) {
            y::yunobserve(s);
        }
        if !self.cmgr.is_null() {
            y::yundo_manager_destroy(self.cmgr);
            self.cmgr = null_mut();
        }
        for s in self.csubs.drain(..) {
            y::yunobserve(s);
        }
        self.tsubs.clear();
        self.tmgr = None;
    }
}
