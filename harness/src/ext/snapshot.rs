//! Extension `snapshot` of the Yata executor (see ext/mod.rs for the contract) -- property C13.
//!
//! Steps
//!   {"a":"snap","r":<replica>,"h":"<handle>"[,"via":"v1"|"v2"|"none"]}
//!       takes `doc.transact().snapshot()`, passes it through its own encode/decode (v1 and v2; what came back is
//!       recorded, TLC compares), keeps it under the handle (the value kept is the one that went through the
//!       encoding named by `via`, so that later restores also exercise "a snapshot survives its own encode/decode").
//!   {"a":"restore","r":<replica>,"h":"<handle>","enc":"v1"|"v2"}
//!       calls `encode_state_from_snapshot` on the CURRENT document of the replica, decodes the payload with the
//!       independent decoder, applies it to a FRESH document (new client id, same root types) and records the
//!       observation of that document.
//! Nothing here decides a verdict: events only carry what was observed.
use crate::codec::Id;
use crate::obs;
use crate::yata::{mk_doc, panic_msg, World};
use serde_json::{json, Value};
use std::panic::{catch_unwind, AssertUnwindSafe};
use yrs::updates::decoder::Decode;
use yrs::updates::encoder::{Encode, Encoder, EncoderV1, EncoderV2};
use yrs::{ReadTxn, Snapshot, Transact, Update};

pub struct Handle {
    pub name: String,
    pub replica: u64,
    pub snap: Snapshot,
}

#[derive(Default)]
pub struct SnapState {
    pub handles: Vec<Handle>,
    pub fresh: u64,
}

fn state(w: &mut World) -> &mut SnapState {
    w.ext.entry("snapshot".to_string()).or_insert_with(|| Box::new(SnapState::default())).downcast_mut::<SnapState>().unwrap()
}

pub fn init(w: &mut World) {
    w.ext.insert("snapshot".to_string(), Box::new(SnapState::default()));
}

fn state_map(s: &Snapshot) -> Vec<Id> {
    let mut v: Vec<Id> = s.state_map.iter().map(|(c, k)| (c.get(), *k)).collect();
    v.sort();
    v
}

fn delete_units(s: &Snapshot) -> Vec<Id> {
    let mut v = Vec::new();
    for (c, ranges) in s.delete_set.iter() {
        for r in ranges.iter() {
            for k in r.start..r.end {
                v.push((c.get(), k));
            }
        }
    }
    v.sort();
    v.dedup();
    v
}

/// one encode/decode round trip; returns (json record, decoded value)
fn round_trip(s: &Snapshot, v2: bool) -> (Value, Option<Snapshot>) {
    let r = catch_unwind(AssertUnwindSafe(|| {
        let bytes = if v2 { s.encode_v2() } else { s.encode_v1() };
        if v2 {
            Snapshot::decode_v2(&bytes)
        } else {
            Snapshot::decode_v1(&bytes)
        }
    }));
    match r {
        Ok(Ok(d)) => (json!({"ok": true, "why": "", "eq": &d == s, "sm": obs::idsv(&state_map(&d)), "ds": obs::idsv(&delete_units(&d))}), Some(d)),
        Ok(Err(e)) => (json!({"ok": false, "why": format!("decode: {}", e), "eq": false, "sm": [], "ds": []}), None),
        Err(p) => (json!({"ok": false, "why": format!("panic: {}", panic_msg(&p)), "eq": false, "sm": [], "ds": []}), None),
    }
}

fn do_snap(w: &mut World, st: &Value) -> Value {
    let r = st["r"].as_u64().unwrap();
    let ri = w.rep(r);
    let h = st["h"].as_str().unwrap_or("?").to_string();
    let doc = w.reps[ri].doc.clone();
    let taken = catch_unwind(AssertUnwindSafe(|| doc.transact().snapshot()));
    let snap = match taken {
        Ok(s) => s,
        Err(p) => {
            let none = json!({"ok": false, "why": "", "eq": false, "sm": [], "ds": []});
            return json!({"k": "snap", "r": r, "h": h, "via": "none", "outcome": format!("panic: {}", panic_msg(&p)), "sm": [], "ds": [],
                "rt": {"v1": none.clone(), "v2": none}, "obs": w.observe(ri)});
        }
    };
    let (rt1, d1) = round_trip(&snap, false);
    let (rt2, d2) = round_trip(&snap, true);
    let via = match st["via"].as_str() {
        Some(v) => v.to_string(),
        None => ["none", "v1", "v2"][w.rng.below(3) as usize].to_string(),
    };
    let kept = match via.as_str() {
        "v1" => d1.unwrap_or_else(|| snap.clone()),
        "v2" => d2.unwrap_or_else(|| snap.clone()),
        _ => snap.clone(),
    };
    let ev = json!({"k": "snap", "r": r, "h": h, "via": via, "outcome": "ok",
        "sm": obs::idsv(&state_map(&snap)), "ds": obs::idsv(&delete_units(&snap)),
        "rt": {"v1": rt1, "v2": rt2}, "obs": w.observe(ri)});
    let s = state(w);
    s.handles.retain(|x| x.name != h);
    s.handles.push(Handle { name: h, replica: r, snap: kept });
    ev
}

fn empty_obs() -> Value {
    json!({"lst": {}, "dead": [], "gone": [], "coll": [], "holes": [], "top": [], "integrity": "ok", "pub": {}, "c17": "ok",
        "missing": false, "pend": [], "pmiss": [], "pds": [], "sv": []})
}

fn do_restore(w: &mut World, st: &Value) -> Value {
    let r = st["r"].as_u64().unwrap();
    let ri = w.rep(r);
    let h = st["h"].as_str().unwrap_or("?").to_string();
    let v2 = w.pick_v2(st);
    let enc = if v2 { "v2" } else { "v1" };
    let no_upd = json!({"ins": [], "del": [], "skips": []});
    let snap = match state(w).handles.iter().find(|x| x.name == h) {
        Some(x) => x.snap.clone(),
        None => {
            return json!({"k": "restore", "r": r, "h": h, "enc": enc, "oc": "nohandle", "err": "unknown handle", "bytes": 0, "upd": no_upd, "wire": "",
                "apply": "", "robs": empty_obs(), "obs": w.observe(ri)});
        }
    };
    let doc = w.reps[ri].doc.clone();
    let res = catch_unwind(AssertUnwindSafe(|| {
        let txn = doc.transact();
        if v2 {
            let mut e = EncoderV2::new();
            txn.encode_state_from_snapshot(&snap, &mut e).map(|_| e.to_vec())
        } else {
            let mut e = EncoderV1::new();
            txn.encode_state_from_snapshot(&snap, &mut e).map(|_| e.to_vec())
        }
    }));
    let (oc, err, bytes) = match res {
        Ok(Ok(b)) => ("ok", String::new(), Some(b)),
        Ok(Err(e)) => ("refused", format!("{}", e), None),
        Err(p) => ("panic", panic_msg(&p), None),
    };
    let mut upd = no_upd;
    let mut wire = String::new();
    let mut apply = String::new();
    let mut robs = empty_obs();
    if let Some(bytes) = &bytes {
        // the payload is decoded with the independent decoder, but it must not teach the harness anything: element
        // identities (tags) and containers stay what the ORIGINAL updates said, so that a wrongly cut payload
        // cannot make wrong content look right
        let tags0 = w.tags.clone();
        let known0 = w.known.clone();
        let (u, problems) = w.payload(bytes, v2);
        w.tags = tags0;
        w.known = known0;
        upd = u;
        wire = problems.join("; ");
        let n = {
            let s = state(w);
            s.fresh += 1;
            s.fresh
        };
        let fresh = mk_doc(7000 + n, false, w.offset);
        fresh.get_or_insert_text("t");
        fresh.get_or_insert_array("a");
        fresh.get_or_insert_map("m");
        let fd = fresh.clone();
        let ap = catch_unwind(AssertUnwindSafe(|| -> Result<(), String> {
            let up = if v2 { Update::decode_v2(bytes) } else { Update::decode_v1(bytes) }.map_err(|e| format!("decode: {}", e))?;
            let mut txn = fd.transact_mut();
            txn.apply_update(up).map_err(|e| format!("apply: {}", e))
        }));
        apply = match ap {
            Ok(Ok(())) => "ok".into(),
            Ok(Err(e)) => format!("error: {}", e),
            Err(p) => format!("panic: {}", panic_msg(&p)),
        };
        let fd = fresh.clone();
        match catch_unwind(AssertUnwindSafe(|| w.observe_doc(&fd))) {
            Ok(o) => robs = o,
            Err(p) => {
                robs = empty_obs();
                robs["integrity"] = json!(format!("panic while reading the restored document: {}", panic_msg(&p)));
            }
        }
    }
    json!({"k": "restore", "r": r, "h": h, "enc": enc, "oc": oc, "err": err, "bytes": bytes.map(|b| b.len()).unwrap_or(0),
        "upd": upd, "wire": wire, "apply": apply, "robs": robs, "obs": w.observe(ri)})
}

pub fn step(w: &mut World, st: &Value) -> Option<Value> {
    match st["a"].as_str() {
        Some("snap") => Some(do_snap(w, st)),
        Some("restore") => Some(do_restore(w, st)),
        _ => None,
    }
}

pub fn after_step(_w: &mut World, _st: &Value, _ev: &mut Value) {}

/// seeded driver: take a snapshot of a random replica, or restore a random earlier handle on its replica
pub fn random_step(w: &mut World, _authors: &[u64], all: &[u64]) -> Option<Value> {
    let (n, pick) = {
        let k = w.rng.next();
        let s = state(w);
        let n = s.handles.len();
        let pick = if n > 0 { Some((s.handles[(k % n as u64) as usize].name.clone(), s.handles[(k % n as u64) as usize].replica)) } else { None };
        (n, pick)
    };
    if n == 0 || (n < 8 && w.rng.chance(1, 2)) {
        let r = all[w.rng.below(all.len() as u64) as usize];
        let via = ["none", "v1", "v2"][w.rng.below(3) as usize];
        Some(json!({"a": "snap", "r": r, "h": format!("s{}", n + 1), "via": via}))
    } else {
        let (h, r) = pick.unwrap();
        Some(json!({"a": "restore", "r": r, "h": h, "enc": if w.rng.chance(1, 2) { "v1" } else { "v2" }}))
    }
}
