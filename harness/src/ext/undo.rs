//! Extension `undo` of the Yata executor (see ext/mod.rs for the contract) -- property C12.
//!
//! Configuration `cfg.undo = {"r": <replica>, "scope": ["t"|"a"|"m"|"x", ...], "origin": "U" | "", "timeout": 500}`
//! (scope "x" = the XML fragment root, needs `cfg.xml = true` so that every replica declares the root):
//! replica `r` gets an `UndoManager` over the listed root types.  `origin` = tracked transaction origin
//! ("" = the manager tracks transactions WITHOUT origin, the library's default rule).  The manager's clock
//! is controlled: it only moves by `tick` steps, so capture grouping is deterministic.
//! Without `cfg.undo` (seeded random driver) the configuration is drawn from the behaviour's seed.
//!
//! Steps owned by this extension
//!   {"a":"tick","ms":N}                       advance the manager's clock
//!   {"a":"ustop","r":r}                       UndoManager::reset() (stop capturing into the current stack item)
//!   {"a":"undo","r":r} / {"a":"redo","r":r}   undo_blocking() / redo_blocking(); a local transaction: the event has the
//!                                             fields of World::local (`k:"loc"`, upd, obs, nev, ...) plus `ret`
//!   {"a":"uop","op":"ins|del|set|rem|fmt", ...} a local step whose address is resolved against the CURRENT visible state
//!                                             (index clamped, "#j" = j-th nested container, inapplicable -> `unop` event);
//!                                             executed through World::local (event `k:"loc"`, `call` = resolved step).
//!                                             XML: root "x"; "#e<j>" / "#t<j>" = j-th XmlElement / XmlText child (cyclic), "#j" =
//!                                             j-th child of any kind; ins with k "E" (element, fresh unique name) or "X" (text node
//!                                             with n fresh characters and a fresh attribute `uid`): every node is unique BY VALUE;
//!                                             set / rem = attribute of an element; ins / del / fmt (fresh format value, key "b") on
//!                                             an XmlText
//!   {"a":"umulti","r":r,"o":origin,"ops":[{"op":..,"p":..,"i":..,"n":..,"k":..,"key":..}, ..]}
//!                                             the listed `uop`-like operations inside ONE transaction of origin `o`; every
//!                                             address is resolved against the state at that moment INSIDE the transaction
//!                                             (roots outside the scope may be addressed); event `k:"loc"`, `call` =
//!                                             {"a":"multi","o":..,"ops":[resolved steps | {"a":"none"}]}, one update slot
//! Every update slot is used (an inapplicable `uop` pushes an empty update) so that slot numbers are static.
//!
//! Every event of the behaviour additionally carries (after_step):
//!   uc    = {"r","scope","origin","timeout"}          the manager's configuration
//!   us,rs = undo_stack().len(), redo_stack().len()
//!   uv    = {"t": <canonical content string>, "a": .., "m": .., "x": ..}   content of r's root types (by VALUE, not by id);
//!           XML: X[child,..], element <name k=v,..>[child,..] (attributes sorted), text node T{k=v,..}("chunk"{fmt},..)
//!   uclk  = current value of the controlled clock
//!   croot = {container key: root name} for every container known so far
//!   vv    = comparison key for repeated executions of the same schedule (content by value, stack lengths, return value)
//!   alias = (undo / redo calls only) classes of element ids that carried the same value, in order of creation
use crate::obs;
use crate::yata::{panic_msg, World};
use serde_json::{json, Map as JMap, Value};
use std::collections::{HashMap, HashSet};
use std::panic::{catch_unwind, AssertUnwindSafe};
use std::sync::atomic::{AtomicU64, Ordering};
use std::sync::Arc;
use yrs::undo::{Options as UndoOptions, UndoManager};
use yrs::types::text::YChange;
use yrs::types::xml::{XmlFragment, XmlOut};
use yrs::{Array, GetString, Map, Out, ReadTxn, Text, TextRef, Transact, Xml, XmlFragmentRef};

pub struct UndoExt {
    pub r: u64,
    pub scope: Vec<String>,
    pub origin: String,
    pub timeout: u64,
    pub clock: Arc<AtomicU64>,
    pub mgr: UndoManager<()>,
    /// value tag -> every element id that ever carried it (redo re-creates an element's content under a new id, so a
    /// value no longer identifies ONE element; `fix_pub` picks the id that is listed and alive in the observed replica)
    pub same: HashMap<String, Vec<(u64, u32)>>,
}

fn take(w: &mut World) -> Option<Box<UndoExt>> {
    w.ext.remove("undo").and_then(|b| b.downcast::<UndoExt>().ok())
}
fn put(w: &mut World, u: Box<UndoExt>) {
    w.ext.insert("undo".to_string(), u);
}

pub fn init(w: &mut World) {
    let c = w.cfg["undo"].clone();
    let (r, scope, origin, timeout) = if c.is_object() {
        (
            c["r"].as_u64().unwrap_or(1),
            c["scope"].as_array().map(|a| a.iter().filter_map(|x| x.as_str().map(|s| s.to_string())).collect()).unwrap_or_else(|| vec!["t".to_string()]),
            c["origin"].as_str().unwrap_or("").to_string(),
            c["timeout"].as_u64().unwrap_or(500),
        )
    } else {
        // seeded random driver: replica 1, scope drawn from the seed, transactions without origin are tracked
        let scopes: [&[&str]; 6] = [&["t"], &["a"], &["m"], &["t", "m"], &["a", "m"], &["t", "a", "m"]];
        let s = scopes[w.rng.below(scopes.len() as u64) as usize];
        (1u64, s.iter().map(|x| x.to_string()).collect::<Vec<String>>(), String::new(), 500u64)
    };
    if !w.reps.iter().any(|x| x.id == r) {
        return;
    }
    let ri = w.rep(r);
    let clock = Arc::new(AtomicU64::new(1000));
    let c2 = clock.clone();
    let mut o: UndoOptions<()> = UndoOptions::default();
    o.capture_timeout_millis = timeout;
    o.timestamp = Arc::new(move || c2.load(Ordering::SeqCst));
    let mut mgr: UndoManager<()> = UndoManager::with_options(o);
    let doc = w.reps[ri].doc.clone();
    for s in &scope {
        match s.as_str() {
            "t" => {
                let t = doc.get_or_insert_text("t");
                mgr.expand_scope(&doc, &t);
            }
            "a" => {
                let a = doc.get_or_insert_array("a");
                mgr.expand_scope(&doc, &a);
            }
            "m" => {
                let m = doc.get_or_insert_map("m");
                mgr.expand_scope(&doc, &m);
            }
            "x" => {
                let x = doc.get_or_insert_xml_fragment("x");
                mgr.expand_scope(&doc, &x);
            }
            _ => {}
        }
    }
    if !origin.is_empty() {
        mgr.include_origin(origin.as_str());
    }
    put(w, Box::new(UndoExt { r, scope, origin, timeout, clock, mgr, same: HashMap::new() }));
}

// -------------------------------------------------------------------------------------------------
// canonical content (by value) of a root type, read through the public API

fn render<T: ReadTxn>(txn: &T, o: &Out, depth: usize) -> String {
    if depth > 12 {
        return "?deep".into();
    }
    match o {
        Out::Any(a) => obs::any_tag(a),
        Out::YText(t) => format!("\"{}\"", t.get_string(txn)),
        Out::YArray(a) => {
            let items: Vec<String> = a.iter(txn).map(|v| render(txn, &v, depth + 1)).collect();
            format!("[{}]", items.join(","))
        }
        Out::YMap(m) => {
            let mut es: Vec<(String, String)> = m.iter(txn).map(|(k, v)| (k.to_string(), render(txn, &v, depth + 1))).collect();
            es.sort();
            let items: Vec<String> = es.into_iter().map(|(k, v)| format!("{}:{}", k, v)).collect();
            format!("{{{}}}", items.join(","))
        }
        Out::YXmlFragment(f) => format!("X[{}]", render_children(txn, f, depth)),
        Out::YXmlElement(e) => {
            let f: &XmlFragmentRef = e.as_ref();
            format!("<{}{}>[{}]", e.tag(), render_attrs(txn, e.attributes(txn).map(|(k, v)| (k.to_string(), v)).collect(), depth, " "), render_children(txn, f, depth))
        }
        Out::YXmlText(t) => {
            let tr: &TextRef = t.as_ref();
            // formatted chunks; neighbouring chunks with equal formatting are one chunk (canonical form)
            let mut chunks: Vec<(String, String)> = Vec::new();
            for d in tr.diff(txn, YChange::identity) {
                let fmt = match &d.attributes {
                    Some(a) => {
                        let mut kv: Vec<(String, String)> = a.iter().map(|(k, v)| (k.to_string(), obs::any_tag(v))).collect();
                        kv.sort();
                        kv.into_iter().map(|(k, v)| format!("{}={}", k, v)).collect::<Vec<_>>().join(",")
                    }
                    None => String::new(),
                };
                let body = match &d.insert {
                    Out::Any(yrs::Any::String(s)) => s.to_string(),
                    other => format!("\u{1}{}\u{1}", render(txn, other, depth + 1)),
                };
                match chunks.last_mut() {
                    Some(l) if l.1 == fmt => l.0.push_str(&body),
                    _ => chunks.push((body, fmt)),
                }
            }
            let cs: Vec<String> = chunks.into_iter().map(|(b, f)| if f.is_empty() { format!("\"{}\"", b) } else { format!("\"{}\"{{{}}}", b, f) }).collect();
            format!("T{}({})", render_attrs(txn, t.attributes(txn).map(|(k, v)| (k.to_string(), v)).collect(), depth, ""), cs.join(","))
        }
        _ => "?".into(),
    }
}

fn xml_out(x: XmlOut) -> Out {
    match x {
        XmlOut::Element(e) => Out::YXmlElement(e),
        XmlOut::Fragment(f) => Out::YXmlFragment(f),
        XmlOut::Text(t) => Out::YXmlText(t),
    }
}

fn render_children<T: ReadTxn>(txn: &T, f: &XmlFragmentRef, depth: usize) -> String {
    f.children(txn).map(|c| render(txn, &xml_out(c), depth + 1)).collect::<Vec<_>>().join(",")
}

fn render_attrs<T: ReadTxn>(txn: &T, attrs: Vec<(String, Out)>, depth: usize, lead: &str) -> String {
    let mut kv: Vec<(String, String)> = attrs.iter().map(|(k, v)| (k.clone(), render(txn, v, depth + 1))).collect();
    kv.sort();
    if kv.is_empty() {
        return String::new();
    }
    let body = kv.into_iter().map(|(k, v)| format!("{}={}", k, v)).collect::<Vec<_>>().join(",");
    if lead.is_empty() { format!("{{{}}}", body) } else { format!("{}{}", lead, body) }
}

fn views(w: &World, ri: usize) -> Value {
    let txn = w.reps[ri].doc.transact();
    let t = txn.get_text("t").map(|t| render(&txn, &Out::YText(t), 0)).unwrap_or_default();
    let a = txn.get_array("a").map(|a| render(&txn, &Out::YArray(a), 0)).unwrap_or_default();
    let m = txn.get_map("m").map(|m| render(&txn, &Out::YMap(m), 0)).unwrap_or_default();
    // the XML root exists only in behaviours that asked for it (cfg.xml); rendered as the empty fragment otherwise
    let x = txn.get_xml_fragment("x").map(|x| render(&txn, &Out::YXmlFragment(x), 0)).unwrap_or_else(|| "X[]".to_string());
    json!({"t": t, "a": a, "m": m, "x": x})
}

fn root_of(w: &World, cont: &str) -> String {
    let mut key = cont.to_string();
    for _ in 0..16 {
        let head = key.split('|').next().unwrap_or("").to_string();
        if !head.contains(':') {
            return head;
        }
        let mut it = head.split(':');
        let c: u64 = it.next().and_then(|x| x.parse().ok()).unwrap_or(0);
        let k: u32 = it.next().and_then(|x| x.parse().ok()).unwrap_or(0);
        match w.known.get(&(c, k)) {
            Some((pc, _, _)) => key = pc.clone(),
            None => return "?".into(),
        }
    }
    "?".into()
}

fn idof(v: &Value) -> (u64, u32) {
    (v[0].as_u64().unwrap_or(0), v[1].as_u64().unwrap_or(0) as u32)
}

/// public view of one observation: ids recovered from value tags are ambiguous between an element and its re-created
/// copies; choose the one that is listed and alive in the same container of the same observation (if unique)
fn fix_pub(o: &mut Value, classes: &HashMap<(u64, u32), usize>, groups: &[Vec<(u64, u32)>]) {
    if !o["pub"].is_object() {
        return;
    }
    let dead: HashSet<(u64, u32)> = o["dead"].as_array().map(|a| a.iter().map(idof).collect()).unwrap_or_default();
    let lst = o["lst"].clone();
    let Some(p) = o["pub"].as_object_mut() else { return };
    for (cont, ids) in p.iter_mut() {
        let listed: HashSet<(u64, u32)> = lst[cont.as_str()].as_array().map(|a| a.iter().map(idof).collect()).unwrap_or_default();
        if let Some(arr) = ids.as_array_mut() {
            for x in arr.iter_mut() {
                let id = idof(x);
                if let Some(g) = classes.get(&id) {
                    let c: Vec<&(u64, u32)> = groups[*g].iter().filter(|y| listed.contains(y) && !dead.contains(y)).collect();
                    if c.len() == 1 {
                        *x = json!([c[0].0, c[0].1]);
                    }
                }
            }
        }
    }
}

pub fn after_step(w: &mut World, _st: &Value, ev: &mut Value) {
    let Some(mut u) = take(w) else { return };
    let ri = w.rep(u.r);
    // value tags that moved to another id since the last event: the two ids carry the same content
    for (tag, id) in w.tags.by_tag.iter() {
        let e = u.same.entry(tag.clone()).or_default();
        if !e.contains(id) {
            e.push(*id);
        }
    }
    let mut groups: Vec<Vec<(u64, u32)>> = u.same.values().filter(|v| v.len() > 1).cloned().collect();
    groups.sort();
    // undo / redo calls carry the classes (an element and its re-created copies, in order of creation): diagnostic context
    // for known-finding patterns
    if matches!(ev["call"]["a"].as_str(), Some("undo") | Some("redo")) {
        ev["alias"] = json!(groups.iter().map(|g| g.iter().map(|x| json!([x.0, x.1])).collect::<Vec<_>>()).collect::<Vec<_>>());
    }
    if !groups.is_empty() {
        let mut classes = HashMap::new();
        for (i, g) in groups.iter().enumerate() {
            for id in g {
                classes.insert(*id, i);
            }
        }
        for key in ["obs", "fobs"] {
            if ev.get(key).is_some() {
                fix_pub(&mut ev[key], &classes, &groups);
            }
        }
        if ev.get("fol").map(|f| f.get("v1").is_some()).unwrap_or(false) {
            fix_pub(&mut ev["fol"]["v1"], &classes, &groups);
            fix_pub(&mut ev["fol"]["v2"], &classes, &groups);
        }
    }
    let mut croot = JMap::new();
    let mut conts: Vec<String> = w.known.values().map(|v| v.0.clone()).collect();
    conts.sort();
    conts.dedup();
    for c in conts {
        let r = root_of(w, &c);
        croot.insert(c, json!(r));
    }
    if let Some(o) = ev.as_object_mut() {
        o.insert("uc".into(), json!({"r": u.r, "scope": u.scope, "origin": u.origin, "timeout": u.timeout}));
        o.insert("us".into(), json!(u.mgr.undo_stack().len()));
        o.insert("rs".into(), json!(u.mgr.redo_stack().len()));
        o.insert("uclk".into(), json!(u.clock.load(Ordering::SeqCst)));
        o.insert("uv".into(), views(w, ri));
        o.insert("croot".into(), Value::Object(croot));
        // comparison key for repeated executions: content by value (ids of re-created elements are not an outcome)
        let acting = o.get("r").and_then(|x| x.as_u64()).or_else(|| o.get("t").and_then(|x| x.as_u64()));
        let av = match acting {
            Some(a) if w.reps.iter().any(|x| x.id == a) => views(w, w.rep(a)),
            _ => json!({}),
        };
        let key = json!({"uv": o.get("uv"), "av": av, "us": o.get("us"), "rs": o.get("rs"), "ret": o.get("ret"), "outcome": o.get("outcome"), "k": o.get("k")});
        o.insert("vv".into(), json!(key.to_string()));
    }
    put(w, u);
}

// -------------------------------------------------------------------------------------------------
// steps

fn empty_v2() -> Vec<u8> {
    use yrs::updates::encoder::Encode;
    yrs::Update::default().encode_v2()
}

fn placeholder(w: &mut World, r: u64) {
    w.log.push((r, vec![0, 0], empty_v2()));
}

fn pop(w: &mut World, st: &Value, undo: bool) -> Value {
    let Some(mut u) = take(w) else {
        return json!({"k": "bad", "why": "no undo manager"});
    };
    let r = u.r;
    let ri = w.rep(r);
    // the stacks before the call (id sets of every stack item) -- diagnostic context for known-finding patterns
    let stk = json!({"u": stack_json(u.mgr.undo_stack()), "r": stack_json(u.mgr.redo_stack())});
    let res = catch_unwind(AssertUnwindSafe(|| if undo { u.mgr.undo_blocking() } else { u.mgr.redo_blocking() }));
    let (outcome, ret) = match res {
        Ok(b) => ("ok".to_string(), b),
        Err(p) => (format!("panic: {}", panic_msg(&p)), false),
    };
    put(w, u);
    let (v1, v2) = w.drain(ri);
    let (upd, mut problems) = w.emitted(&v1, &v2);
    // one update slot per call; several update events (never seen) are merged into the slot
    let m1 = match v1.len() {
        0 => vec![0, 0],
        1 => v1[0].clone(),
        _ => yrs::merge_updates_v1(v1.iter()).unwrap_or_else(|e| {
            problems.push(format!("merge of undo updates: {}", e));
            vec![0, 0]
        }),
    };
    let m2 = match v2.len() {
        0 => empty_v2(),
        1 => v2[0].clone(),
        _ => yrs::merge_updates_v2(v2.iter()).unwrap_or_else(|e| {
            problems.push(format!("merge of undo updates (v2): {}", e));
            empty_v2()
        }),
    };
    w.log.push((r, m1, m2));
    json!({
        "k": "loc", "r": r, "call": st, "cont": "", "outcome": outcome, "ret": ret, "stk": stk,
        "upd": upd, "nev": [v1.len(), v2.len()], "wire": problems.join("; "),
        "obs": w.observe(ri), "hasfol": w.followers, "fol": w.fol_obs(ri),
    })
}

fn idset_json(s: &yrs::IdSet) -> Value {
    let mut v: Vec<(u64, u32, u32)> = Vec::new();
    for (c, ranges) in s.iter() {
        for r in ranges.iter() {
            v.push((c.get(), r.start, r.end));
        }
    }
    v.sort();
    json!(v.iter().map(|x| json!([x.0, x.1, x.2])).collect::<Vec<_>>())
}

fn stack_json(st: &[yrs::undo::StackItem<()>]) -> Value {
    json!(st.iter().map(|i| json!({"ins": idset_json(i.insertions()), "del": idset_json(i.deletions())})).collect::<Vec<_>>())
}

enum Tgt {
    Text(u32),
    Array(u32),
    Map(Vec<String>),
    /// XML fragment (root): number of children
    XFrag(u32),
    /// XML element: number of children, attribute names
    XElem(u32, Vec<String>),
    /// XML text node: number of characters
    XText(u32),
}

fn xml_children<T: ReadTxn>(txn: &T, cur: &Out) -> Option<Vec<Out>> {
    match cur {
        Out::YXmlFragment(f) => Some(f.children(txn).map(xml_out).collect()),
        Out::YXmlElement(e) => {
            let f: &XmlFragmentRef = e.as_ref();
            Some(f.children(txn).map(xml_out).collect())
        }
        _ => None,
    }
}

/// resolves an abstract address against the current visible state (as seen by `txn`)
fn resolve<T: ReadTxn>(txn: &T, path: &[String]) -> Option<(Vec<String>, Tgt)> {
    let mut cur: Out = match path.first()?.as_str() {
        "t" => Out::YText(txn.get_text("t")?),
        "a" => Out::YArray(txn.get_array("a")?),
        "m" => Out::YMap(txn.get_map("m")?),
        "x" => Out::YXmlFragment(txn.get_xml_fragment("x")?),
        _ => return None,
    };
    let mut real = vec![path[0].clone()];
    for seg in &path[1..] {
        if let Some(kids) = xml_children(txn, &cur) {
            // XML: "#e<j>" / "#t<j>" = j-th element / text child, "#<j>" = j-th child (counted cyclically among those present)
            let j = seg.strip_prefix('#')?;
            let (want, j) = match j.chars().next()? {
                'e' => ('e', &j[1..]),
                't' => ('t', &j[1..]),
                _ => ('*', j),
            };
            let j: usize = j.parse().ok()?;
            let cs: Vec<(usize, Out)> = kids.into_iter().enumerate().filter(|(_, v)| match (want, v) {
                ('e', Out::YXmlElement(_)) | ('t', Out::YXmlText(_)) => true,
                ('*', _) => true,
                _ => false,
            }).collect();
            if cs.is_empty() {
                return None;
            }
            let (ix, v) = cs[j % cs.len()].clone();
            real.push(format!("#{}", ix));
            cur = v;
        } else if let Some(j) = seg.strip_prefix('#') {
            let j: usize = j.parse().ok()?;
            let Out::YArray(a) = &cur else { return None };
            // "#j": the j-th nested container (counted cyclically among the containers present)
            let cs: Vec<(usize, Out)> = a.iter(txn).enumerate().filter(|(_, v)| matches!(v, Out::YArray(_) | Out::YMap(_) | Out::YText(_))).collect();
            if cs.is_empty() {
                return None;
            }
            let (ix, v) = cs[j % cs.len()].clone();
            real.push(format!("#{}", ix));
            cur = v;
        } else {
            let Out::YMap(m) = &cur else { return None };
            let v = m.get(txn, seg)?;
            if !matches!(v, Out::YArray(_) | Out::YMap(_) | Out::YText(_)) {
                return None;
            }
            real.push(seg.clone());
            cur = v;
        }
    }
    let t = match &cur {
        Out::YText(t) => Tgt::Text(World::text_units(txn, t)),
        Out::YArray(a) => Tgt::Array(a.len(txn)),
        Out::YMap(m) => {
            let mut ks: Vec<String> = m.keys(txn).map(|k| k.to_string()).collect();
            ks.sort();
            Tgt::Map(ks)
        }
        Out::YXmlFragment(f) => Tgt::XFrag(f.len(txn)),
        Out::YXmlElement(e) => {
            let f: &XmlFragmentRef = e.as_ref();
            let mut ks: Vec<String> = e.attributes(txn).map(|(k, _)| k.to_string()).collect();
            ks.sort();
            Tgt::XElem(f.len(txn), ks)
        }
        Out::YXmlText(t) => {
            let tr: &TextRef = t.as_ref();
            Tgt::XText(tr.get_string(txn).chars().count() as u32)
        }
        _ => return None,
    };
    Some((real, t))
}

/// an abstract step `uop` -> the executable step of World::local / World::apply_op (address resolved against the state seen
/// by `txn`, indices clamped); None = not applicable.  `fv` = the fresh format value of a `fmt` step.
fn resolve_step<T: ReadTxn>(txn: &T, st: &Value, fv: &str) -> Option<Value> {
    let r = st["r"].as_u64().unwrap_or(1);
    let op = st["op"].as_str().unwrap_or("").to_string();
    let path: Vec<String> = st["p"].as_array().map(|v| v.iter().filter_map(|x| x.as_str().map(|s| s.to_string())).collect()).unwrap_or_default();
    let i = st["i"].as_u64().unwrap_or(0) as u32;
    let n = st["n"].as_u64().unwrap_or(1).max(1) as u32;
    let key = st["key"].as_str().unwrap_or("").to_string();
    let k = st["k"].as_str().unwrap_or("u").to_string();
    let o = st["o"].as_str().unwrap_or("").to_string();
    match resolve(txn, &path) {
        None => None,
        Some((real, tgt)) => match (tgt, op.as_str()) {
            (Tgt::Text(len), "ins") => Some(json!({"a": "ins", "r": r, "p": real, "i": i.min(len), "n": n, "k": "u", "o": o})),
            (Tgt::Array(len), "ins") => Some(json!({"a": "ins", "r": r, "p": real, "i": i.min(len), "n": if k == "u" { n } else { 1 }, "k": if real.len() == 1 { k.as_str() } else { "u" }, "o": o})),
            (Tgt::Text(len), "del") | (Tgt::Array(len), "del") if len > 0 => {
                let i2 = i.min(len - 1);
                Some(json!({"a": "del", "r": r, "p": real, "i": i2, "n": n.min(len - i2), "o": o}))
            }
            (Tgt::Map(_), "set") => Some(json!({"a": "set", "r": r, "p": real, "key": key, "k": if real.len() == 1 { k.as_str() } else { "u" }, "o": o})),
            (Tgt::Map(ks), "rem") if ks.contains(&key) => Some(json!({"a": "rem", "r": r, "p": real, "key": key, "o": o})),
            // XML: children of the fragment / of an element
            (Tgt::XFrag(len), "ins") | (Tgt::XElem(len, _), "ins") => {
                Some(json!({"a": "ins", "r": r, "p": real, "i": i.min(len), "n": if k == "X" { n } else { 1 }, "k": if k == "X" { "X" } else { "E" }, "uq": true, "o": o}))
            }
            (Tgt::XFrag(len), "del") | (Tgt::XElem(len, _), "del") if len > 0 => {
                let i2 = i.min(len - 1);
                Some(json!({"a": "del", "r": r, "p": real, "i": i2, "n": n.min(len - i2), "o": o}))
            }
            // attributes of an element
            (Tgt::XElem(_, _), "set") => Some(json!({"a": "set", "r": r, "p": real, "key": key, "k": "u", "o": o})),
            (Tgt::XElem(_, ks), "rem") if ks.contains(&key) => Some(json!({"a": "rem", "r": r, "p": real, "key": key, "o": o})),
            // characters / formatting of a text node (every format value is fresh: a format step is always visible)
            (Tgt::XText(len), "ins") => Some(json!({"a": "ins", "r": r, "p": real, "i": i.min(len), "n": n, "k": "u", "o": o})),
            (Tgt::XText(len), "del") if len > 0 => {
                let i2 = i.min(len - 1);
                Some(json!({"a": "del", "r": r, "p": real, "i": i2, "n": n.min(len - i2), "o": o}))
            }
            (Tgt::XText(len), "fmt") if len > 0 => {
                let i2 = i.min(len - 1);
                Some(json!({"a": "fmt", "r": r, "p": real, "i": i2, "n": n.min(len - i2), "key": if key.is_empty() { "b" } else { key.as_str() }, "v": fv, "o": o}))
            }
            _ => None,
        },
    }
}

fn uop(w: &mut World, st: &Value) -> Value {
    let r = st["r"].as_u64().unwrap_or(1);
    let ri = w.rep(r);
    let fv = format!("f{}", w.next_val);
    let resolved: Option<Value> = {
        let txn = w.reps[ri].doc.transact();
        resolve_step(&txn, st, &fv)
    };
    match resolved {
        Some(s) => {
            let mut ev = w.local(&s);
            if let Some(o) = ev.as_object_mut() {
                o.insert("asked".into(), st.clone());
            }
            ev
        }
        None => {
            placeholder(w, r);
            json!({"k": "unop", "r": r, "call": st})
        }
    }
}

/// `umulti`: several `uop`-like operations inside ONE transaction of origin `o`; every address is resolved against the
/// state at that moment inside the transaction (an inapplicable operation is skipped: `{"a":"none"}`).  One update slot.
fn umulti(w: &mut World, st: &Value) -> Value {
    let r = st["r"].as_u64().unwrap_or(1);
    let ri = w.rep(r);
    let o = st["o"].as_str().unwrap_or("").to_string();
    let asked: Vec<Value> = st["ops"].as_array().cloned().unwrap_or_default();
    // fresh content per operation, prepared before the document is borrowed
    let mut prep: Vec<(String, Vec<yrs::Any>, yrs::Any, String)> = Vec::new();
    for op in &asked {
        let n = op["n"].as_u64().unwrap_or(1).max(1) as usize;
        let fv = format!("f{}", w.next_val);
        let chars = w.fresh_chars(n);
        let vals: Vec<yrs::Any> = (0..n).map(|_| w.fresh_val()).collect();
        let inner = w.fresh_val();
        prep.push((chars, vals, inner, fv));
    }
    let doc = w.reps[ri].doc.clone();
    let mut resolved: Vec<Value> = Vec::new();
    let res = catch_unwind(AssertUnwindSafe(|| -> Result<Vec<u8>, String> {
        let mut txn = if o.is_empty() { doc.transact_mut() } else { doc.transact_mut_with(o.as_str()) };
        for (op, p) in asked.iter().zip(prep.iter()) {
            let mut op = op.clone();
            op["r"] = json!(r);
            op["o"] = json!(o);
            match resolve_step(&txn, &op, &p.3) {
                Some(s) => {
                    w.apply_op(&mut txn, &s, &p.0, &p.1, &p.2, &mut (0u32, 0u32))?;
                    resolved.push(s);
                }
                None => resolved.push(json!({"a": "none"})),
            }
        }
        // what the transaction created, encoded BEFORE commit: an element inserted and deleted inside one transaction of a
        // collecting replica only ever travels as a collected range, its structure is known from here alone
        use yrs::ReadTxn as _;
        Ok(txn.encode_update_v1())
    }));
    let mut pre_units: HashMap<(u64, u32), Value> = HashMap::new();
    let outcome = match res {
        Ok(Ok(pre)) => {
            if let Ok(wu) = crate::codec::decode_update_v1(&pre) {
                let (us, _) = w.absorb(&wu);
                for u in us {
                    pre_units.insert(idof(&u["id"]), u);
                }
            }
            "ok".to_string()
        }
        Ok(Err(e)) => format!("skip: {}", e),
        Err(p) => format!("panic: {}", panic_msg(&p)),
    };
    let (v1, v2) = w.drain(ri);
    let (mut upd, problems) = w.emitted(&v1, &v2);
    if let Some(arr) = upd["ins"].as_array_mut() {
        for u in arr.iter_mut() {
            if u["kind"] == "gc" {
                if let Some(p) = pre_units.get(&idof(&u["id"])) {
                    *u = p.clone();
                }
            }
        }
    }
    let m1 = v1.first().cloned().unwrap_or_else(|| vec![0, 0]);
    let m2 = v2.first().cloned().unwrap_or_else(empty_v2);
    w.log.push((r, m1, m2));
    json!({
        "k": "loc", "r": r, "call": {"a": "multi", "r": r, "o": o, "ops": resolved}, "asked": st, "cont": "", "outcome": outcome,
        "upd": upd, "nev": [v1.len(), v2.len()], "wire": problems.join("; "),
        "obs": w.observe(ri), "hasfol": w.followers, "fol": w.fol_obs(ri),
    })
}

pub fn step(w: &mut World, st: &Value) -> Option<Value> {
    if !w.ext.contains_key("undo") {
        return None;
    }
    match st["a"].as_str().unwrap_or("") {
        "tick" => {
            let ms = st["ms"].as_u64().unwrap_or(0);
            let u = take(w)?;
            u.clock.fetch_add(ms, Ordering::SeqCst);
            put(w, u);
            Some(json!({"k": "tick", "ms": ms}))
        }
        "ustop" => {
            let mut u = take(w)?;
            u.mgr.reset();
            put(w, u);
            Some(json!({"k": "ustop"}))
        }
        "undo" => Some(pop(w, st, true)),
        "redo" => Some(pop(w, st, false)),
        "uop" => Some(uop(w, st)),
        "umulti" => Some(umulti(w, st)),
        _ => None,
    }
}

pub fn random_step(w: &mut World, _authors: &[u64], _all: &[u64]) -> Option<Value> {
    let r = {
        let u = take(w)?;
        let r = u.r;
        put(w, u);
        r
    };
    let roll = w.rng.below(100);
    Some(if roll < 30 {
        json!({"a": "tick", "ms": if w.rng.chance(1, 2) { 600 } else { 200 }})
    } else if roll < 65 {
        json!({"a": "undo", "r": r})
    } else if roll < 92 {
        json!({"a": "redo", "r": r})
    } else {
        json!({"a": "ustop", "r": r})
    })
}
