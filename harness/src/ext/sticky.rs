//! Extension `sticky` of the Yata executor (C14, see ext/mod.rs for the contract).
//!
//! Steps
//!   {"a":"sticky","r":R,"p":[path of a text / array / XML fragment, element or text],"i":<visible unit index>|"all","assoc":"after"|"before"|"both","h":"<handle prefix>"}
//!       creates sticky indexes through `IndexedSequence::sticky_index` on replica R, passes each through the binary
//!       (encode_v1/decode_v1) and the JSON (serde_json) serialization and keeps the deserialized value.
//!       One event of kind "sticky" with one entry per requested (index, assoc) in `made`.
//!       Handle names: "<h>" for a single index with a single assoc, otherwise "<h>.<i><a|b>".
//!   {"a":"resolve","r":R[,"h":"<handle>"][,"obs":true]}
//!       `StickyIndex::get_offset` of one handle / of every live handle on replica R's document; the offset is
//!       converted back to a visible unit index with the actual characters of the text. Event kind "resolve".
//! Rust only drives the library and records; every decision is taken by spec/Trace_Sticky.tla.
use crate::obs::{self, RootKind};
use crate::yata::{panic_msg, World};
use serde_json::{json, Value};
use std::panic::{catch_unwind, AssertUnwindSafe};
use yrs::updates::decoder::Decode;
use yrs::updates::encoder::Encode;
use yrs::types::text::YChange;
use yrs::types::xml::{XmlFragment, XmlOut};
use yrs::{Any, Array, Assoc, IndexScope, IndexedSequence, Map, OffsetKind, Out, ReadTxn, StickyIndex, Text, TextRef, Transact, XmlFragmentRef};

pub struct Handle {
    pub name: String,
    pub idx: StickyIndex,
    /// 't' text, 'a' array
    pub kind: char,
}

#[derive(Default)]
pub struct State {
    pub handles: Vec<Handle>,
    pub created: u32,
}

pub fn init(w: &mut World) {
    w.ext.insert("sticky".into(), Box::new(State::default()));
}

fn state(w: &mut World) -> &mut State {
    w.ext.get_mut("sticky").and_then(|b| b.downcast_mut::<State>()).expect("sticky state")
}

fn xml_out(x: XmlOut) -> Out {
    match x {
        XmlOut::Element(e) => Out::YXmlElement(e),
        XmlOut::Fragment(f) => Out::YXmlFragment(f),
        XmlOut::Text(t) => Out::YXmlText(t),
    }
}

fn nav<T: ReadTxn>(w: &World, txn: &T, path: &[String]) -> Result<Out, String> {
    let root = path.first().ok_or("empty path")?;
    let mut cur: Out = if root == "x" {
        Out::YXmlFragment(txn.get_xml_fragment("x").ok_or("no xml root")?)
    } else {
        let kind = w.roots.iter().find(|r| &r.0 == root).map(|r| r.1).ok_or("unknown root")?;
        match kind {
            RootKind::Text => Out::YText(txn.get_text(root.as_str()).ok_or("no text root")?),
            RootKind::Array => Out::YArray(txn.get_array(root.as_str()).ok_or("no array root")?),
            RootKind::Map => Out::YMap(txn.get_map(root.as_str()).ok_or("no map root")?),
        }
    };
    for seg in &path[1..] {
        cur = if let Some(i) = seg.strip_prefix('#') {
            let i: u32 = i.parse().map_err(|_| "bad index")?;
            match &cur {
                Out::YArray(a) => a.get(txn, i).ok_or(format!("no element {}", i))?,
                Out::YXmlFragment(f) => xml_out(f.get(txn, i).ok_or(format!("no child {}", i))?),
                Out::YXmlElement(e) => {
                    let f: &XmlFragmentRef = e.as_ref();
                    xml_out(f.get(txn, i).ok_or(format!("no child {}", i))?)
                }
                _ => return Err("index into non-sequence".into()),
            }
        } else {
            match &cur {
                Out::YMap(m) => m.get(txn, seg).ok_or(format!("no key {}", seg))?,
                _ => return Err("key into non-map".into()),
            }
        };
    }
    Ok(cur)
}

fn scope_json(s: &StickyIndex) -> (Value, &'static str, Value, String) {
    // (anchor id, scope kind, scope id, scope root name) read from the public accessors
    let anchor = match s.id() {
        Some(id) => json!([id.client.get(), id.clock]),
        None => json!([0, 0]),
    };
    match s.scope() {
        IndexScope::Relative(_) => (anchor, "relative", json!([0, 0]), String::new()),
        IndexScope::Nested(id) => (anchor, "nested", json!([id.client.get(), id.clock]), String::new()),
        IndexScope::Root(n) => (anchor, "root", json!([0, 0]), n.to_string()),
    }
}

/// visible elements of a text (characters, embeds): (width in UTF-16 units = abstract elements of the specification,
/// width in the configured offset kind = what the API counts)
fn text_units<T: ReadTxn>(txn: &T, t: &TextRef, kind: OffsetKind) -> Vec<(u32, u32)> {
    let mut out = Vec::new();
    for d in t.diff(txn, YChange::identity) {
        match &d.insert {
            Out::Any(Any::String(s)) => {
                for c in s.chars() {
                    out.push((c.len_utf16() as u32, match kind {
                        OffsetKind::Bytes => c.len_utf8() as u32,
                        OffsetKind::Utf16 => c.len_utf16() as u32,
                    }));
                }
            }
            _ => out.push((1, 1)),
        }
    }
    out
}

/// number of visible units (UTF-16 code units of the characters, embeds count 1)
fn n_units(l: &[(u32, u32)]) -> u32 {
    l.iter().map(|x| x.0).sum()
}

/// the gaps of a text that can be addressed: unit indexes of the character boundaries
fn boundaries(l: &[(u32, u32)]) -> Vec<u32> {
    let mut out = vec![0];
    let mut u = 0;
    for (wu, _) in l {
        u += wu;
        out.push(u);
    }
    out
}

/// the text behind a text-like target
fn as_text(target: &Out) -> Option<&TextRef> {
    match target {
        Out::YText(t) => Some(t),
        Out::YXmlText(x) => Some(x.as_ref()),
        _ => None,
    }
}

/// visible unit index -> (unit index of the character boundary at or before it, offset handed to the API)
fn api_offset<T: ReadTxn>(w: &World, txn: &T, target: &Out, i: u32) -> (u32, u32) {
    match as_text(target) {
        Some(t) => {
            let l = text_units(txn, t, w.offset);
            let n = n_units(&l);
            if i >= n {
                // beyond the end: keep the distance in whole units
                let total: u32 = l.iter().map(|x| x.1).sum();
                return (i, total + (i - n) * if w.offset == OffsetKind::Bytes { 3 } else { 1 });
            }
            let (mut u, mut a) = (0u32, 0u32);
            for (wu, wa) in &l {
                if u + wu > i {
                    break;
                }
                u += wu;
                a += wa;
            }
            (u, a)
        }
        None => (i, i),
    }
}

fn vis_len<T: ReadTxn>(w: &World, txn: &T, target: &Out) -> Option<u32> {
    match target {
        Out::YText(_) | Out::YXmlText(_) => Some(n_units(&text_units(txn, as_text(target).unwrap(), w.offset))),
        Out::YArray(a) => Some(a.len(txn)),
        Out::YXmlFragment(f) => Some(f.len(txn)),
        Out::YXmlElement(e) => {
            let f: &XmlFragmentRef = e.as_ref();
            Some(f.len(txn))
        }
        _ => None,
    }
}

fn make<T: ReadTxn>(txn: &T, target: &Out, off: u32, assoc: Assoc, via_type: bool) -> Option<StickyIndex> {
    match target {
        Out::YText(t) if via_type => Some(StickyIndex::from_type(txn, t, assoc)),
        Out::YArray(a) if via_type => Some(StickyIndex::from_type(txn, a, assoc)),
        Out::YXmlText(t) if via_type => Some(StickyIndex::from_type(txn, t, assoc)),
        Out::YXmlFragment(f) if via_type => Some(StickyIndex::from_type(txn, f, assoc)),
        Out::YXmlElement(e) if via_type => Some(StickyIndex::from_type(txn, e, assoc)),
        Out::YText(t) => t.sticky_index(txn, off, assoc),
        Out::YArray(a) => a.sticky_index(txn, off, assoc),
        Out::YXmlText(t) => t.sticky_index(txn, off, assoc),
        Out::YXmlFragment(f) => f.sticky_index(txn, off, assoc),
        Out::YXmlElement(e) => e.sticky_index(txn, off, assoc),
        _ => None,
    }
}

fn create(w: &mut World, st: &Value) -> Value {
    let r = st["r"].as_u64().unwrap();
    let ri = w.rep(r);
    let path: Vec<String> = st["p"].as_array().map(|v| v.iter().map(|x| x.as_str().unwrap().to_string()).collect()).unwrap_or_default();
    let prefix = st["h"].as_str().unwrap_or("h").to_string();
    let assocs: Vec<(&str, Assoc)> = match st["assoc"].as_str() {
        Some("after") => vec![("after", Assoc::After)],
        Some("before") => vec![("before", Assoc::Before)],
        _ => vec![("after", Assoc::After), ("before", Assoc::Before)],
    };
    let doc = w.reps[ri].doc.clone();
    let mut made: Vec<Value> = Vec::new();
    let mut keep: Vec<Handle> = Vec::new();
    let mut cont = String::new();
    let mut par = json!([0, 0]);
    let mut len = 0u32;
    let res = catch_unwind(AssertUnwindSafe(|| -> Result<(), String> {
        let txn = doc.transact();
        let target = nav(w, &txn, &path)?;
        let kind = match &target {
            Out::YText(_) | Out::YXmlText(_) => 't',
            Out::YArray(_) | Out::YXmlFragment(_) | Out::YXmlElement(_) => 'a',
            _ => return Err("sticky: target is not a sequence".into()),
        };
        cont = World::cont_of(&target, &path, "");
        if let Some(yrs::BranchID::Nested(id)) = target.try_branch().map(|b| b.id()) {
            par = json!([id.client.get(), id.clock]);
        }
        len = vis_len(w, &txn, &target).unwrap_or(0);
        let positions: Vec<u32> = match (st["i"].as_u64(), as_text(&target)) {
            (Some(i), _) => vec![i as u32],
            // every gap of a text = every character boundary (a position between the halves of a surrogate pair is not one)
            (None, Some(t)) => boundaries(&text_units(&txn, t, w.offset)),
            (None, None) => (0..=len).collect(),
        };
        let single = positions.len() == 1 && assocs.len() == 1 && st["i"].is_u64();
        // (index, assoc name, assoc, through StickyIndex::from_type)
        let mut todo: Vec<(u32, &str, Assoc, bool)> = Vec::new();
        for i in &positions {
            for (an, assoc) in &assocs {
                todo.push((*i, *an, *assoc, false));
            }
        }
        if st["type"].as_bool().unwrap_or(!st["i"].is_u64()) {
            // the container-scoped pair: start (left-associated) and end (right-associated) of the type
            todo.push((0, "before", Assoc::Before, true));
            todo.push((len, "after", Assoc::After, true));
        }
        for (i, an, assoc, via_type) in todo.iter() {
            {
                let name = if *via_type {
                    format!("{}.t{}", prefix, &an[..1])
                } else if single {
                    prefix.clone()
                } else {
                    format!("{}.{}{}", prefix, i, &an[..1])
                };
                // (an index of the schedule that points into a surrogate pair is rounded down; `i` records the gap really asked for)
                let (i, off) = api_offset(w, &txn, &target, *i);
                let i = &i;
                let one = catch_unwind(AssertUnwindSafe(|| make(&txn, &target, off, *assoc, *via_type)));
                let mut e = json!({"h": name, "i": i, "off": off, "assoc": an, "via": if *via_type { "type" } else { "index" }, "created": false,
                    "anchor": [0, 0], "scope": "none", "sid": [0, 0], "sname": "", "assoc_api": "", "rtb": false, "rtj": false, "out": "ok"});
                match one {
                    Err(p) => {
                        e["out"] = json!("panic");
                        e["detail"] = json!(panic_msg(&p));
                    }
                    Ok(None) => e["out"] = json!("none"),
                    Ok(Some(s0)) => {
                        let (anchor, scope, sid, sname) = scope_json(&s0);
                        e["created"] = json!(true);
                        e["anchor"] = anchor;
                        e["scope"] = json!(scope);
                        e["sid"] = sid;
                        e["sname"] = json!(sname);
                        e["assoc_api"] = json!(if s0.assoc == Assoc::After { "after" } else { "before" });
                        // binary round trip, then JSON round trip of the decoded value; the survivor is kept
                        let mut cur = s0.clone();
                        let b = catch_unwind(AssertUnwindSafe(|| StickyIndex::decode_v1(&s0.encode_v1())));
                        match b {
                            Ok(Ok(s1)) => {
                                e["rtb"] = json!(s1 == s0);
                                cur = s1;
                            }
                            Ok(Err(er)) => e["rterr"] = json!(format!("binary: {}", er)),
                            Err(p) => e["rterr"] = json!(format!("binary panic: {}", panic_msg(&p))),
                        }
                        let c2 = cur.clone();
                        let j = catch_unwind(AssertUnwindSafe(|| -> Result<StickyIndex, String> {
                            let text = serde_json::to_string(&c2).map_err(|e| e.to_string())?;
                            serde_json::from_str::<StickyIndex>(&text).map_err(|e| e.to_string())
                        }));
                        match j {
                            Ok(Ok(s2)) => {
                                e["rtj"] = json!(s2 == s0);
                                cur = s2;
                            }
                            Ok(Err(er)) => e["rterr"] = json!(format!("json: {}", er)),
                            Err(p) => e["rterr"] = json!(format!("json panic: {}", panic_msg(&p))),
                        }
                        keep.push(Handle { name: e["h"].as_str().unwrap().to_string(), idx: cur, kind });
                    }
                }
                made.push(e);
            }
        }
        Ok(())
    }));
    // outcome: "ok" | "skip" (path not navigable on this replica: nothing requested) | "panic"
    let (outcome, detail) = match res {
        Ok(Ok(())) => ("ok", String::new()),
        Ok(Err(e)) => ("skip", e),
        Err(p) => ("panic", panic_msg(&p)),
    };
    {
        let s = state(w);
        for h in keep {
            s.handles.retain(|x| x.name != h.name);
            s.handles.push(h);
            s.created += 1;
        }
    }
    json!({"k": "sticky", "r": r, "call": st, "cont": cont, "par": par, "len": len, "outcome": outcome, "detail": detail, "made": made, "obs": w.observe(ri)})
}

/// offset in the configured unit -> visible unit index, computed from the actual content (-1: not on a character boundary)
fn unit_index(l: &[(u32, u32)], raw: u32) -> i64 {
    let (mut u, mut acc) = (0u32, 0u32);
    for (wu, wa) in l {
        if acc == raw {
            return u as i64;
        }
        u += wu;
        acc += wa;
    }
    if acc == raw {
        u as i64
    } else {
        -1
    }
}

fn resolve(w: &mut World, st: &Value) -> Value {
    let r = st["r"].as_u64().unwrap();
    let ri = w.rep(r);
    let only = st["h"].as_str().map(|s| s.to_string());
    let doc = w.reps[ri].doc.clone();
    let offset = w.offset;
    let mut res: Vec<Value> = Vec::new();
    {
        let s = state(w);
        let txn = doc.transact();
        for h in s.handles.iter() {
            if let Some(o) = &only {
                if &h.name != o {
                    continue;
                }
            }
            let one = catch_unwind(AssertUnwindSafe(|| {
                h.idx.get_offset(&txn).map(|off| {
                    let cont = match off.branch.id() {
                        yrs::BranchID::Nested(id) => obs::cont_key_nested((id.client.get(), id.clock), ""),
                        yrs::BranchID::Root(n) => obs::cont_key_root(&n, ""),
                    };
                    let idx = if h.kind == 't' {
                        let t = TextRef::from(off.branch);
                        unit_index(&text_units(&txn, &t, offset), off.index)
                    } else {
                        off.index as i64
                    };
                    (cont, idx, off.index, if off.assoc == Assoc::After { "after" } else { "before" })
                })
            }));
            res.push(match one {
                Ok(Some((cont, idx, raw, assoc))) => json!({"h": h.name, "found": true, "idx": idx, "raw": raw, "cont": cont, "assoc": assoc, "out": "ok"}),
                Ok(None) => json!({"h": h.name, "found": false, "idx": -1, "raw": 0, "cont": "", "assoc": "", "out": "ok"}),
                Err(p) => json!({"h": h.name, "found": false, "idx": -1, "raw": 0, "cont": "", "assoc": "", "out": "panic", "detail": panic_msg(&p)}),
            });
        }
    }
    let mut ev = json!({"k": "resolve", "r": r, "all": only.is_none(), "call": st, "res": res});
    if st["obs"].as_bool().unwrap_or(false) {
        // get_offset takes a read-only transaction; the state is recorded again only on request
        ev["obs"] = w.observe(ri);
    }
    ev
}

pub fn step(w: &mut World, st: &Value) -> Option<Value> {
    match st["a"].as_str() {
        Some("sticky") => Some(create(w, st)),
        Some("resolve") => Some(resolve(w, st)),
        _ => None,
    }
}

pub fn after_step(_w: &mut World, _st: &Value, _ev: &mut Value) {}

/// sequence containers replica `ri` can reach: (path, visible length)
fn seq_containers(w: &World, ri: usize) -> Vec<(Vec<String>, u32)> {
    let txn = w.reps[ri].doc.transact();
    let mut out = Vec::new();
    if let Some(t) = txn.get_text("t") {
        out.push((vec!["t".to_string()], n_units(&text_units(&txn, &t, w.offset))));
    }
    if let Some(a) = txn.get_array("a") {
        out.push((vec!["a".to_string()], a.len(&txn)));
        for (i, v) in a.iter(&txn).enumerate() {
            if let Out::YArray(x) = v {
                out.push((vec!["a".into(), format!("#{}", i)], x.len(&txn)));
            }
        }
    }
    if let Some(m) = txn.get_map("m") {
        let mut ks: Vec<(String, Out)> = m.iter(&txn).map(|(k, v)| (k.to_string(), v)).collect();
        ks.sort_by(|a, b| a.0.cmp(&b.0));
        for (k, v) in ks {
            if let Out::YArray(x) = v {
                out.push((vec!["m".into(), k], x.len(&txn)));
            }
        }
    }
    if let Some(x) = txn.get_xml_fragment("x") {
        out.push((vec!["x".to_string()], x.len(&txn)));
        for (i, c) in x.children(&txn).enumerate() {
            match c {
                XmlOut::Element(e) => {
                    let f: &XmlFragmentRef = e.as_ref();
                    out.push((vec!["x".into(), format!("#{}", i)], f.len(&txn)));
                    for (j, c2) in f.children(&txn).enumerate() {
                        if let XmlOut::Text(t) = c2 {
                            let tr: &TextRef = t.as_ref();
                            out.push((vec!["x".into(), format!("#{}", i), format!("#{}", j)], n_units(&text_units(&txn, tr, w.offset))));
                        }
                    }
                }
                XmlOut::Text(t) => {
                    let tr: &TextRef = t.as_ref();
                    out.push((vec!["x".into(), format!("#{}", i)], n_units(&text_units(&txn, tr, w.offset))));
                }
                _ => {}
            }
        }
    }
    out
}

pub fn random_step(w: &mut World, authors: &[u64], all: &[u64]) -> Option<Value> {
    let (nh, created) = {
        let s = state(w);
        (s.handles.len(), s.created)
    };
    if nh == 0 || (nh < 12 && w.rng.chance(2, 5)) {
        // creation: mostly on authors (they have content first), sometimes on an observer
        let r = if w.rng.chance(4, 5) { authors[w.rng.below(authors.len() as u64) as usize] } else { all[w.rng.below(all.len() as u64) as usize] };
        let ri = w.rep(r);
        let conts = seq_containers(w, ri);
        if conts.is_empty() {
            return None;
        }
        // prefer non-empty containers
        let mut pick = conts[w.rng.below(conts.len() as u64) as usize].clone();
        for _ in 0..2 {
            if pick.1 == 0 {
                pick = conts[w.rng.below(conts.len() as u64) as usize].clone();
            }
        }
        let p: Vec<Value> = pick.0.iter().map(|s| json!(s)).collect();
        let h = format!("q{}", created);
        if w.rng.chance(1, 4) {
            Some(json!({"a": "sticky", "r": r, "p": p, "i": "all", "assoc": "both", "h": h}))
        } else {
            let i = w.rng.below(pick.1 as u64 + 1);
            let assoc = if w.rng.chance(1, 2) { "after" } else { "before" };
            Some(json!({"a": "sticky", "r": r, "p": p, "i": i, "assoc": assoc, "h": h}))
        }
    } else {
        let r = all[w.rng.below(all.len() as u64) as usize];
        if w.rng.chance(1, 4) {
            let k = w.rng.below(nh as u64) as usize;
            let name = state(w).handles[k].name.clone();
            Some(json!({"a": "resolve", "r": r, "h": name}))
        } else {
            let obs = w.rng.chance(1, 4);
            Some(json!({"a": "resolve", "r": r, "obs": obs}))
        }
    }
}
