//! Extension steps of the Yata executor. Each extension lives in its own file and gets three entry points:
//!   init(world)                      - called once per behaviour after the replicas exist (install observers ...)
//!   step(world, st) -> Option<Value> - execute a step kind it owns (return None if the kind is not its own)
//!   after_step(world, st, ev)        - add its observations to the event of ANY step (may be a no-op)
//!   random_step(world, authors, all) -> Option<Value> - propose one of its own steps for the seeded random driver
//! An extension is active only when the behaviour's cfg has `"ext": ["name", ...]` containing its name.
use crate::yata::World;
use serde_json::{json, Value};

pub mod events;
pub mod quote;
pub mod snapshot;
pub mod sticky;
pub mod undo;

pub fn active(w: &World, name: &str) -> bool {
    w.cfg["ext"].as_array().map(|a| a.iter().any(|x| x.as_str() == Some(name))).unwrap_or(false)
}

pub fn init(w: &mut World) {
    if active(w, "snapshot") {
        snapshot::init(w);
    }
    if active(w, "sticky") {
        sticky::init(w);
    }
    if active(w, "quote") {
        quote::init(w);
    }
    if active(w, "events") {
        events::init(w);
    }
    if active(w, "undo") {
        undo::init(w);
    }
}

pub fn dispatch(w: &mut World, st: &Value) -> Value {
    if let Some(v) = snapshot::step(w, st) {
        return v;
    }
    if let Some(v) = sticky::step(w, st) {
        return v;
    }
    if let Some(v) = quote::step(w, st) {
        return v;
    }
    if let Some(v) = events::step(w, st) {
        return v;
    }
    if let Some(v) = undo::step(w, st) {
        return v;
    }
    json!({"k": "bad", "why": format!("unknown step {}", st["a"].as_str().unwrap_or("?"))})
}

pub fn after_step(w: &mut World, st: &Value, ev: &mut Value) {
    if active(w, "snapshot") {
        snapshot::after_step(w, st, ev);
    }
    if active(w, "sticky") {
        sticky::after_step(w, st, ev);
    }
    if active(w, "quote") {
        quote::after_step(w, st, ev);
    }
    if active(w, "events") {
        events::after_step(w, st, ev);
    }
    if active(w, "undo") {
        undo::after_step(w, st, ev);
    }
}

/// asked by the random driver with some probability; the first active extension that proposes a step wins
pub fn random_step(w: &mut World, authors: &[u64], all: &[u64]) -> Option<Value> {
    let mut names: Vec<&str> = Vec::new();
    for n in ["snapshot", "sticky", "quote", "events", "undo"] {
        if active(w, n) {
            names.push(n);
        }
    }
    if names.is_empty() {
        return None;
    }
    let pick = names[w.rng.below(names.len() as u64) as usize];
    match pick {
        "snapshot" => snapshot::random_step(w, authors, all),
        "sticky" => sticky::random_step(w, authors, all),
        "quote" => quote::random_step(w, authors, all),
        "events" => events::random_step(w, authors, all),
        "undo" => undo::random_step(w, authors, all),
        _ => None,
    }
}
