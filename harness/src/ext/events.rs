//! Extension `events` of the Yata executor (C11, see ext/mod.rs for the contract).
//!
//! On every replica a shallow observer (`observe`) and a deep observer (`observe_deep_with`) are installed on each
//! root type. The callbacks only copy what the library reports (edit scripts, paths, targets) into an inbox; after
//! the step the raw scripts are converted to element ids (through the value tags / branch ids) and
//!   * applied to SHADOW copies that are never updated in any other way (one shallow shadow per root, one deep shadow
//!     per root and per nested type; a nested type's shadow is initialised from its content when it is first seen),
//!   * attached to the event of the step as `ev["c11"]` (scripts, shadows, firing counts, paths) for V.
//! The step `{"a":"multi","r":..,"ops":[..]}` executes several local operations inside ONE transaction.
use crate::codec::{self, Id};
use crate::obs::{self, RootKind};
use crate::yata::{panic_msg, World};
use serde_json::{json, Map as JMap, Value};
use std::cell::RefCell;
use std::collections::{BTreeMap, BTreeSet, HashMap};
use std::panic::{catch_unwind, AssertUnwindSafe};
use std::rc::Rc;
use yrs::types::{Change, Delta, EntryChange, Event, Events, PathSegment};
use yrs::{
    Any, Array, ArrayPrelim, BranchID, DeepObservable, Map, MapPrelim, Observable, OffsetKind, Out, ReadTxn, Text, Transact, TransactionMut,
};

#[derive(Clone)]
enum RawVal {
    Text(String),
    Any(Any),
    Branch(Id),
    Other,
}

#[derive(Clone)]
enum RawOp {
    Ins(Vec<RawVal>),
    Del(u32),
    Ret(u32),
    /// a chunk that carries formatting attributes (nothing is ever formatted by the executor)
    Attr,
}

#[derive(Clone)]
enum RawKey {
    Ins(RawVal),
    Upd(RawVal, RawVal),
    Rem(RawVal),
}

#[derive(Clone)]
enum RawScript {
    Seq(Vec<RawOp>),
    Keys(Vec<(String, RawKey)>),
}

/// identity of an observed type: root name, or id of the type element of a nested type
#[derive(Clone, PartialEq, Eq, PartialOrd, Ord, Debug)]
enum TypeKey {
    Root(String),
    Nested(Id),
}

struct RawEvent {
    target: Option<TypeKey>,
    kind: char,
    script: RawScript,
    path: Vec<(String, u32)>,
    pathok: bool,
}

#[derive(Default)]
struct Inbox {
    shallow: Vec<(String, RawEvent)>,
    deep: Vec<(String, Vec<RawEvent>)>,
}

#[derive(Clone)]
enum Shadow {
    Seq(Vec<Id>),
    Map(BTreeMap<String, Id>),
}

struct DeepShadow {
    root: String,
    kind: char,
    sh: Shadow,
}

#[derive(Default)]
struct RepShadows {
    shallow: BTreeMap<String, Shadow>,
    deep: BTreeMap<TypeKey, DeepShadow>,
}

struct EvExt {
    inbox: Vec<Rc<RefCell<Inbox>>>,
    shadows: Vec<RepShadows>,
    _subs: Vec<yrs::Subscription>,
}

fn raw_val(o: &Out) -> RawVal {
    match o {
        Out::Any(Any::String(s)) => RawVal::Text(s.to_string()),
        Out::Any(a) => RawVal::Any(a.clone()),
        other => match other.try_branch().map(|b| b.id()) {
            Some(BranchID::Nested(id)) => RawVal::Branch((id.client.get(), id.clock)),
            _ => RawVal::Other,
        },
    }
}

/// values of an array / map keep strings as values; only text chunks are split into characters
fn raw_elem(o: &Out) -> RawVal {
    match o {
        Out::Any(a) => RawVal::Any(a.clone()),
        other => raw_val(other),
    }
}

fn type_key(o: &Out) -> Option<TypeKey> {
    match o.try_branch().map(|b| b.id()) {
        Some(BranchID::Nested(id)) => Some(TypeKey::Nested((id.client.get(), id.clock))),
        Some(BranchID::Root(n)) => Some(TypeKey::Root(n.to_string())),
        None => None,
    }
}

fn text_script(d: &[Delta]) -> RawScript {
    let mut ops = Vec::new();
    for x in d {
        match x {
            Delta::Inserted(v, attrs) => {
                if attrs.as_ref().map(|a| !a.is_empty()).unwrap_or(false) {
                    ops.push(RawOp::Attr);
                }
                ops.push(RawOp::Ins(vec![raw_val(v)]));
            }
            Delta::Deleted(n) => ops.push(RawOp::Del(*n)),
            Delta::Retain(n, attrs) => {
                if attrs.as_ref().map(|a| !a.is_empty()).unwrap_or(false) {
                    ops.push(RawOp::Attr);
                }
                ops.push(RawOp::Ret(*n));
            }
        }
    }
    RawScript::Seq(ops)
}

fn array_script(d: &[Change]) -> RawScript {
    let mut ops = Vec::new();
    for x in d {
        match x {
            Change::Added(vs) => ops.push(RawOp::Ins(vs.iter().map(raw_elem).collect())),
            Change::Removed(n) => ops.push(RawOp::Del(*n)),
            Change::Retain(n) => ops.push(RawOp::Ret(*n)),
        }
    }
    RawScript::Seq(ops)
}

fn keys_script(d: &std::collections::HashMap<std::sync::Arc<str>, EntryChange>) -> RawScript {
    let mut ks: Vec<(String, RawKey)> = d
        .iter()
        .map(|(k, c)| {
            let c = match c {
                EntryChange::Inserted(n) => RawKey::Ins(raw_elem(n)),
                EntryChange::Updated(o, n) => RawKey::Upd(raw_elem(o), raw_elem(n)),
                EntryChange::Removed(o) => RawKey::Rem(raw_elem(o)),
            };
            (k.to_string(), c)
        })
        .collect();
    ks.sort_by(|a, b| a.0.cmp(&b.0));
    RawScript::Keys(ks)
}

fn root_out<T: ReadTxn>(txn: &T, name: &str, kind: RootKind) -> Option<Out> {
    match kind {
        RootKind::Text => txn.get_text(name).map(Out::YText),
        RootKind::Array => txn.get_array(name).map(Out::YArray),
        RootKind::Map => txn.get_map(name).map(Out::YMap),
    }
}

/// follows a reported path from the observed root through the CURRENT document
fn follow<T: ReadTxn>(txn: &T, root: Out, path: &[(String, u32)]) -> Option<Out> {
    let mut cur = root;
    for (k, i) in path {
        cur = match &cur {
            Out::YMap(m) if !k.is_empty() => m.get(txn, k)?,
            Out::YArray(a) if k.is_empty() => a.get(txn, *i)?,
            _ => return None,
        };
    }
    Some(cur)
}

fn deep_event(txn: &TransactionMut, root: &str, kind: RootKind, e: &Event) -> RawEvent {
    let (k, script) = match e {
        Event::Text(t) => ('t', text_script(t.delta(txn))),
        Event::Array(a) => ('a', array_script(a.delta(txn))),
        Event::Map(m) => ('m', keys_script(m.keys(txn))),
        _ => ('?', RawScript::Seq(vec![])),
    };
    let path: Vec<(String, u32)> = e
        .path()
        .iter()
        .map(|s| match s {
            PathSegment::Key(k) => (k.to_string(), 0),
            PathSegment::Index(i) => (String::new(), *i),
        })
        .collect();
    let target = type_key(&e.target());
    let reached = root_out(txn, root, kind).and_then(|r| follow(txn, r, &path)).and_then(|o| type_key(&o));
    let pathok = target.is_some() && reached == target;
    RawEvent { target, kind: k, script, path, pathok }
}

/// formatted text, embeds, sub-documents and XML trees (cfg `rich` / `xml` of the executor) are not modelled by Events.tla:
/// in such behaviours the extension stays passive (no observers, no `c11` field) instead of raising false alarms
fn unsupported(w: &World) -> bool {
    w.cfg["rich"].as_bool().unwrap_or(false) || w.cfg["xml"].as_bool().unwrap_or(false)
}

pub fn init(w: &mut World) {
    if unsupported(w) {
        return;
    }
    let mut inbox = Vec::new();
    let mut shadows = Vec::new();
    let mut subs = Vec::new();
    for rep in &w.reps {
        let ib: Rc<RefCell<Inbox>> = Rc::new(RefCell::new(Inbox::default()));
        let mut rs = RepShadows::default();
        let txn = rep.doc.transact();
        for (name, kind) in &w.roots {
            let nm = name.clone();
            let kd = *kind;
            let (i1, i2) = (ib.clone(), ib.clone());
            let (n1, n2) = (nm.clone(), nm.clone());
            match kind {
                RootKind::Text => {
                    let t = txn.get_text(name.as_str()).unwrap();
                    subs.push(t.observe(move |txn, e| {
                        let ev = RawEvent { target: Some(TypeKey::Root(n1.clone())), kind: 't', script: text_script(e.delta(txn)), path: vec![], pathok: true };
                        if let Ok(mut b) = i1.try_borrow_mut() {
                            b.shallow.push((n1.clone(), ev));
                        }
                    }));
                    t.observe_deep_with("c11", move |txn: &TransactionMut, es: &Events| {
                        let v: Vec<RawEvent> = es.iter().map(|e| deep_event(txn, &n2, kd, e)).collect();
                        if let Ok(mut b) = i2.try_borrow_mut() {
                            b.deep.push((n2.clone(), v));
                        }
                    });
                    rs.shallow.insert(nm.clone(), Shadow::Seq(vec![]));
                    rs.deep.insert(TypeKey::Root(nm.clone()), DeepShadow { root: nm.clone(), kind: 't', sh: Shadow::Seq(vec![]) });
                }
                RootKind::Array => {
                    let a = txn.get_array(name.as_str()).unwrap();
                    subs.push(a.observe(move |txn, e| {
                        let ev = RawEvent { target: Some(TypeKey::Root(n1.clone())), kind: 'a', script: array_script(e.delta(txn)), path: vec![], pathok: true };
                        if let Ok(mut b) = i1.try_borrow_mut() {
                            b.shallow.push((n1.clone(), ev));
                        }
                    }));
                    a.observe_deep_with("c11", move |txn: &TransactionMut, es: &Events| {
                        let v: Vec<RawEvent> = es.iter().map(|e| deep_event(txn, &n2, kd, e)).collect();
                        if let Ok(mut b) = i2.try_borrow_mut() {
                            b.deep.push((n2.clone(), v));
                        }
                    });
                    rs.shallow.insert(nm.clone(), Shadow::Seq(vec![]));
                    rs.deep.insert(TypeKey::Root(nm.clone()), DeepShadow { root: nm.clone(), kind: 'a', sh: Shadow::Seq(vec![]) });
                }
                RootKind::Map => {
                    let m = txn.get_map(name.as_str()).unwrap();
                    subs.push(m.observe(move |txn, e| {
                        let ev = RawEvent { target: Some(TypeKey::Root(n1.clone())), kind: 'm', script: keys_script(e.keys(txn)), path: vec![], pathok: true };
                        if let Ok(mut b) = i1.try_borrow_mut() {
                            b.shallow.push((n1.clone(), ev));
                        }
                    }));
                    m.observe_deep_with("c11", move |txn: &TransactionMut, es: &Events| {
                        let v: Vec<RawEvent> = es.iter().map(|e| deep_event(txn, &n2, kd, e)).collect();
                        if let Ok(mut b) = i2.try_borrow_mut() {
                            b.deep.push((n2.clone(), v));
                        }
                    });
                    rs.shallow.insert(nm.clone(), Shadow::Map(BTreeMap::new()));
                    rs.deep.insert(TypeKey::Root(nm.clone()), DeepShadow { root: nm.clone(), kind: 'm', sh: Shadow::Map(BTreeMap::new()) });
                }
            }
        }
        drop(txn);
        inbox.push(ib);
        shadows.push(rs);
    }
    w.ext.insert("events".into(), Box::new(EvExt { inbox, shadows, _subs: subs }));
}

// ---------------------------------------------------------------------------------------------
// conversion to element ids and script application (the observation function of C11)

struct Conv<'a> {
    tags: &'a obs::Tags,
}

impl<'a> Conv<'a> {
    fn ids(&self, v: &RawVal) -> Vec<Id> {
        match v {
            RawVal::Text(s) => self.tags.of_str(s),
            RawVal::Any(a) => vec![self.tags.of_any(a)],
            RawVal::Branch(id) => vec![*id],
            RawVal::Other => vec![(0, 0)],
        }
    }
    fn one(&self, v: &RawVal) -> Id {
        match v {
            RawVal::Text(s) => self.tags.of_any(&Any::String(s.as_str().into())),
            RawVal::Any(a) => self.tags.of_any(a),
            RawVal::Branch(id) => *id,
            RawVal::Other => (0, 0),
        }
    }
}

#[derive(Default)]
struct Flags {
    applyok: bool,
    oldok: bool,
    pathok: bool,
    routeok: bool,
}

fn script_json(c: &Conv, s: &RawScript) -> (Value, Value) {
    match s {
        RawScript::Seq(ops) => {
            let v: Vec<Value> = ops
                .iter()
                .map(|o| match o {
                    RawOp::Ins(vs) => {
                        let ids: Vec<Id> = vs.iter().flat_map(|x| c.ids(x)).collect();
                        json!(["ins", 0, obs::idsv(&ids)])
                    }
                    RawOp::Del(n) => json!(["del", n, []]),
                    RawOp::Ret(n) => json!(["ret", n, []]),
                    RawOp::Attr => json!(["attr", 0, []]),
                })
                .collect();
            (Value::Array(v), json!([]))
        }
        RawScript::Keys(ks) => {
            let v: Vec<Value> = ks
                .iter()
                .map(|(k, ch)| match ch {
                    RawKey::Ins(n) => json!([k, "ins", [0, 0], obs::idv(c.one(n))]),
                    RawKey::Upd(o, n) => json!([k, "upd", obs::idv(c.one(o)), obs::idv(c.one(n))]),
                    RawKey::Rem(o) => json!([k, "rem", obs::idv(c.one(o)), [0, 0]]),
                })
                .collect();
            (json!([]), Value::Array(v))
        }
    }
}

/// width of a shadow element in the unit the script counts in: "bytes" = UTF-8 length carried by a character's first
/// UTF-16 unit (0 for the second unit of a surrogate pair), anything else 1
fn width(c: &Conv, id: &Id, unit: &str) -> u32 {
    if unit == "bytes" {
        c.tags.w8.get(id).copied().unwrap_or(1)
    } else {
        1
    }
}

/// second unit of a surrogate pair
fn low_half(c: &Conv, id: &Id) -> bool {
    c.tags.w8.get(id) == Some(&0)
}

fn apply(c: &Conv, sh: &mut Shadow, s: &RawScript, unit: &str, fl: &mut Flags) {
    match (sh, s) {
        (Shadow::Seq(v), RawScript::Seq(ops)) => {
            let mut pos = 0usize;
            for o in ops {
                match o {
                    RawOp::Ret(n) | RawOp::Del(n) => {
                        // the elements covered by n units: whole characters only
                        let mut k = 0usize;
                        let mut left = *n;
                        while pos + k < v.len() && (left > 0 || low_half(c, &v[pos + k])) {
                            let wd = width(c, &v[pos + k], unit);
                            if wd > left {
                                break;
                            }
                            left -= wd;
                            k += 1;
                        }
                        if left > 0 || (pos + k < v.len() && low_half(c, &v[pos + k])) {
                            // runs past the end of the shadow, or ends inside a character
                            fl.applyok = false;
                        }
                        if let RawOp::Ret(_) = o {
                            pos += k;
                        } else {
                            v.drain(pos..pos + k);
                        }
                    }
                    RawOp::Ins(vs) => {
                        let ids: Vec<Id> = vs.iter().flat_map(|x| c.ids(x)).collect();
                        let n = ids.len();
                        v.splice(pos..pos, ids);
                        pos += n;
                    }
                    RawOp::Attr => fl.applyok = false,
                }
            }
        }
        (Shadow::Map(m), RawScript::Keys(ks)) => {
            for (k, ch) in ks {
                match ch {
                    RawKey::Ins(n) => {
                        if m.contains_key(k) {
                            fl.oldok = false;
                        }
                        m.insert(k.clone(), c.one(n));
                    }
                    RawKey::Upd(o, n) => {
                        if m.get(k) != Some(&c.one(o)) {
                            fl.oldok = false;
                        }
                        m.insert(k.clone(), c.one(n));
                    }
                    RawKey::Rem(o) => {
                        if m.get(k) != Some(&c.one(o)) {
                            fl.oldok = false;
                        }
                        m.remove(k);
                    }
                }
            }
        }
        _ => fl.applyok = false,
    }
}

fn shadow_json(sh: &Shadow) -> (Value, Value) {
    match sh {
        Shadow::Seq(v) => (obs::idsv(v), json!({})),
        Shadow::Map(m) => {
            let mut o = JMap::new();
            for (k, id) in m {
                o.insert(k.clone(), json!([obs::idv(*id)]));
            }
            (json!([]), Value::Object(o))
        }
    }
}

fn out_id(o: &Out, tags: &obs::Tags) -> Id {
    match o {
        Out::Any(a) => tags.of_any(a),
        other => match other.try_branch().map(|b| b.id()) {
            Some(BranchID::Nested(id)) => (id.client.get(), id.clock),
            _ => (0, 0),
        },
    }
}

/// content of a type as read through the public API (used once per nested type, at first sight)
fn read_shadow<T: ReadTxn>(txn: &T, o: &Out, tags: &obs::Tags) -> Option<(char, Shadow)> {
    match o {
        Out::YText(t) => {
            let s = yrs::GetString::get_string(t, txn);
            Some(('t', Shadow::Seq(tags.of_str(&s))))
        }
        Out::YArray(a) => Some(('a', Shadow::Seq(a.iter(txn).map(|v| out_id(&v, tags)).collect()))),
        Out::YMap(m) => Some(('m', Shadow::Map(m.iter(txn).map(|(k, v)| (k.to_string(), out_id(&v, tags))).collect()))),
        _ => None,
    }
}

/// all nested types reachable through the public API below `o`
fn walk_nested<T: ReadTxn>(txn: &T, o: &Out, depth: usize, found: &mut Vec<(Id, Out)>) {
    if depth > 16 {
        return;
    }
    let kids: Vec<Out> = match o {
        Out::YArray(a) => a.iter(txn).collect(),
        Out::YMap(m) => {
            let mut ks: Vec<(String, Out)> = m.iter(txn).map(|(k, v)| (k.to_string(), v)).collect();
            ks.sort_by(|a, b| a.0.cmp(&b.0));
            ks.into_iter().map(|x| x.1).collect()
        }
        _ => vec![],
    };
    for k in kids {
        if let Some(TypeKey::Nested(id)) = type_key(&k) {
            found.push((id, k.clone()));
            walk_nested(txn, &k, depth + 1, found);
        }
    }
}

pub fn after_step(w: &mut World, _st: &Value, ev: &mut Value) {
    let r = match ev["k"].as_str() {
        Some("loc") | Some("dlv") => ev["r"].as_u64(),
        Some("sync") => ev["t"].as_u64(),
        _ => None,
    };
    let Some(mut bx) = w.ext.remove("events") else { return };
    if let Some(x) = bx.downcast_mut::<EvExt>() {
        match r {
            Some(r) => {
                let ri = w.rep(r);
                ev["c11"] = process(w, x, ri, r);
            }
            None => {
                // a step of another extension (its trace action does not evaluate C11): keep the shadows in step
                // with whatever its transactions reported, attach nothing
                for ri in 0..w.reps.len() {
                    let pending = {
                        let b = x.inbox[ri].borrow();
                        !b.shallow.is_empty() || !b.deep.is_empty()
                    };
                    if pending {
                        let id = w.reps[ri].id;
                        let _ = process(w, x, ri, id);
                    }
                }
            }
        }
    }
    w.ext.insert("events".into(), bx);
}

fn process(w: &World, x: &mut EvExt, ri: usize, r: u64) -> Value {
    let conv = Conv { tags: &w.tags };
    // the unit a type's scripts count in: the document's offset kind for a text, elements for anything else
    let tunit = if w.offset == OffsetKind::Bytes { "bytes" } else { "utf16" };
    let unit_of = |k: char| if k == 't' { tunit } else { "elem" };
    let mut fl = Flags { applyok: true, oldok: true, pathok: true, routeok: true };
    // nothing may have been delivered to observers of a replica that did not act
    for (i, ib) in x.inbox.iter().enumerate() {
        if i != ri {
            let b = ib.borrow();
            if !b.shallow.is_empty() || !b.deep.is_empty() {
                fl.routeok = false;
            }
        }
    }
    let inbox = std::mem::take(&mut *x.inbox[ri].borrow_mut());
    let rs = &mut x.shadows[ri];
    // shallow observers
    let mut fired: BTreeMap<String, u32> = BTreeMap::new();
    let mut sscript: BTreeMap<String, (Value, Value)> = BTreeMap::new();
    for (root, e) in &inbox.shallow {
        *fired.entry(root.clone()).or_default() += 1;
        sscript.entry(root.clone()).or_insert_with(|| script_json(&conv, &e.script));
        match rs.shallow.get_mut(root) {
            Some(sh) => apply(&conv, sh, &e.script, unit_of(e.kind), &mut fl),
            None => fl.routeok = false,
        }
    }
    // deep observers
    let mut deepfired: BTreeMap<String, u32> = BTreeMap::new();
    let mut dn: BTreeMap<TypeKey, u32> = BTreeMap::new();
    let mut dscript: BTreeMap<TypeKey, (Value, Value, Value)> = BTreeMap::new();
    for (root, evs) in &inbox.deep {
        *deepfired.entry(root.clone()).or_default() += 1;
        for e in evs {
            if !e.pathok {
                fl.pathok = false;
            }
            let Some(t) = &e.target else {
                fl.routeok = false;
                continue;
            };
            *dn.entry(t.clone()).or_default() += 1;
            let (a, b) = script_json(&conv, &e.script);
            let path: Vec<Value> = e.path.iter().map(|(k, i)| json!([k, i])).collect();
            dscript.entry(t.clone()).or_insert((a, b, Value::Array(path)));
            match rs.deep.get_mut(t) {
                Some(d) if &d.root == root && d.kind == e.kind => apply(&conv, &mut d.sh, &e.script, unit_of(e.kind), &mut fl),
                _ => fl.routeok = false,
            }
        }
    }
    // nested types reachable now; first sight initialises the shadow from the content
    let mut reachable: BTreeSet<TypeKey> = BTreeSet::new();
    let mut fresh: BTreeSet<TypeKey> = BTreeSet::new();
    {
        let txn = w.reps[ri].doc.transact();
        for (name, kind) in &w.roots {
            let Some(ro) = root_out(&txn, name, *kind) else { continue };
            let mut found = Vec::new();
            walk_nested(&txn, &ro, 0, &mut found);
            for (id, o) in found {
                let key = TypeKey::Nested(id);
                reachable.insert(key.clone());
                if !rs.deep.contains_key(&key) {
                    if let Some((k, sh)) = read_shadow(&txn, &o, &w.tags) {
                        rs.deep.insert(key.clone(), DeepShadow { root: name.clone(), kind: k, sh });
                        fresh.insert(key);
                    }
                }
            }
        }
    }
    let kind_s = |k: char| if k == 'm' { "map" } else { "seq" };
    let mut sh = Vec::new();
    for (name, kind) in &w.roots {
        let k = match kind {
            RootKind::Text => 't',
            RootKind::Array => 'a',
            RootKind::Map => 'm',
        };
        let (seq, keys) = shadow_json(&rs.shallow[name]);
        let (sc, ksc) = sscript.remove(name).unwrap_or((json!([]), json!([])));
        sh.push(json!({"root": name, "kind": kind_s(k), "unit": unit_of(k), "fired": fired.get(name).copied().unwrap_or(0),
            "seq": seq, "keys": keys, "script": sc, "kscript": ksc}));
    }
    let mut dp = Vec::new();
    for (key, d) in rs.deep.iter() {
        let n = dn.get(key).copied().unwrap_or(0);
        let own = match key {
            TypeKey::Root(_) => (0, 0),
            TypeKey::Nested(id) => {
                if !reachable.contains(key) && n == 0 {
                    continue;
                }
                *id
            }
        };
        let (seq, keys) = shadow_json(&d.sh);
        let (sc, ksc, path) = dscript.remove(key).unwrap_or((json!([]), json!([]), json!([])));
        dp.push(json!({"own": obs::idv(own), "root": d.root, "kind": kind_s(d.kind), "unit": unit_of(d.kind), "n": n,
            "fresh": fresh.contains(key), "seq": seq, "keys": keys, "script": sc, "kscript": ksc, "path": path}));
    }
    // events whose target has no shadow were counted in dn but have no record: report them as unroutable
    for key in dn.keys() {
        if !rs.deep.contains_key(key) {
            fl.routeok = false;
        }
    }
    let mut df = JMap::new();
    for (name, _) in &w.roots {
        df.insert(name.clone(), json!(deepfired.get(name).copied().unwrap_or(0)));
    }
    json!({"r": r, "sh": sh, "dp": dp, "deepfired": df, "oldok": fl.oldok, "pathok": fl.pathok, "applyok": fl.applyok, "routeok": fl.routeok})
}

// ---------------------------------------------------------------------------------------------
// several local operations inside one transaction

fn nav<T: ReadTxn>(w: &World, txn: &T, path: &[String]) -> Result<Out, String> {
    let kind = w.roots.iter().find(|r| r.0 == path[0]).map(|r| r.1).ok_or("unknown root")?;
    let mut cur = root_out(txn, &path[0], kind).ok_or("no root")?;
    for seg in &path[1..] {
        cur = if let Some(i) = seg.strip_prefix('#') {
            let i: u32 = i.parse().map_err(|_| "bad index")?;
            match &cur {
                Out::YArray(a) => a.get(txn, i).ok_or(format!("no element {}", i))?,
                _ => return Err("index into non-array".into()),
            }
        } else {
            match &cur {
                Out::YMap(m) => m.get(txn, seg).ok_or(format!("no key {}", seg))?,
                _ => return Err("key into non-map".into()),
            }
        };
    }
    Ok(cur)
}

struct Prepared {
    a: String,
    path: Vec<String>,
    idx: u32,
    n: u32,
    kind: String,
    key: String,
    chars: String,
    vals: Vec<Any>,
    inner: Any,
}

pub fn step(w: &mut World, st: &Value) -> Option<Value> {
    if st["a"].as_str() != Some("multi") {
        return None;
    }
    let r = st["r"].as_u64().unwrap();
    let ri = w.rep(r);
    let mut ops = Vec::new();
    for o in st["ops"].as_array().cloned().unwrap_or_default() {
        let n = o["n"].as_u64().unwrap_or(1) as u32;
        ops.push(Prepared {
            a: o["a"].as_str().unwrap_or("").to_string(),
            path: o["p"].as_array().map(|v| v.iter().map(|x| x.as_str().unwrap().to_string()).collect()).unwrap_or_default(),
            idx: o["i"].as_u64().unwrap_or(0) as u32,
            n,
            kind: o["k"].as_str().unwrap_or("u").to_string(),
            key: o["key"].as_str().unwrap_or("").to_string(),
            chars: w.fresh_chars(n as usize),
            vals: (0..n.max(1)).map(|_| w.fresh_val()).collect(),
            inner: w.fresh_val(),
        });
    }
    let doc = w.reps[ri].doc.clone();
    let res = catch_unwind(AssertUnwindSafe(|| -> Result<Vec<u8>, String> {
        let mut txn = doc.transact_mut();
        for p in &ops {
            let target = nav(w, &txn, &p.path)?;
            match (&target, p.a.as_str()) {
                (Out::YText(t), "ins") => {
                    // (`wide`: see "del")
                    let idx = if w.wide { p.idx.min(World::text_units(&txn, t)) } else { p.idx };
                    let off = w.unit_offset(&txn, t, idx);
                    t.insert(&mut txn, off, &p.chars);
                }
                (Out::YText(t), "del") => {
                    // whole characters: an index between the halves of a surrogate pair is never handed to the API.
                    // The seeded driver plans the operations of a transaction in advance, counting units; widening a range
                    // to whole characters removes more than planned, so in `wide` behaviours a later range is cut to what is
                    // left (nothing left: the operation is dropped) instead of asking the library for more than there is
                    let (mut idx, mut n) = (p.idx, p.n);
                    if w.wide {
                        let total = World::text_units(&txn, t);
                        if total == 0 {
                            continue;
                        }
                        idx = idx.min(total - 1);
                        n = n.min(total - idx);
                    }
                    let (_, _, off, len) = w.unit_span(&txn, t, idx, n);
                    t.remove_range(&mut txn, off, len);
                }
                (Out::YArray(arr), "ins") => match p.kind.as_str() {
                    "A" => {
                        arr.insert(&mut txn, p.idx, ArrayPrelim::from([p.inner.clone()]));
                    }
                    "M" => {
                        arr.insert(&mut txn, p.idx, MapPrelim::from([("k1".to_string(), p.inner.clone())]));
                    }
                    _ => {
                        arr.insert_range(&mut txn, p.idx, p.vals.clone());
                    }
                },
                (Out::YArray(arr), "del") => {
                    arr.remove_range(&mut txn, p.idx, p.n);
                }
                (Out::YMap(m), "set") => match p.kind.as_str() {
                    "A" => {
                        m.insert(&mut txn, p.key.clone(), ArrayPrelim::from([p.inner.clone()]));
                    }
                    "M" => {
                        m.insert(&mut txn, p.key.clone(), MapPrelim::from([("k1".to_string(), p.inner.clone())]));
                    }
                    _ => {
                        m.insert(&mut txn, p.key.clone(), p.vals[0].clone());
                    }
                },
                (Out::YMap(m), "rem") => {
                    m.remove(&mut txn, &p.key);
                }
                _ => return Err(format!("step {} not applicable to target", p.a)),
            }
        }
        // what the transaction created, encoded BEFORE commit: an element inserted and deleted inside one
        // transaction of a collecting replica only ever travels as a collected range, its structure (origins,
        // parent) is known from here alone
        Ok(txn.encode_update_v1())
    }));
    let mut pre_units: HashMap<Id, Value> = HashMap::new();
    let outcome = match res {
        Ok(Ok(pre)) => {
            if let Ok(wu) = codec::decode_update_v1(&pre) {
                let (us, _) = w.absorb(&wu);
                for u in us {
                    let id = (u["id"][0].as_u64().unwrap_or(0), u["id"][1].as_u64().unwrap_or(0) as u32);
                    pre_units.insert(id, u);
                }
            }
            "ok".to_string()
        }
        Ok(Err(e)) => format!("skip: {}", e),
        Err(p) => format!("panic: {}", panic_msg(&p)),
    };
    let (v1, v2) = w.drain(ri);
    let (mut upd, problems) = w.emitted(&v1, &v2);
    if let Some(arr) = upd["ins"].as_array_mut() {
        for u in arr.iter_mut() {
            if u["kind"] == "gc" {
                let id = (u["id"][0].as_u64().unwrap_or(0), u["id"][1].as_u64().unwrap_or(0) as u32);
                if let Some(p) = pre_units.get(&id) {
                    *u = p.clone();
                }
            }
        }
    }
    let m1 = v1.first().cloned().unwrap_or_else(|| vec![0, 0]);
    let m2 = v2.first().cloned().unwrap_or_else(|| vec![0, 0, 0, 0, 0, 0, 0, 0, 0, 0, 0, 0, 0]);
    w.log.push((r, m1, m2));
    Some(json!({
        "k": "loc", "r": r, "call": st, "cont": "", "outcome": outcome,
        "upd": upd, "nev": [v1.len(), v2.len()], "wire": problems.join("; "),
        "obs": w.observe(ri), "hasfol": w.followers, "fol": w.fol_obs(ri),
    }))
}

/// reachable containers of replica `ri`: (path, kind, visible length, keys present)
fn containers(w: &World, ri: usize) -> Vec<(Vec<String>, char, u32, Vec<String>)> {
    let txn = w.reps[ri].doc.transact();
    let mut out = Vec::new();
    let mut push = |path: Vec<String>, o: &Out, out: &mut Vec<(Vec<String>, char, u32, Vec<String>)>| match o {
        Out::YText(t) => out.push((path, 't', World::text_units(&txn, t), vec![])),
        Out::YArray(a) => out.push((path, 'a', a.len(&txn), vec![])),
        Out::YMap(m) => {
            let mut ks: Vec<String> = m.keys(&txn).map(|k| k.to_string()).collect();
            ks.sort();
            out.push((path, 'm', m.len(&txn), ks))
        }
        _ => {}
    };
    for (name, kind) in &w.roots {
        let Some(ro) = root_out(&txn, name, *kind) else { continue };
        push(vec![name.clone()], &ro, &mut out);
        match &ro {
            Out::YArray(a) => {
                for (i, v) in a.iter(&txn).enumerate() {
                    push(vec![name.clone(), format!("#{}", i)], &v, &mut out);
                }
            }
            Out::YMap(m) => {
                let mut ks: Vec<(String, Out)> = m.iter(&txn).map(|(k, v)| (k.to_string(), v)).collect();
                ks.sort_by(|a, b| a.0.cmp(&b.0));
                for (k, v) in ks {
                    push(vec![name.clone(), k], &v, &mut out);
                }
            }
            _ => {}
        }
    }
    out
}

/// one operation on a container of the given kind and length; returns (op, new length)
fn rand_op(w: &mut World, r: u64, path: &[String], kind: char, len: u32, keys: &mut Vec<String>, force: Option<&str>) -> (Value, u32) {
    let p: Vec<Value> = path.iter().map(|s| json!(s)).collect();
    let top = path.len() == 1;
    match kind {
        't' | 'a' => {
            let del = match force {
                Some("del") => len > 0,
                Some(_) => false,
                None => len > 0 && w.rng.chance(1, 3),
            };
            if del {
                let n = 1 + w.rng.below(2.min(len as u64)) as u32;
                let i = w.rng.below((len - n + 1) as u64) as u32;
                (json!({"a": "del", "r": r, "p": p, "i": i, "n": n}), len - n)
            } else {
                let i = w.rng.below(len as u64 + 1) as u32;
                let k = if kind == 'a' && top && w.rng.chance(1, 5) { if w.rng.chance(1, 2) { "A" } else { "M" } } else { "u" };
                let n = if k == "u" { 1 + w.rng.below(3) as u32 } else { 1 };
                (json!({"a": "ins", "r": r, "p": p, "i": i, "n": n, "k": k}), len + n)
            }
        }
        _ => {
            let cand: [&str; 2] = if top { ["k1", "k2"] } else { ["k1", "k3"] };
            let key = cand[w.rng.below(2) as usize].to_string();
            let has = keys.contains(&key);
            let rem = match force {
                Some("del") => has,
                Some(_) => false,
                None => has && w.rng.chance(1, 3),
            };
            if rem {
                keys.retain(|k| k != &key);
                (json!({"a": "rem", "r": r, "p": p, "key": key}), len)
            } else {
                if !has {
                    keys.push(key.clone());
                }
                let k = if top && w.rng.chance(1, 5) { if w.rng.chance(1, 2) { "A" } else { "M" } } else { "u" };
                (json!({"a": "set", "r": r, "p": p, "key": key, "k": k}), len)
            }
        }
    }
}

pub fn random_step(w: &mut World, authors: &[u64], _all: &[u64]) -> Option<Value> {
    if unsupported(w) {
        return None;
    }
    let r = authors[w.rng.below(authors.len() as u64) as usize];
    let ri = w.rep(r);
    let conts = containers(w, ri);
    if conts.is_empty() {
        return None;
    }
    let (path, kind, len, mut keys) = conts[w.rng.below(conts.len() as u64) as usize].clone();
    let mut ops = Vec::new();
    let shape = w.rng.below(5);
    match shape {
        0 if kind != 'm' => {
            // insert, then delete (part of) what was just inserted
            let i = w.rng.below(len as u64 + 1) as u32;
            let n = 1 + w.rng.below(3) as u32;
            let p: Vec<Value> = path.iter().map(|s| json!(s)).collect();
            ops.push(json!({"a": "ins", "r": r, "p": p, "i": i, "n": n, "k": "u"}));
            let m = 1 + w.rng.below(n as u64) as u32;
            let j = i + w.rng.below((n - m + 1) as u64) as u32;
            ops.push(json!({"a": "del", "r": r, "p": p, "i": j, "n": m}));
        }
        0 => {
            // set and remove the same key
            let p: Vec<Value> = path.iter().map(|s| json!(s)).collect();
            let key = if path.len() == 1 { ["k1", "k2"][w.rng.below(2) as usize] } else { ["k1", "k3"][w.rng.below(2) as usize] };
            let k = if path.len() == 1 && w.rng.chance(1, 4) { "M" } else { "u" };
            ops.push(json!({"a": "set", "r": r, "p": p, "key": key, "k": k}));
            ops.push(json!({"a": "rem", "r": r, "p": p, "key": key}));
            if w.rng.chance(1, 3) {
                ops.push(json!({"a": "set", "r": r, "p": p, "key": key, "k": "u"}));
            }
        }
        1 | 2 => {
            // two or three operations on the same container (a nested value created here is not entered)
            let mut l = len;
            for _ in 0..(2 + w.rng.below(2)) {
                let (op, l2) = rand_op(w, r, &path, kind, l, &mut keys, None);
                l = l2;
                ops.push(op);
            }
        }
        3 => {
            // delete, then insert in the same container
            let (op, l2) = rand_op(w, r, &path, kind, len, &mut keys, Some("del"));
            ops.push(op);
            let (op, _) = rand_op(w, r, &path, kind, l2, &mut keys, Some("ins"));
            ops.push(op);
        }
        _ => {
            // edits in two types below different roots
            let (op, _) = rand_op(w, r, &path, kind, len, &mut keys, None);
            ops.push(op);
            let others: Vec<_> = conts.iter().filter(|c| c.0[0] != path[0]).cloned().collect();
            if !others.is_empty() {
                let (p2, k2, l2, mut ks2) = others[w.rng.below(others.len() as u64) as usize].clone();
                let (op, _) = rand_op(w, r, &p2, k2, l2, &mut ks2, None);
                ops.push(op);
            }
        }
    }
    Some(json!({"a": "multi", "r": r, "ops": ops}))
}
