//! Extension `events` of the Yata executor (see ext/mod.rs for the contract).
use crate::yata::World;
use serde_json::Value;

pub fn init(_w: &mut World) {}

pub fn step(_w: &mut World, _st: &Value) -> Option<Value> {
    None
}

pub fn after_step(_w: &mut World, _st: &Value, _ev: &mut Value) {}

pub fn random_step(_w: &mut World, _authors: &[u64], _all: &[u64]) -> Option<Value> {
    None
}
