//! Extension `quote` of the Yata executor (C20: quotations and links; see ext/mod.rs for the contract).
//!
//! Steps (all of them are executed through the public API of yrs only):
//!   quote   {"a":"quote","r":R,"p":[path of a text/array],"key":"q1","h":"q1", range}      local op, one update slot
//!           ("psel":N instead of "p": the N-th (mod count) non-empty sequence reachable on R)
//!           range = explicit {"i","j","si","ei","su","eu"} (visible unit indexes, inclusive flags, unbounded flags)
//!                   or {"sel":N}: the N-th (mod count) entry of the canonical list of ranges over the CURRENT visible
//!                   length of the source on replica R (`ranges`), so that a generator that does not know the length
//!                   can still enumerate every range; the event records the resolved values.
//!   link    {"a":"link","r":R,"key":<key of root map m>,"at":"l1","h":"l1"}                 local op, one update slot
//!   qdel    {"a":"qdel","r":R,"h":H}        removes the map entry holding the quotation     local op, one update slot
//!   qedit   {"a":"qedit","r":R,"h":H,"op":"ins"|"del"|"set"|"rem","at":"lo-"|"lo"|"lo+"|"mid"|"hi-"|"hi"|"hi+"|"out-"|"out+","n":1}
//!           an ordinary insert/delete in the SOURCE of H at a position resolved relative to H's boundaries on replica R;
//!           executed by `World::local` (event kind "loc", validated by the base trace action)    local op, one slot
//!   unquote {"a":"unquote"[,"r":R][,"h":H]} dereferences the handle(s) on the replica(s) (default: all x all)
//! A local-op step that cannot be executed (source empty, quotation not on that replica ...) still occupies its
//! update slot (empty update) so that the slot numbers used by `dlv` steps of a schedule stay valid.
//!
//! Observers: whenever a stored quotation is reachable on a replica and has no observer yet, `after_step`
//! subscribes `observe` on that WeakRef; firings are counted per (replica, handle) and reported (and reset) by the
//! next `unquote` result for that pair (`fired`, with `o` = an observer is installed).
use crate::codec::{self, Content, Id, Scope};
use crate::obs::{self, RootKind};
use crate::yata::{panic_msg, World};
use serde_json::{json, Value};
use std::cell::Cell;
use std::collections::{BTreeMap, HashMap};
use std::ops::Bound;
use std::panic::{catch_unwind, AssertUnwindSafe};
use std::rc::Rc;
use yrs::{Array, ArrayRef, GetString, Map, MapRef, Observable, Out, Quotable, ReadTxn, TextRef, Transact, WeakRef};

#[derive(Clone)]
struct Handle {
    kind: char, // 't' text quotation, 'a' array quotation, 'l' map link
    key: String, // key of root map m under which the quotation is stored
    src: String, // container key of the source
    lo: Id,      // (0,0) = unbounded
    hi: Id,
}

#[derive(Default)]
struct QState {
    handles: BTreeMap<String, Handle>,
    subs: HashMap<(usize, String), (yrs::Subscription, Rc<Cell<u32>>)>,
}

fn take(w: &mut World) -> Box<QState> {
    match w.ext.remove("quote") {
        Some(b) => b.downcast::<QState>().unwrap_or_else(|_| Box::new(QState::default())),
        None => Box::new(QState::default()),
    }
}
fn put(w: &mut World, s: Box<QState>) {
    w.ext.insert("quote".into(), s);
}

pub fn init(w: &mut World) {
    put(w, Box::new(QState::default()));
}

// -------------------------------------------------------------------------------------------------
// helpers

fn nav<T: ReadTxn>(w: &World, txn: &T, path: &[String]) -> Result<Out, String> {
    let root = &path[0];
    let kind = w.roots.iter().find(|r| &r.0 == root).map(|r| r.1).ok_or("unknown root")?;
    let mut cur: Out = match kind {
        RootKind::Text => Out::YText(txn.get_text(root.as_str()).ok_or("no text root")?),
        RootKind::Array => Out::YArray(txn.get_array(root.as_str()).ok_or("no array root")?),
        RootKind::Map => Out::YMap(txn.get_map(root.as_str()).ok_or("no map root")?),
    };
    for seg in &path[1..] {
        cur = if let Some(i) = seg.strip_prefix('#') {
            let i: u32 = i.parse().map_err(|_| "bad index")?;
            match &cur {
                Out::YArray(a) => a.get(txn, i).ok_or(format!("no element {}", i))?,
                _ => return Err("index into non-array".into()),
            }
        } else {
            match &cur {
                Out::YMap(m) => m.get(txn, seg).ok_or(format!("no key {}", seg))?,
                _ => return Err("key into non-map".into()),
            }
        };
    }
    Ok(cur)
}

fn branch_id(out: &Out) -> Id {
    match out.try_branch().map(|b| b.id()) {
        Some(yrs::BranchID::Nested(id)) => (id.client.get(), id.clock),
        _ => (0, 0),
    }
}

fn out_id(w: &World, out: &Out) -> Id {
    match out {
        Out::Any(a) => w.tags.of_any(a),
        other => branch_id(other),
    }
}

/// sequence containers (text / array) reachable on replica `ri`: (path, kind, container key, visible length in units)
fn seq_containers(w: &World, ri: usize) -> Vec<(Vec<String>, char, String, u32)> {
    let txn = w.reps[ri].doc.transact();
    let mut out = Vec::new();
    if let Some(t) = txn.get_text("t") {
        let n = World::text_units(&txn, &t);
        out.push((vec!["t".to_string()], 't', "t|".to_string(), n));
    }
    if let Some(a) = txn.get_array("a") {
        out.push((vec!["a".to_string()], 'a', "a|".to_string(), a.len(&txn)));
        for (i, v) in a.iter(&txn).enumerate() {
            if let Out::YArray(x) = &v {
                let p = vec!["a".to_string(), format!("#{}", i)];
                out.push((p.clone(), 'a', World::cont_of(&v, &p, ""), x.len(&txn)));
            }
        }
    }
    if let Some(m) = txn.get_map("m") {
        let mut ks: Vec<(String, Out)> = m.iter(&txn).map(|(k, v)| (k.to_string(), v)).collect();
        ks.sort_by(|a, b| a.0.cmp(&b.0));
        for (k, v) in ks {
            if let Out::YArray(x) = &v {
                let p = vec!["m".to_string(), k.clone()];
                out.push((p.clone(), 'a', World::cont_of(&v, &p, ""), x.len(&txn)));
            }
        }
    }
    out
}

/// canonical list of the well-formed ranges over a sequence of n >= 1 visible units:
/// (su, i, si, eu, j, ei). A bounded start (end) names the unit at visible index i (j), included iff si (ei).
/// Ranges whose start lies behind their end ((i..i], (i..i)) are ill-formed and not listed; the empty half-open
/// range [i..i) is listed only when `degenerate` is set.
pub fn ranges(n: u32, degenerate: bool) -> Vec<(bool, u32, bool, bool, u32, bool)> {
    let mut v = Vec::new();
    for i in 0..n {
        for j in i..n {
            for (si, ei) in [(true, true), (true, false), (false, true), (false, false)] {
                if i == j && !(si && ei) && !(degenerate && si && !ei) {
                    continue;
                }
                v.push((false, i, si, false, j, ei));
            }
        }
    }
    for j in 0..n {
        for ei in [true, false] {
            v.push((true, 0, true, false, j, ei));
        }
    }
    for i in 0..n {
        for si in [true, false] {
            v.push((false, i, si, true, 0, true));
        }
    }
    v.push((true, 0, true, true, 0, true));
    v
}

/// what the emitted update says about the weak element: (id of the weak type element, start id, end id, flags)
/// -- decoded by the independent codec, not by yrs
fn weak_of_update(v1: &[Vec<u8>]) -> Option<(Id, Id, Id, u8)> {
    for u in v1 {
        if let Ok(wu) = codec::decode_update_v1(u) {
            for b in &wu.blocks {
                if let Content::Type(ti) = &b.content {
                    if let Some((flags, s, e)) = &ti.weak {
                        let start_unb = flags & 0b1000 != 0;
                        let end_unb = flags & 0b1_0000 != 0;
                        let lo = match s {
                            Scope::Id(id) if !start_unb => *id,
                            _ => (0, 0),
                        };
                        let hi = match e {
                            Scope::Id(id) if !end_unb => *id,
                            Scope::Same if !end_unb => lo,
                            _ => (0, 0),
                        };
                        return Some((b.id, lo, hi, *flags));
                    }
                }
            }
        }
    }
    None
}

/// the update of a step that did nothing (its slot may still be delivered)
fn empty_update() -> (Vec<u8>, Vec<u8>) {
    use yrs::updates::encoder::Encode;
    let u = yrs::Update::new();
    (u.encode_v1(), u.encode_v2())
}

/// finishes a local-op step of this extension: drains the update events, assigns the update slot, builds the event
fn finish_local(w: &mut World, ri: usize, r: u64, call: Value, cont: &str, outcome: (String, String), extra: Value) -> (Value, Vec<Vec<u8>>) {
    let (v1, v2) = w.drain(ri);
    let (upd, problems) = w.emitted(&v1, &v2);
    let (e1, e2) = empty_update();
    let m1 = v1.first().cloned().unwrap_or(e1);
    let m2 = v2.first().cloned().unwrap_or(e2);
    w.log.push((r, m1, m2));
    let mut ev = json!({
        "k": "qloc", "r": r, "call": call, "cont": cont, "outcome": outcome.0, "why": outcome.1,
        "upd": upd, "nev": [v1.len(), v2.len()], "wire": problems.join("; "),
        "obs": w.observe(ri), "hasfol": w.followers, "fol": w.fol_obs(ri),
    });
    if let (Some(o), Some(x)) = (ev.as_object_mut(), extra.as_object()) {
        for (k, v) in x {
            o.insert(k.clone(), v.clone());
        }
    }
    (ev, v1)
}

/// outcome "ok" | "skip" (the step is not applicable in the current state) | "error" | "panic", and the reason
fn outcome_of(res: std::thread::Result<Result<(), String>>) -> (String, String) {
    match res {
        Ok(Ok(())) => ("ok".to_string(), String::new()),
        Ok(Err(e)) => ((if e.starts_with("quote error") { "error" } else { "skip" }).to_string(), e),
        Err(p) => ("panic".to_string(), panic_msg(&p)),
    }
}

// -------------------------------------------------------------------------------------------------
// steps

fn do_quote(w: &mut World, qs: &mut QState, st: &Value) -> Value {
    let r = st["r"].as_u64().unwrap();
    let ri = w.rep(r);
    let mut path: Vec<String> = st["p"].as_array().map(|v| v.iter().map(|x| x.as_str().unwrap().to_string()).collect()).unwrap_or_default();
    if let Some(psel) = st["psel"].as_u64() {
        // the generator does not know which sequences exist: take the psel-th non-empty one of this replica
        let conts: Vec<_> = seq_containers(w, ri).into_iter().filter(|c| c.3 > 0).collect();
        if !conts.is_empty() {
            path = conts[(psel % conts.len() as u64) as usize].0.clone();
        }
    }
    if path.is_empty() {
        path = vec!["t".to_string()];
    }
    let key = st["key"].as_str().unwrap_or("q").to_string();
    let h = st["h"].as_str().unwrap_or(&key).to_string();
    let degenerate = st["deg"].as_bool().unwrap_or(false);
    let doc = w.reps[ri].doc.clone();
    // (su, i, si, eu, j, ei, n, kind, src)
    let mut resolved: (bool, u32, bool, bool, u32, bool, u32, char, String) = (false, 0, true, false, 0, true, 0, '?', String::new());
    let res = catch_unwind(AssertUnwindSafe(|| -> Result<(), String> {
        let mut txn = doc.transact_mut();
        let target = nav(w, &txn, &path)?;
        let (kind, n) = match &target {
            Out::YText(t) => ('t', World::text_units(&txn, t)),
            Out::YArray(a) => ('a', a.len(&txn)),
            _ => return Err("source is not a sequence".into()),
        };
        resolved.6 = n;
        resolved.7 = kind;
        resolved.8 = World::cont_of(&target, &path, "");
        if n == 0 {
            return Err("source has no visible unit".into());
        }
        // a bound names an ELEMENT of the source: for a text a whole character (1 or 2 UTF-16 units).  The unit recorded
        // for a bound is the character's first unit where the range begins with / ends before the character, its last
        // unit where it begins behind / ends with it; the API gets the character's offset in the document's offset kind.
        let layout = match &target {
            Out::YText(t) => Some(w.text_layout(&txn, t)),
            _ => None,
        };
        // element index -> (first unit, last unit, API offset)
        let elem = |e: u32| -> (u32, u32, u32) {
            match &layout {
                Some(l) => {
                    let (mut u, mut a) = (0u32, 0u32);
                    for (k, (wu, wa)) in l.iter().enumerate() {
                        if k as u32 == e {
                            return (u, u + wu - 1, a);
                        }
                        u += wu;
                        a += wa;
                    }
                    (u, u, a)
                }
                None => (e, e, e),
            }
        };
        // (without `wide` every character is one unit and the historical count `n` -- characters of the string -- is kept)
        let nelem = if w.wide { layout.as_ref().map(|l| l.len() as u32).unwrap_or(n) } else { n };
        // (su, (first unit, last unit, API offset) of the start element, si, eu, the same for the end element, ei)
        let (su, bi, si, eu, bj, ei) = match st["sel"].as_u64() {
            Some(sel) => {
                let all = ranges(nelem, degenerate);
                let (su, i, si, eu, j, ei) = all[(sel % all.len() as u64) as usize];
                (su, elem(i), si, eu, elem(j), ei)
            }
            None => {
                let i = st["i"].as_u64().unwrap_or(0) as u32;
                let j = st["j"].as_u64().unwrap_or(0) as u32;
                let (bi, bj) = match &layout {
                    Some(l) => (w.char_at(l, i), w.char_at(l, j)),
                    None => ((i, i, i), (j, j, j)),
                };
                (st["su"].as_bool().unwrap_or(false), bi, st["si"].as_bool().unwrap_or(true), st["eu"].as_bool().unwrap_or(false), bj, st["ei"].as_bool().unwrap_or(true))
            }
        };
        let (i, j) = (if si { bi.0 } else { bi.1 }, if ei { bj.1 } else { bj.0 });
        resolved.0 = su;
        resolved.1 = i;
        resolved.2 = si;
        resolved.3 = eu;
        resolved.4 = j;
        resolved.5 = ei;
        if (!su && i >= n) || (!eu && j >= n) {
            return Err("range outside the source".into());
        }
        // the API offset of a bound: a bytes document addresses a character by the offset of its first byte (any other
        // offset is not a character boundary); a UTF-16 document addresses code units, so a bound that takes the character
        // on its far side (exclusive start, inclusive end) names the character's LAST unit - never half a pair
        let utf16 = w.offset == yrs::OffsetKind::Utf16;
        let oi = if utf16 && !si { bi.2 + (bi.1 - bi.0) } else { bi.2 };
        let oj = if utf16 && ei { bj.2 + (bj.1 - bj.0) } else { bj.2 };
        let range: (Bound<u32>, Bound<u32>) = (
            if su { Bound::Unbounded } else if si { Bound::Included(oi) } else { Bound::Excluded(oi) },
            if eu { Bound::Unbounded } else if ei { Bound::Included(oj) } else { Bound::Excluded(oj) },
        );
        let m = txn.get_map("m").ok_or("no map root")?;
        match &target {
            Out::YText(t) => {
                let prelim = t.quote(&txn, range).map_err(|e| format!("quote error: {}", e))?;
                m.insert(&mut txn, key.clone(), prelim);
            }
            Out::YArray(a) => {
                let prelim = a.quote(&txn, range).map_err(|e| format!("quote error: {}", e))?;
                m.insert(&mut txn, key.clone(), prelim);
            }
            _ => unreachable!(),
        }
        Ok(())
    }));
    // (a refused quotation of a range that lies inside the source is an error, not a skipped step)
    let outcome = outcome_of(res);
    let (su, i, si, eu, j, ei, n, kind, src) = resolved;
    let call = json!({"a": "quote", "r": r, "p": path, "key": key, "h": h, "su": su, "i": i, "si": si, "eu": eu, "j": j, "ei": ei, "n": n,
        "sel": st["sel"].as_i64().unwrap_or(-1)});
    let cont = obs::cont_key_root("m", &key);
    let (mut ev, v1) = finish_local(w, ri, r, call, &cont, outcome.clone(), json!({"h": h, "src": src, "kind": kind.to_string()}));
    let wk = weak_of_update(&v1);
    let (wid, lo, hi, flags) = wk.unwrap_or(((0, 0), (0, 0), (0, 0), 0));
    let o = ev.as_object_mut().unwrap();
    o.insert("wid".into(), obs::idv(wid));
    o.insert("wlo".into(), obs::idv(lo));
    o.insert("whi".into(), obs::idv(hi));
    o.insert("wsa".into(), json!(flags & 0b10 != 0));
    o.insert("wea".into(), json!(flags & 0b100 != 0));
    o.insert("wsu".into(), json!(flags & 0b1000 != 0));
    o.insert("weu".into(), json!(flags & 0b1_0000 != 0));
    if outcome.0 == "ok" && wk.is_some() {
        qs.handles.insert(h, Handle { kind, key, src, lo, hi });
    }
    ev
}

fn do_link(w: &mut World, qs: &mut QState, st: &Value) -> Value {
    let r = st["r"].as_u64().unwrap();
    let ri = w.rep(r);
    let key = st["key"].as_str().unwrap_or("k1").to_string();
    let at = st["at"].as_str().unwrap_or("l1").to_string();
    let h = st["h"].as_str().unwrap_or(&at).to_string();
    let doc = w.reps[ri].doc.clone();
    let res = catch_unwind(AssertUnwindSafe(|| -> Result<(), String> {
        let mut txn = doc.transact_mut();
        let m = txn.get_map("m").ok_or("no map root")?;
        let prelim = m.link(&txn, &key).ok_or("no such entry")?;
        m.insert(&mut txn, at.clone(), prelim);
        Ok(())
    }));
    let outcome = outcome_of(res);
    let src = obs::cont_key_root("m", &key);
    let call = json!({"a": "link", "r": r, "key": key, "at": at, "h": h});
    let cont = obs::cont_key_root("m", &at);
    let (mut ev, v1) = finish_local(w, ri, r, call, &cont, outcome.clone(), json!({"h": h, "src": src, "kind": "l"}));
    let wk = weak_of_update(&v1);
    let (wid, lo, hi, flags) = wk.unwrap_or(((0, 0), (0, 0), (0, 0), 0));
    let o = ev.as_object_mut().unwrap();
    o.insert("wid".into(), obs::idv(wid));
    o.insert("wlo".into(), obs::idv(lo));
    o.insert("whi".into(), obs::idv(hi));
    o.insert("wsa".into(), json!(flags & 0b10 != 0));
    o.insert("wea".into(), json!(flags & 0b100 != 0));
    o.insert("wsu".into(), json!(flags & 0b1000 != 0));
    o.insert("weu".into(), json!(flags & 0b1_0000 != 0));
    if outcome.0 == "ok" && wk.is_some() {
        qs.handles.insert(h, Handle { kind: 'l', key: at, src, lo, hi });
    }
    ev
}

fn do_qdel(w: &mut World, qs: &mut QState, st: &Value) -> Value {
    let r = st["r"].as_u64().unwrap();
    let ri = w.rep(r);
    let h = st["h"].as_str().unwrap_or("").to_string();
    let hd = qs.handles.get(&h).cloned();
    let doc = w.reps[ri].doc.clone();
    let key = hd.as_ref().map(|x| x.key.clone()).unwrap_or_default();
    let res = catch_unwind(AssertUnwindSafe(|| -> Result<(), String> {
        if hd.is_none() {
            return Err("unknown handle".into());
        }
        let mut txn = doc.transact_mut();
        let m = txn.get_map("m").ok_or("no map root")?;
        match m.get(&txn, &key) {
            Some(Out::YWeakLink(_)) => {
                m.remove(&mut txn, &key);
                Ok(())
            }
            _ => Err("quotation not on this replica".into()),
        }
    }));
    let outcome = outcome_of(res);
    let call = json!({"a": "qdel", "r": r, "h": h});
    let cont = obs::cont_key_root("m", &key);
    let src = hd.as_ref().map(|x| x.src.clone()).unwrap_or_default();
    let kind = hd.as_ref().map(|x| x.kind.to_string()).unwrap_or_default();
    let (mut ev, _) = finish_local(w, ri, r, call, &cont, outcome, json!({"h": h, "src": src, "kind": kind}));
    let o = ev.as_object_mut().unwrap();
    for k in ["wid", "wlo", "whi"] {
        o.insert(k.into(), obs::idv((0, 0)));
    }
    for k in ["wsa", "wea", "wsu", "weu"] {
        o.insert(k.into(), json!(false));
    }
    ev
}

/// path by which replica `ri` reaches the sequence container `src` now
fn path_of(w: &World, ri: usize, src: &str) -> Option<(Vec<String>, u32)> {
    seq_containers(w, ri).into_iter().find(|c| c.2 == src).map(|c| (c.0, c.3))
}

fn ids_of(v: &Value) -> Vec<Id> {
    v.as_array().map(|a| a.iter().map(|x| (x[0].as_u64().unwrap_or(0), x[1].as_u64().unwrap_or(0) as u32)).collect()).unwrap_or_default()
}

/// resolves a boundary-relative edit into an ordinary step; None when it cannot be placed on this replica now
fn resolve_edit(w: &World, qs: &QState, st: &Value) -> Result<Value, String> {
    let r = st["r"].as_u64().unwrap();
    let ri = w.rep(r);
    let h = st["h"].as_str().unwrap_or("");
    let hd = qs.handles.get(h).ok_or("unknown handle")?;
    let op = st["op"].as_str().unwrap_or("ins");
    let at = st["at"].as_str().unwrap_or("mid");
    let n = st["n"].as_u64().unwrap_or(1);
    if hd.kind == 'l' {
        let key = hd.src.trim_start_matches("m|").to_string();
        return Ok(match op {
            "rem" | "del" => {
                let has = {
                    let txn = w.reps[ri].doc.transact();
                    txn.get_map("m").map(|m| m.contains_key(&txn, &key)).unwrap_or(false)
                };
                if !has {
                    return Err("entry absent".into());
                }
                json!({"a": "rem", "r": r, "p": ["m"], "key": key, "via": h})
            }
            _ => json!({"a": "set", "r": r, "p": ["m"], "key": key, "k": "u", "via": h}),
        });
    }
    let (path, nvis) = path_of(w, ri, &hd.src).ok_or("source not reachable")?;
    let o = w.observe(ri);
    let lst = ids_of(&o["lst"][&hd.src]);
    let dead = ids_of(&o["dead"]);
    let is_dead = |x: &Id| dead.contains(x);
    // visible index of the place of x: number of visible units strictly left of x; and whether x itself is visible
    let place = |x: Id, unb: u32| -> Result<(u32, bool), String> {
        if x == (0, 0) {
            return Ok((unb, false));
        }
        let p = lst.iter().position(|y| *y == x).ok_or("boundary not on this replica")?;
        Ok((lst[..p].iter().filter(|y| !is_dead(y)).count() as u32, !is_dead(&x)))
    };
    let (plo, vlo) = place(hd.lo, 0)?;
    let (phi, vhi) = place(hd.hi, nvis)?;
    let idx = match (op, at) {
        ("ins", "lo-") => plo,
        ("ins", "lo+") | ("ins", "lo") => plo + vlo as u32,
        ("ins", "hi-") | ("ins", "hi") => phi,
        ("ins", "hi+") => phi + vhi as u32,
        ("ins", "out-") => 0,
        ("ins", "out+") => nvis,
        ("ins", _) => (plo + phi + 1) / 2,
        (_, "lo-") => plo.checked_sub(1).ok_or("nothing left of the start")?,
        (_, "lo") => plo,
        (_, "lo+") => plo + vlo as u32,
        (_, "hi-") => phi.checked_sub(1).ok_or("nothing left of the end")?,
        (_, "hi") => phi,
        (_, "hi+") => phi + vhi as u32,
        (_, "out-") => 0,
        (_, "out+") => nvis.checked_sub(1).ok_or("empty")?,
        (_, _) => (plo + phi) / 2,
    };
    let p: Vec<Value> = path.iter().map(|s| json!(s)).collect();
    if op == "ins" {
        if idx > nvis {
            return Err("position beyond the end".into());
        }
        Ok(json!({"a": "ins", "r": r, "p": p, "i": idx, "n": n, "k": "u", "via": h}))
    } else {
        if idx >= nvis {
            return Err("nothing to delete there".into());
        }
        let n = n.min((nvis - idx) as u64);
        Ok(json!({"a": "del", "r": r, "p": p, "i": idx, "n": n, "via": h}))
    }
}

fn do_qedit(w: &mut World, qs: &mut QState, st: &Value) -> Value {
    match resolve_edit(w, qs, st) {
        Ok(step) => w.local(&step),
        Err(why) => {
            // the step keeps its update slot
            let r = st["r"].as_u64().unwrap();
            let (e1, e2) = empty_update();
            w.log.push((r, e1, e2));
            json!({"k": "qskip", "r": r, "call": st, "why": why, "slot": true})
        }
    }
}

enum Found {
    Absent,
    Weak(WeakRef<yrs::branch::BranchPtr>, Id),
}

fn find_weak<T: ReadTxn>(txn: &T, key: &str) -> Found {
    match txn.get_map("m").and_then(|m| m.get(txn, key)) {
        Some(Out::YWeakLink(wr)) => {
            let id = branch_id(&Out::YWeakLink(wr.clone()));
            Found::Weak(wr, id)
        }
        _ => Found::Absent,
    }
}

fn deref_one(w: &World, ri: usize, hd: &Handle) -> Value {
    let doc = w.reps[ri].doc.clone();
    let res = catch_unwind(AssertUnwindSafe(|| -> Result<(bool, Id, Vec<Id>), String> {
        let txn = doc.transact();
        match find_weak(&txn, &hd.key) {
            Found::Absent => Ok((false, (0, 0), vec![])),
            Found::Weak(wr, wid) => {
                let ids: Vec<Id> = match hd.kind {
                    't' => {
                        let t: WeakRef<TextRef> = WeakRef::from(wr);
                        w.tags.of_str(&t.get_string(&txn))
                    }
                    'a' => {
                        let a: WeakRef<ArrayRef> = WeakRef::from(wr);
                        a.unquote(&txn).map(|o| out_id(w, &o)).collect()
                    }
                    _ => {
                        let m: WeakRef<MapRef> = WeakRef::from(wr);
                        m.try_deref_value(&txn).map(|o| vec![out_id(w, &o)]).unwrap_or_default()
                    }
                };
                Ok((true, wid, ids))
            }
        }
    }));
    match res {
        Ok(Ok((present, wid, ids))) => json!({"present": present, "wid": obs::idv(wid), "ids": obs::idsv(&ids), "outcome": "ok"}),
        Ok(Err(e)) => json!({"present": false, "wid": [0, 0], "ids": [], "outcome": format!("error: {}", e)}),
        Err(p) => json!({"present": true, "wid": [0, 0], "ids": [], "outcome": format!("panic: {}", panic_msg(&p))}),
    }
}

fn do_unquote(w: &mut World, qs: &mut QState, st: &Value) -> Value {
    let only_r = st["r"].as_u64();
    let only_h = st["h"].as_str().map(|s| s.to_string());
    let mut res = Vec::new();
    for ri in 0..w.reps.len() {
        let r = w.reps[ri].id;
        if only_r.map(|x| x != r).unwrap_or(false) {
            continue;
        }
        for (h, hd) in qs.handles.iter() {
            if only_h.as_ref().map(|x| x != h).unwrap_or(false) {
                continue;
            }
            let mut v = deref_one(w, ri, hd);
            let o = v.as_object_mut().unwrap();
            o.insert("r".into(), json!(r));
            o.insert("h".into(), json!(h));
            o.insert("kind".into(), json!(hd.kind.to_string()));
            // observer of this quotation on this replica: installed?, firings since the last event that listed it
            match qs.subs.get(&(ri, h.clone())) {
                Some((_, c)) => {
                    o.insert("o".into(), json!(true));
                    o.insert("fired".into(), json!(c.get()));
                    c.set(0);
                }
                None => {
                    o.insert("o".into(), json!(false));
                    o.insert("fired".into(), json!(0));
                }
            }
            res.push(v);
        }
    }
    json!({"k": "unquote", "call": st, "res": res})
}

pub fn step(w: &mut World, st: &Value) -> Option<Value> {
    let a = st["a"].as_str().unwrap_or("");
    if !matches!(a, "quote" | "link" | "qdel" | "qedit" | "unquote") {
        return None;
    }
    let mut qs = take(w);
    let ev = match a {
        "quote" => do_quote(w, &mut qs, st),
        "link" => do_link(w, &mut qs, st),
        "qdel" => do_qdel(w, &mut qs, st),
        "qedit" => do_qedit(w, &mut qs, st),
        _ => do_unquote(w, &mut qs, st),
    };
    put(w, qs);
    Some(ev)
}

/// installs an observer on every stored quotation that is reachable on a replica and has none yet
pub fn after_step(w: &mut World, _st: &Value, _ev: &mut Value) {
    let mut qs = take(w);
    let handles: Vec<(String, Handle)> = qs.handles.iter().map(|(h, x)| (h.clone(), x.clone())).collect();
    for ri in 0..w.reps.len() {
        for (h, hd) in &handles {
            if qs.subs.contains_key(&(ri, h.clone())) {
                continue;
            }
            let doc = w.reps[ri].doc.clone();
            let cnt = Rc::new(Cell::new(0u32));
            let c2 = cnt.clone();
            let sub = catch_unwind(AssertUnwindSafe(|| {
                let txn = doc.transact();
                match find_weak(&txn, &hd.key) {
                    Found::Weak(wr, _) => Some(wr.observe(move |_, _| c2.set(c2.get() + 1))),
                    Found::Absent => None,
                }
            }));
            if let Ok(Some(s)) = sub {
                qs.subs.insert((ri, h.clone()), (s, cnt));
            }
        }
    }
    put(w, qs);
}

pub fn random_step(w: &mut World, authors: &[u64], all: &[u64]) -> Option<Value> {
    let qs = take(w);
    let nh = qs.handles.len();
    let hs: Vec<(String, char)> = qs.handles.iter().map(|(h, x)| (h.clone(), x.kind)).collect();
    put(w, qs);
    let roll = w.rng.below(100);
    let r = authors[w.rng.below(authors.len() as u64) as usize];
    let ri = w.rep(r);
    if nh == 0 || (nh < 3 && roll < 20) {
        // create a quotation or a link
        let conts: Vec<_> = seq_containers(w, ri).into_iter().filter(|c| c.3 > 0).collect();
        let keys: Vec<String> = {
            let txn = w.reps[ri].doc.transact();
            let mut ks: Vec<String> = txn.get_map("m").map(|m| m.keys(&txn).map(|k| k.to_string()).filter(|k| k.starts_with('k')).collect()).unwrap_or_default();
            ks.sort();
            ks
        };
        if !keys.is_empty() && (conts.is_empty() || w.rng.chance(1, 4)) {
            let key = keys[w.rng.below(keys.len() as u64) as usize].clone();
            let h = format!("l{}", nh + 1);
            return Some(json!({"a": "link", "r": r, "key": key, "at": h, "h": h}));
        }
        if conts.is_empty() {
            return None;
        }
        let c = &conts[w.rng.below(conts.len() as u64) as usize];
        let h = format!("q{}", nh + 1);
        let p: Vec<Value> = c.0.iter().map(|s| json!(s)).collect();
        return Some(json!({"a": "quote", "r": r, "p": p, "sel": w.rng.below(1000), "key": h, "h": h}));
    }
    if roll < 65 {
        return Some(json!({"a": "unquote"}));
    }
    let (h, kind) = hs[w.rng.below(hs.len() as u64) as usize].clone();
    let _ = all;
    if roll < 96 {
        let op = if kind == 'l' { if w.rng.chance(1, 3) { "rem" } else { "set" } } else if w.rng.chance(2, 5) { "del" } else { "ins" };
        let ats = ["lo-", "lo", "lo+", "mid", "hi-", "hi", "hi+", "out-", "out+"];
        let at = ats[w.rng.below(ats.len() as u64) as usize];
        return Some(json!({"a": "qedit", "r": r, "h": h, "op": op, "at": at, "n": 1 + w.rng.below(2)}));
    }
    Some(json!({"a": "qdel", "r": r, "h": h}))
}
