pub mod util;
pub mod codec;
pub mod obs;
pub mod yata;
