pub mod util;
pub mod codec;
pub mod obs;
pub mod yata;
pub mod ext;
pub mod seqapi;
