//! X stage for the `IdSets` specification family (C16): executes construction programs generated
//! by TLC on real `yrs::IdSet` / `yrs::IdMap<String>` values and records, after every step, what the
//! public API shows: the range lists (`iter()`), query answers, equality results, the v1/v2
//! encodings and their decode round-trips.  Nothing here decides a verdict: every recorded field is
//! compared with the set-theoretic result by TLC (spec/Trace_IdSets.tla).
//!
//! Schedule families (one JSON object per line):
//!   seq  {"bid","fam":"seq","kind":"set"|"map","clients":[..],"U":n,"progs":[[op,..],..]}
//!        programs sorted so that every program follows its longest proper prefix (a trie walk);
//!        one event per program = the last step applied to a clone of the parent's value
//!   pair {"bid","fam":"pair","kind",..,"a":[op..],"bs":[[op..],..]}
//!        register A is built once, unary conversions are applied to it, then for every B:
//!        comparison and every binary operation
//!   doc  {"bid","fam":"doc","gc":bool,"steps":[{"a":"ins"|"emb"|"del"|"pass",..}]}
//!        a text edited through the public API; delete sets computed from the document
//! op = {"a":"ins"|"rem","c":client,"lo":..,"hi":..,"at":[attribute names]} | {"a":"fi","items":[{"c","rs":[[lo,hi]..]}]}

use serde_json::{json, Value};
use std::io::Write;
use std::panic::{catch_unwind, AssertUnwindSafe};
use yrs::block::{BlockRange, ClientID};
use yrs::updates::decoder::Decode;
use yrs::updates::encoder::Encode;
use yrs::{ContentAttribute, Diff, Doc, IdMap, IdSet, MapPrelim, Options, ReadTxn, StateVector, Text, Transact, Update, ID};

type Map = IdMap<String>;

#[derive(Clone)]
pub enum Val {
    Set(IdSet),
    Map(Map),
}

fn hex(b: &[u8]) -> String {
    let mut s = String::with_capacity(b.len() * 2);
    for x in b {
        s.push_str(&format!("{:02x}", x));
    }
    s
}

fn attr(name: &str) -> ContentAttribute<String> {
    // both attributes share the attribute *name* (exercises the name table of the encoding) and
    // differ in value; a fresh Arc per call, as a caller of the API would produce
    ContentAttribute::new("k", name.to_string())
}
fn attrs_of(v: &Value) -> Vec<ContentAttribute<String>> {
    v.as_array().map(|a| a.iter().map(|x| attr(x.as_str().unwrap_or("?"))).collect()).unwrap_or_default()
}

/// what `iter()` lists: [{"c":client,"r":[{"lo","hi","at":[..]}]}] in iteration order
fn rep_set(s: &IdSet) -> Value {
    let mut out = Vec::new();
    for (c, ranges) in s.iter() {
        let r: Vec<Value> = ranges.iter().map(|r| json!({"lo": r.start, "hi": r.end, "at": []})).collect();
        out.push(json!({"c": c.get(), "r": r}));
    }
    Value::Array(out)
}
fn rep_map(m: &Map) -> Value {
    // IdMap::iter() is flat: (client, AttrRange); group consecutive entries of one client
    let mut out: Vec<(u64, Vec<Value>)> = Vec::new();
    for (c, ar) in m.iter() {
        let at: Vec<Value> = ar.attrs.iter().map(|a| Value::String(a.value().clone())).collect();
        let e = json!({"lo": ar.range.start, "hi": ar.range.end, "at": at});
        match out.last_mut() {
            Some((lc, v)) if *lc == c.get() => v.push(e),
            _ => out.push((c.get(), vec![e])),
        }
    }
    Value::Array(out.into_iter().map(|(c, r)| json!({"c": c, "r": r})).collect())
}

fn rt_fail(why: String) -> Value {
    json!({"ok": false, "eq": false, "rep": [], "re": "", "why": why})
}

pub struct Uni {
    pub clients: Vec<u64>,
    pub u: u32,
}
impl Uni {
    fn probe(&self) -> Vec<(u64, u32)> {
        let mut p = Vec::new();
        for c in &self.clients {
            for k in 0..=self.u {
                p.push((*c, k));
            }
        }
        // a client that no program mentions
        p.push((99, 0));
        p
    }
}

/// observation of a value through its public API
pub fn observe(v: &Val, uni: &Uni) -> Value {
    let r = catch_unwind(AssertUnwindSafe(|| match v {
        Val::Set(s) => {
            let has: Vec<Value> =
                uni.probe().into_iter().filter(|(c, k)| s.contains(&ID::new(ClientID::new(*c), *k))).map(|(c, k)| json!([c, k])).collect();
            let e1 = s.encode_v1();
            let e2 = s.encode_v2();
            let rt1 = match IdSet::decode_v1(&e1) {
                Ok(d) => json!({"ok": true, "eq": d == *s, "rep": rep_set(&d), "re": hex(&d.encode_v1())}),
                Err(e) => rt_fail(e.to_string()),
            };
            let rt2 = match IdSet::decode_v2(&e2) {
                Ok(d) => json!({"ok": true, "eq": d == *s, "rep": rep_set(&d), "re": hex(&d.encode_v2())}),
                Err(e) => rt_fail(e.to_string()),
            };
            json!({"kind": "set", "rep": rep_set(s), "empty": s.is_empty(), "len": s.len() as i64, "has": has,
                   "enc1": hex(&e1), "enc2": hex(&e2), "rt1": rt1, "rt2": rt2})
        }
        Val::Map(m) => {
            let has: Vec<Value> =
                uni.probe().into_iter().filter(|(c, k)| m.contains(&ID::new(ClientID::new(*c), *k))).map(|(c, k)| json!([c, k])).collect();
            let e1 = m.encode_v1();
            let e2 = m.encode_v2();
            let rt1 = match Map::decode_v1(&e1) {
                Ok(d) => json!({"ok": true, "eq": d == *m, "rep": rep_map(&d), "re": hex(&d.encode_v1())}),
                Err(e) => rt_fail(e.to_string()),
            };
            let rt2 = match Map::decode_v2(&e2) {
                Ok(d) => json!({"ok": true, "eq": d == *m, "rep": rep_map(&d), "re": hex(&d.encode_v2())}),
                Err(e) => rt_fail(e.to_string()),
            };
            json!({"kind": "map", "rep": rep_map(m), "empty": m.is_empty(), "len": -1, "has": has,
                   "enc1": hex(&e1), "enc2": hex(&e2), "rt1": rt1, "rt2": rt2})
        }
    }));
    match r {
        Ok(v) => v,
        Err(p) => json!({"kind": "panic", "rep": [], "empty": false, "len": -1, "has": [], "enc1": "", "enc2": "",
                         "rt1": rt_fail(panic_msg(&p)), "rt2": rt_fail(String::new())}),
    }
}

fn panic_msg(p: &Box<dyn std::any::Any + Send>) -> String {
    if let Some(s) = p.downcast_ref::<&str>() {
        s.to_string()
    } else if let Some(s) = p.downcast_ref::<String>() {
        s.clone()
    } else {
        "?".to_string()
    }
}

fn range_of(op: &Value) -> (ClientID, u32, u32) {
    let c = ClientID::new(op["c"].as_u64().unwrap());
    let lo = op["lo"].as_u64().unwrap() as u32;
    let hi = op["hi"].as_u64().unwrap() as u32;
    (c, lo, hi.max(lo) - lo)
}

/// one construction step on a value (in place); "fi" replaces the value by IdSet::from_iter(items)
pub fn apply(v: &mut Val, op: &Value) -> String {
    let r = catch_unwind(AssertUnwindSafe(|| {
        let a = op["a"].as_str().unwrap_or("");
        match (a, &mut *v) {
            ("ins", Val::Set(s)) => {
                let (c, lo, len) = range_of(op);
                s.insert(ID::new(c, lo), len);
            }
            ("rem", Val::Set(s)) => {
                let (c, lo, len) = range_of(op);
                s.remove_range(&BlockRange::new(ID::new(c, lo), len));
            }
            ("ins", Val::Map(m)) => {
                let (c, lo, len) = range_of(op);
                m.insert(BlockRange::new(ID::new(c, lo), len), attrs_of(&op["at"]));
            }
            ("rem", Val::Map(m)) => {
                let (c, lo, len) = range_of(op);
                m.remove(&BlockRange::new(ID::new(c, lo), len));
            }
            ("fi", Val::Set(_)) => {
                let items: Vec<(ClientID, Vec<std::ops::Range<u32>>)> = op["items"]
                    .as_array()
                    .unwrap()
                    .iter()
                    .map(|it| {
                        let rs = it["rs"].as_array().unwrap().iter().map(|r| (r[0].as_u64().unwrap() as u32)..(r[1].as_u64().unwrap() as u32)).collect();
                        (ClientID::new(it["c"].as_u64().unwrap()), rs)
                    })
                    .collect();
                *v = Val::Set(IdSet::from_iter(items));
            }
            _ => panic!("harness: unknown step {}", op),
        }
    }));
    match r {
        Ok(()) => "ok".to_string(),
        Err(p) => format!("panic: {}", panic_msg(&p)),
    }
}

fn fresh(kind: &str) -> Val {
    if kind == "map" {
        Val::Map(Map::new())
    } else {
        Val::Set(IdSet::new())
    }
}

fn eqv(a: &Val, b: &Val) -> bool {
    match (a, b) {
        (Val::Set(x), Val::Set(y)) => x == y,
        (Val::Map(x), Val::Map(y)) => x == y,
        _ => false,
    }
}

struct Out<'a> {
    w: &'a mut dyn Write,
    n: usize,
    nev: usize,
    /// events that only create a fresh empty value (counted as trivial in the evidence)
    fresh: usize,
}
impl<'a> Out<'a> {
    fn emit(&mut self, mut e: Value) -> std::io::Result<()> {
        e["n"] = json!(self.n);
        self.n += 1;
        self.nev += 1;
        if e["k"] == "new" {
            self.fresh += 1;
        }
        writeln!(self.w, "{}", e)
    }
}

fn uni_of(b: &Value) -> Uni {
    Uni { clients: b["clients"].as_array().map(|a| a.iter().map(|x| x.as_u64().unwrap()).collect()).unwrap_or_default(), u: b["U"].as_u64().unwrap_or(0) as u32 }
}
fn probe_json(uni: &Uni) -> Value {
    Value::Array(uni.probe().into_iter().map(|(c, k)| json!([c, k])).collect())
}

fn run_seq(b: &Value, out: &mut Out) -> std::io::Result<()> {
    let kind = b["kind"].as_str().unwrap_or("set");
    let uni = uni_of(b);
    let mut stack: Vec<Val> = vec![fresh(kind)];
    let mut path: Vec<Value> = Vec::new();
    out.emit(json!({"k": "new", "reg": "a", "obs": observe(&stack[0], &uni)}))?;
    for prog in b["progs"].as_array().unwrap() {
        let ops = prog.as_array().unwrap();
        if ops.is_empty() {
            continue;
        }
        let d = ops.len();
        // the parent program must be on the stack (programs arrive in trie order); otherwise rebuild
        let common = path.iter().zip(ops.iter()).take_while(|(x, y)| x == y).count().min(d - 1);
        stack.truncate(common + 1);
        path.truncate(common);
        for i in common..d - 1 {
            // parent missing from the trie order: rebuild silently (its own event belongs to another line)
            let mut v = stack.last().unwrap().clone();
            apply(&mut v, &ops[i]);
            stack.push(v);
            path.push(ops[i].clone());
        }
        let mut v = stack.last().unwrap().clone();
        let outcome = apply(&mut v, &ops[d - 1]);
        let eqs: Vec<bool> = stack.iter().map(|anc| eqv(&v, anc)).collect();
        out.emit(json!({"k": "step", "reg": "a", "d": d, "op": ops[d - 1], "outcome": outcome, "eqs": eqs, "obs": observe(&v, &uni)}))?;
        stack.push(v);
        path.push(ops[d - 1].clone());
    }
    Ok(())
}

fn build(reg: &str, kind: &str, prog: &Value, uni: &Uni, out: &mut Out) -> std::io::Result<Val> {
    let mut v = fresh(kind);
    out.emit(json!({"k": "new", "reg": reg, "obs": observe(&v, uni)}))?;
    let mut stack: Vec<Val> = vec![v.clone()];
    for (i, op) in prog.as_array().unwrap().iter().enumerate() {
        let outcome = apply(&mut v, op);
        let eqs: Vec<bool> = stack.iter().map(|anc| eqv(&v, anc)).collect();
        out.emit(json!({"k": "step", "reg": reg, "d": i + 1, "op": op, "outcome": outcome, "eqs": eqs, "obs": observe(&v, uni)}))?;
        stack.push(v.clone());
    }
    Ok(v)
}

/// R := op(A, B); returns None when the operation does not apply to these operands
fn binop(name: &str, arg: &Value, a: &Val, b: &Val) -> Option<Result<Val, String>> {
    let r = catch_unwind(AssertUnwindSafe(|| -> Option<Val> {
        match (a, b) {
            (Val::Set(x), Val::Set(y)) => match name {
                "merge" => Some(Val::Set(x.merge(y))),
                "mergew" => {
                    let mut r = x.clone();
                    r.merge_with(y.clone());
                    Some(Val::Set(r))
                }
                "diff" => Some(Val::Set(x.diff(y))),
                "diffw" => {
                    let mut r = x.clone();
                    r.diff_with(y);
                    Some(Val::Set(r))
                }
                "isect" => Some(Val::Set(x.intersect(y))),
                "isectw" => {
                    let mut r = x.clone();
                    r.intersect_with(y);
                    Some(Val::Set(r))
                }
                "insr" => {
                    let c = ClientID::new(arg.as_u64().unwrap());
                    let part = y.get(&c)?.clone();
                    let mut r = x.clone();
                    r.insert_range(c, part);
                    Some(Val::Set(r))
                }
                _ => None,
            },
            (Val::Map(x), Val::Map(y)) => match name {
                "mergew" => {
                    let mut r = x.clone();
                    r.merge_with(y.clone());
                    Some(Val::Map(r))
                }
                "mergemany" => Some(Val::Map(Map::merge_many(&[x.clone(), y.clone()]))),
                "isectw" => {
                    let mut r = x.clone();
                    r.intersect_with(y);
                    Some(Val::Map(r))
                }
                "diffmap" => {
                    let mut r = x.clone();
                    Diff::<Map>::diff_with(&mut r, y);
                    Some(Val::Map(r))
                }
                "diffset" => {
                    let mut r = x.clone();
                    let s = y.as_id_set();
                    Diff::<IdSet>::diff_with(&mut r, &s);
                    Some(Val::Map(r))
                }
                _ => None,
            },
            _ => None,
        }
    }));
    match r {
        Ok(None) => None,
        Ok(Some(v)) => Some(Ok(v)),
        Err(p) => Some(Err(format!("panic: {}", panic_msg(&p)))),
    }
}

/// R := op(A): conversions and copies
fn unop(name: &str, arg: &Value, a: &Val) -> Option<Result<Val, String>> {
    let r = catch_unwind(AssertUnwindSafe(|| -> Option<Val> {
        match a {
            Val::Set(x) => match name {
                "clone" => Some(Val::Set(x.clone())),
                "fromiter" => Some(Val::Set(IdSet::from_iter(x.iter().map(|(c, rs)| (*c, rs.iter().cloned().collect::<Vec<_>>()))))),
                "fromset" => Some(Val::Map(Map::from_set(x.clone(), attrs_of(arg)))),
                _ => None,
            },
            Val::Map(x) => match name {
                "clone" => Some(Val::Map(x.clone())),
                "asidset" => Some(Val::Set(x.as_id_set())),
                "intoidset" => Some(Val::Set(IdSet::from(x.clone()))),
                "fromset" => Some(Val::Map(Map::from_set(x.as_id_set(), attrs_of(arg)))),
                "filter" => {
                    let want = arg.as_str().unwrap_or("").to_string();
                    Some(Val::Map(x.filter(|attrs| attrs.iter().any(|t| *t.value() == want))))
                }
                _ => None,
            },
        }
    }));
    match r {
        Ok(None) => None,
        Ok(Some(v)) => Some(Ok(v)),
        Err(p) => Some(Err(format!("panic: {}", panic_msg(&p)))),
    }
}

fn emit_result(kev: &str, name: &str, arg: &Value, r: Result<Val, String>, uni: &Uni, out: &mut Out) -> std::io::Result<()> {
    match r {
        Ok(v) => out.emit(json!({"k": kev, "op": name, "arg": arg, "outcome": "ok", "obs": observe(&v, uni)})),
        Err(p) => out.emit(json!({"k": kev, "op": name, "arg": arg, "outcome": p, "obs": observe(&Val::Set(IdSet::new()), uni)})),
    }
}

fn run_pair(b: &Value, out: &mut Out) -> std::io::Result<()> {
    let kind = b["kind"].as_str().unwrap_or("set");
    let uni = uni_of(b);
    let a = build("a", kind, &b["a"], &uni, out)?;
    // unary conversions of A
    let mut unary: Vec<(&str, Value)> = vec![("clone", json!(0))];
    if kind == "set" {
        unary.push(("fromiter", json!(0)));
        unary.push(("fromset", json!(["a"])));
        unary.push(("fromset", json!(["b", "a"])));
    } else {
        unary.push(("asidset", json!(0)));
        unary.push(("intoidset", json!(0)));
        unary.push(("filter", json!("a")));
        unary.push(("filter", json!("b")));
        unary.push(("fromset", json!(["b"])));
    }
    for (name, arg) in &unary {
        if let Some(r) = unop(name, arg, &a) {
            emit_result("un", name, arg, r, &uni, out)?;
        }
    }
    if let Val::Map(m) = &a {
        // attributions over a few windows of every client
        for c in &uni.clients {
            for (lo, hi) in [(0u32, uni.u), (1, uni.u.max(2) - 1), (0, uni.u + 2), (uni.u, uni.u + 1)] {
                if lo >= hi {
                    continue;
                }
                let r = catch_unwind(AssertUnwindSafe(|| m.attributions(&BlockRange::new(ID::new(ClientID::new(*c), lo), hi - lo))));
                match r {
                    Ok(lst) => {
                        let l: Vec<Value> = lst
                            .iter()
                            .map(|ar| json!({"lo": ar.range.start, "hi": ar.range.end, "at": ar.attrs.iter().map(|t| Value::String(t.value().clone())).collect::<Vec<_>>()}))
                            .collect();
                        out.emit(json!({"k": "attr", "c": c, "lo": lo, "hi": hi, "outcome": "ok", "lst": l}))?;
                    }
                    Err(p) => out.emit(json!({"k": "attr", "c": c, "lo": lo, "hi": hi, "outcome": format!("panic: {}", panic_msg(&p)), "lst": []}))?,
                }
            }
        }
    }
    for bp in b["bs"].as_array().unwrap() {
        let bv = build("b", kind, bp, &uni, out)?;
        // comparison and subset queries
        let mut sub = Vec::new();
        if let (Val::Set(x), Val::Set(y)) = (&a, &bv) {
            for c in &uni.clients {
                let cid = ClientID::new(*c);
                let (ab, ba) = match (x.get(&cid), y.get(&cid)) {
                    (Some(p), Some(q)) => (p.subset_of(q) as i64, q.subset_of(p) as i64),
                    _ => (2, 2),
                };
                sub.push(json!({"c": c, "ab": ab, "ba": ba}));
            }
        }
        out.emit(json!({"k": "cmp", "eq": eqv(&a, &bv), "eqr": eqv(&bv, &a), "sub": sub}))?;
        let mut bins: Vec<(&str, Value)> = Vec::new();
        if kind == "set" {
            for n in ["merge", "mergew", "diff", "diffw", "isect", "isectw"] {
                bins.push((n, json!(0)));
            }
            for c in &uni.clients {
                bins.push(("insr", json!(c)));
            }
        } else {
            for n in ["mergew", "mergemany", "isectw", "diffmap", "diffset"] {
                bins.push((n, json!(0)));
            }
        }
        for (name, arg) in &bins {
            if let Some(r) = binop(name, arg, &a, &bv) {
                emit_result("bin", name, arg, r, &uni, out)?;
            }
        }
    }
    Ok(())
}

// ---------------------------------------------------------------------------------------------
// document family: delete sets computed from a document

fn ids_json(v: &[(u64, u32)]) -> Value {
    Value::Array(v.iter().map(|(c, k)| json!([c, k])).collect())
}

fn doc_obs(doc: &Doc) -> Value {
    let txn = doc.transact();
    let st = yx::obs::structural(&txn);
    let snap = txn.snapshot();
    let ds = rep_set(&snap.delete_set);
    // the delete set that travels with the full state
    let bytes = txn.encode_state_as_update_v1(&StateVector::default());
    let (dsu, dsu_ok) = match Update::decode_v1(&bytes) {
        Ok(u) => (rep_set(u.delete_set()), true),
        Err(_) => (json!([]), false),
    };
    let lst: Vec<(u64, u32)> = st.lst.get("t|").cloned().unwrap_or_default();
    json!({"ds": ds, "dsu": dsu, "dsu_ok": dsu_ok, "enc1": hex(&snap.delete_set.encode_v1()), "lst": ids_json(&lst),
           "dead": ids_json(&st.dead), "gone": ids_json(&st.gone)})
}

fn run_doc(b: &Value, out: &mut Out) -> std::io::Result<()> {
    let gc = b["gc"].as_bool().unwrap_or(true);
    let mk = |id: u64| {
        let mut o = Options::default();
        o.client_id = ClientID::new(id);
        o.skip_gc = !gc;
        let d = Doc::with_options(o);
        d.get_or_insert_text("t");
        d
    };
    let docs = [mk(1), mk(2)];
    let mut next_char = 0u32;
    for st in b["steps"].as_array().unwrap() {
        let a = st["a"].as_str().unwrap_or("");
        let r = st["r"].as_u64().unwrap_or(1) as usize;
        let doc = &docs[r - 1];
        let mut dst = json!([]);
        let res = catch_unwind(AssertUnwindSafe(|| {
            let text = doc.get_or_insert_text("t");
            match a {
                "ins" => {
                    let n = st["n"].as_u64().unwrap() as usize;
                    let s: String = (0..n)
                        .map(|_| {
                            next_char += 1;
                            (b'a' + (next_char % 26) as u8) as char
                        })
                        .collect();
                    let mut txn = doc.transact_mut();
                    text.insert(&mut txn, st["i"].as_u64().unwrap() as u32, &s);
                    dst = rep_set(txn.delete_set());
                }
                "emb" => {
                    // an embedded map with one entry: two units, the child is collected when the map is deleted
                    let mut txn = doc.transact_mut();
                    let m: MapPrelim = [("k", 1i64)].into_iter().collect();
                    let _ = text.insert_embed(&mut txn, st["i"].as_u64().unwrap() as u32, m);
                    dst = rep_set(txn.delete_set());
                }
                "del" => {
                    let mut txn = doc.transact_mut();
                    text.remove_range(&mut txn, st["i"].as_u64().unwrap() as u32, st["n"].as_u64().unwrap() as u32);
                    dst = rep_set(txn.delete_set());
                }
                "pass" => {
                    // hand the pen over: r receives everything the other replica has
                    let other = &docs[2 - r];
                    let upd = other.transact().encode_state_as_update_v1(&doc.transact().state_vector());
                    let mut txn = doc.transact_mut();
                    let _ = txn.apply_update(Update::decode_v1(&upd).unwrap());
                    dst = rep_set(txn.delete_set());
                }
                _ => panic!("harness: unknown doc step"),
            }
        }));
        let outcome = match res {
            Ok(()) => "ok".to_string(),
            Err(p) => format!("panic: {}", panic_msg(&p)),
        };
        out.emit(json!({"k": "doc", "r": r, "op": st, "outcome": outcome, "dst": dst, "obs": doc_obs(doc)}))?;
    }
    Ok(())
}

pub fn run(schedules: &str, outp: &str) -> std::io::Result<(usize, usize, usize)> {
    let text = std::fs::read_to_string(schedules)?;
    let mut w = std::io::BufWriter::new(std::fs::File::create(outp)?);
    std::panic::set_hook(Box::new(|_| {}));
    let mut nb = 0usize;
    let mut nev = 0usize;
    let mut fresh = 0usize;
    for line in text.lines() {
        if line.trim().is_empty() {
            continue;
        }
        let b: Value = serde_json::from_str(line).expect("schedule line");
        let fam = b["fam"].as_str().unwrap_or("seq").to_string();
        let uni = uni_of(&b);
        writeln!(w, "{}", json!({"bid": b["bid"], "k": "reset", "fam": fam, "kind": b["kind"].as_str().unwrap_or("set"), "probe": probe_json(&uni)}))?;
        let mut out = Out { w: &mut w, n: 0, nev: 0, fresh: 0 };
        match fam.as_str() {
            "seq" => run_seq(&b, &mut out)?,
            "pair" => run_pair(&b, &mut out)?,
            "doc" => run_doc(&b, &mut out)?,
            other => panic!("unknown family {}", other),
        }
        nev += out.nev;
        fresh += out.fresh;
        nb += 1;
    }
    w.flush()?;
    Ok((nb, nev, fresh))
}
