//! C19 -- second DRIVER of the SeqApi and Yata adapters: every operation is performed through the exported
//! C functions of `yffi` (compiled into this crate from /repo/yffi/src/lib.rs, the crate itself only builds
//! staticlib/cdylib), called with C values exactly as a C program would: NUL-terminated strings, `YInput`
//! cells, out-pointers, results released with the ydestroy family.  The trace events have exactly the format of
//! `seqapi.rs` / `yata.rs`, so that `Trace_SeqApi` / `Trace_Yata` validate the C-driven traces unchanged.
//!
//! A panic inside an `extern "C"` function cannot unwind (the process aborts).  Every behaviour is therefore
//! executed by a worker process that keeps a journal; the supervising process turns an abort into the outcome
//! `panic: ...` of the call that was running (see `supervise`).

#[path = "/repo/yffi/src/lib.rs"]
#[allow(warnings)]
pub mod yffi;

use serde_json::{json, Map as JMap, Value};
use std::cell::RefCell;
use std::collections::{BTreeMap, HashMap};
use std::ffi::{c_char, c_void, CStr, CString};
use std::io::Write;
use std::panic::{catch_unwind, AssertUnwindSafe};
use std::ptr::{null, null_mut};
use std::rc::Rc;
use std::sync::Mutex;
use yffi as y;
use yrs::updates::decoder::Decode;
use yrs::updates::encoder::Encode;
use yrs::{Any, ReadTxn, StateVector, Transact, Update};
use yx::codec::{self, Id};
use yx::obs::{self, RootKind, Tags};
use yx::seqapi::Sx;
use yx::util::Rng;
use yx::yata::{hash_str, mk_doc, panic_msg, Replica, World};

// ---------------------------------------------------------------------------------------------
// journal (abort supervision)

static JOURNAL: Mutex<Option<std::fs::File>> = Mutex::new(None);

fn jwrite(v: &Value) {
    if let Ok(mut g) = JOURNAL.try_lock() {
        if let Some(f) = g.as_mut() {
            let mut line = v.to_string();
            line.push('\n');
            let _ = f.write_all(line.as_bytes());
        }
    }
}
fn journal_open(path: &str) {
    if path.is_empty() {
        return;
    }
    let f = std::fs::OpenOptions::new().write(true).create(true).truncate(true).open(path).expect("journal");
    *JOURNAL.lock().unwrap() = Some(f);
}
fn journal_begin(path: &str, idx: usize, reset: &Value) {
    if path.is_empty() {
        return;
    }
    // truncate: the journal only ever describes the behaviour that is running
    {
        use std::io::{Seek, SeekFrom};
        let mut g = JOURNAL.lock().unwrap();
        if let Some(f) = g.as_mut() {
            let _ = f.set_len(0);
            let _ = f.seek(SeekFrom::Start(0));
        }
    }
    jwrite(&json!({"j": "begin", "idx": idx, "reset": reset}));
}
fn journal_ev(e: &Value) {
    jwrite(&json!({"j": "ev", "e": e}));
}
/// the event to report if the process dies before the next journal entry
fn journal_pre(e: &Value, replace_last: bool) {
    jwrite(&json!({"j": "pre", "e": e, "replace_last": replace_last}));
}
fn install_hook() {
    std::panic::set_hook(Box::new(|info| {
        let msg = if let Some(s) = info.payload().downcast_ref::<&str>() {
            s.to_string()
        } else if let Some(s) = info.payload().downcast_ref::<String>() {
            s.clone()
        } else {
            "?".into()
        };
        let loc = info.location().map(|l| format!("{}:{}", l.file().rsplit('/').next().unwrap_or(""), l.line())).unwrap_or_default();
        jwrite(&json!({"j": "panic", "msg": format!("{} at {}", msg, loc)}));
    }));
}

/// Runs `worker` sub-commands of this executable until every behaviour of the schedule file has been executed.
/// A worker that dies (abort inside a C call) leaves a journal from which the aborted behaviour's events are
/// reconstructed: the events completed so far plus the pending event with outcome `panic: ...`.
pub fn supervise(worker_cmd: &str, input: &str, out: &str, extra: &[String]) -> i32 {
    let _ = std::fs::File::create(out);
    let journal = format!("{}.journal", out);
    let exe = std::env::current_exe().expect("current exe");
    let mut start = 0usize;
    let (mut nb, mut nev, mut aborted) = (0u64, 0u64, 0u64);
    loop {
        let _ = std::fs::remove_file(&journal);
        let mut cmd = std::process::Command::new(&exe);
        cmd.arg(worker_cmd).args(["--in", input, "--out", out, "--journal", &journal, "--start", &start.to_string()]).args(extra);
        let o = match cmd.output() {
            Ok(o) => o,
            Err(e) => {
                eprintln!("yx_ffi: cannot spawn worker: {}", e);
                return 2;
            }
        };
        let so = String::from_utf8_lossy(&o.stdout).to_string();
        if let Some(v) = so.lines().last().and_then(|l| serde_json::from_str::<Value>(l).ok()) {
            nb += v["behaviours"].as_u64().unwrap_or(0);
            nev += v["events"].as_u64().unwrap_or(0);
        }
        if o.status.success() {
            break;
        }
        // abnormal end: reconstruct the running behaviour from the journal
        let text = std::fs::read_to_string(&journal).unwrap_or_default();
        let mut idx: Option<usize> = None;
        let mut reset = Value::Null;
        let mut evs: Vec<Value> = Vec::new();
        let mut pre: Option<(Value, bool)> = None;
        let mut msg = String::new();
        for ln in text.lines() {
            let Ok(v) = serde_json::from_str::<Value>(ln) else { continue };
            match v["j"].as_str() {
                Some("begin") => {
                    idx = v["idx"].as_u64().map(|x| x as usize);
                    reset = v["reset"].clone();
                }
                Some("ev") => {
                    evs.push(v["e"].clone());
                    pre = None;
                    msg.clear();
                }
                Some("pre") => {
                    pre = Some((v["e"].clone(), v["replace_last"].as_bool().unwrap_or(false)));
                    msg.clear();
                }
                Some("panic") => {
                    if msg.is_empty() {
                        msg = v["msg"].as_str().unwrap_or("").to_string()
                    }
                }
                _ => {}
            }
        }
        let Some(ix) = idx else {
            eprintln!("yx_ffi: worker died without a journal (status {:?}): {}", o.status, String::from_utf8_lossy(&o.stderr).chars().rev().take(1500).collect::<String>().chars().rev().collect::<String>());
            return 2;
        };
        if ix < start {
            eprintln!("yx_ffi: worker made no progress at behaviour {}", start);
            return 2;
        }
        if let Some((mut e, replace)) = pre {
            if replace {
                evs.pop();
            }
            let what = e["outcome"].as_str().unwrap_or("panic: ").to_string();
            e["outcome"] = json!(format!("{}{} [process aborted: a panic cannot unwind out of an extern \"C\" function]", what, msg));
            e["aborted"] = json!(true);
            evs.push(e);
        } else {
            eprintln!("yx_ffi: worker died outside a supervised call at behaviour {} ({:?}): {}", ix, o.status, msg);
            return 2;
        }
        let mut f = std::fs::OpenOptions::new().append(true).open(out).expect("trace");
        let _ = writeln!(f, "{}", reset);
        for e in &evs {
            let _ = writeln!(f, "{}", e);
        }
        nb += 1;
        nev += evs.len() as u64;
        aborted += 1;
        start = ix + 1;
        if aborted >= 400 {
            // every abort is a violation already; do not spend the budget on thousands of process restarts
            break;
        }
    }
    let _ = std::fs::remove_file(&journal);
    // a worker that died could not report its counts: count what is in the trace
    if let Ok(t) = std::fs::read_to_string(out) {
        nb = t.lines().filter(|l| l.starts_with("{\"bid\":")).count() as u64;
        nev = t.lines().count() as u64 - nb;
    }
    println!("{}", json!({"behaviours": nb, "events": nev, "aborted": aborted}));
    0
}

// ---------------------------------------------------------------------------------------------
// C values

/// A value as a C program sees it: what is put into a `YInput` cell and what is read back from a `YOutput` cell.
#[derive(Clone, Debug, PartialEq)]
pub enum LV {
    Null,
    Undef,
    Bool(bool),
    Num(f64),
    Int(i64),
    Str(String),
    Buf(Vec<u8>),
    Arr(Vec<LV>),
    /// sorted by key
    Map(Vec<(String, LV)>),
    /// shared type: (Y_* tag, branch token)
    Type(i8, String),
    Other(i8),
}

fn canon(v: &LV) -> String {
    match v {
        LV::Null => "null".into(),
        LV::Undef => "undefined".into(),
        LV::Bool(b) => b.to_string(),
        LV::Num(n) => {
            if n.fract() == 0.0 && n.abs() < 9.0e15 {
                format!("{}", *n as i64)
            } else {
                format!("{}", n)
            }
        }
        LV::Int(i) => format!("L{}", i),
        LV::Str(s) => Value::String(s.clone()).to_string(),
        LV::Buf(b) => format!("B{:?}", b),
        LV::Arr(a) => format!("[{}]", a.iter().map(canon).collect::<Vec<_>>().join(",")),
        LV::Map(m) => format!("{{{}}}", m.iter().map(|(k, v)| format!("{}:{}", Value::String(k.clone()), canon(v))).collect::<Vec<_>>().join(",")),
        LV::Type(_, t) => t.clone(),
        LV::Other(t) => format!("other{}", t),
    }
}

/// the tag the Rust dump uses: numbers "v<n>", shared types their branch id, anything else "?<canonical text>"
pub fn tag_of(v: &LV) -> String {
    match v {
        LV::Num(n) => format!("v{}", *n as i64),
        LV::Type(_, t) => t.clone(),
        other => format!("?{}", canon(other)),
    }
}

/// formatting attribute / xml attribute values as the Rust dump renders them
pub fn attr_str(v: &LV) -> String {
    match v {
        LV::Str(s) => s.clone(),
        LV::Bool(b) => b.to_string(),
        LV::Null => "null".into(),
        LV::Num(n) => format!("{}", n),
        other => canon(other),
    }
}

pub fn lv_to_any(v: &LV) -> Any {
    match v {
        LV::Null => Any::Null,
        LV::Undef => Any::Undefined,
        LV::Bool(b) => Any::Bool(*b),
        LV::Num(n) => Any::Number(*n),
        LV::Int(i) => Any::BigInt(*i),
        LV::Str(s) => Any::String(s.as_str().into()),
        LV::Buf(b) => Any::Buffer(b.as_slice().into()),
        LV::Arr(a) => Any::Array(a.iter().map(lv_to_any).collect::<Vec<_>>().into()),
        LV::Map(m) => Any::Map(std::sync::Arc::new(m.iter().map(|(k, v)| (k.clone(), lv_to_any(v))).collect::<HashMap<String, Any>>())),
        LV::Type(_, _) | LV::Other(_) => Any::Undefined,
    }
}

pub fn any_to_lv(a: &Any) -> LV {
    match a {
        Any::Null => LV::Null,
        Any::Undefined => LV::Undef,
        Any::Bool(b) => LV::Bool(*b),
        Any::Number(n) => LV::Num(*n),
        Any::BigInt(i) => LV::Int(*i),
        Any::String(s) => LV::Str(s.to_string()),
        Any::Buffer(b) => LV::Buf(b.to_vec()),
        Any::Array(a) => LV::Arr(a.iter().map(any_to_lv).collect()),
        Any::Map(m) => {
            let mut v: Vec<(String, LV)> = m.iter().map(|(k, v)| (k.clone(), any_to_lv(v))).collect();
            v.sort_by(|a, b| a.0.cmp(&b.0));
            LV::Map(v)
        }
    }
}

/// what a C program passes in: plain values, a JSON text, or the initial content of a nested shared type
#[derive(Clone, Debug)]
pub enum CIn {
    V(LV),
    Json(String),
    YArray(Vec<CIn>),
    YMap(Vec<(String, CIn)>),
    YText(String),
    #[allow(dead_code)]
    YXmlElem(String),
    #[allow(dead_code)]
    YXmlText(String),
}

/// owner of everything the input cells point to (the C program's stack / heap for the duration of a call)
#[derive(Default)]
pub struct Arena {
    strs: Vec<CString>,
    cells: Vec<Vec<y::YInput>>,
    keys: Vec<Vec<*mut c_char>>,
    bufs: Vec<Vec<u8>>,
}

impl Arena {
    pub fn s(&mut self, s: &str) -> *mut c_char {
        let c = CString::new(s).expect("no NUL in test strings");
        let p = c.as_ptr() as *mut c_char;
        self.strs.push(c);
        p
    }
    fn cells(&mut self, v: Vec<y::YInput>) -> *mut y::YInput {
        let mut v = v;
        if v.is_empty() {
            v.reserve(1);
        }
        let p = v.as_mut_ptr();
        self.cells.push(v);
        p
    }
    fn keys(&mut self, v: Vec<*mut c_char>) -> *mut *mut c_char {
        let mut v = v;
        if v.is_empty() {
            v.reserve(1);
        }
        let p = v.as_mut_ptr();
        self.keys.push(v);
        p
    }
    pub unsafe fn lv(&mut self, v: &LV) -> y::YInput {
        match v {
            LV::Null => y::yinput_null(),
            LV::Undef => y::yinput_undefined(),
            LV::Bool(b) => y::yinput_bool(if *b { y::Y_TRUE } else { y::Y_FALSE }),
            LV::Num(n) => y::yinput_float(*n),
            LV::Int(i) => y::yinput_long(*i),
            LV::Str(s) => {
                let p = self.s(s);
                y::yinput_string(p)
            }
            LV::Buf(b) => {
                let mut b = b.clone();
                if b.is_empty() {
                    b.reserve(1);
                }
                let p = b.as_ptr() as *const c_char;
                let n = b.len() as u32;
                self.bufs.push(b);
                y::yinput_binary(p, n)
            }
            LV::Arr(a) => {
                let cells: Vec<y::YInput> = a.iter().map(|x| self.lv(x)).collect();
                let n = cells.len() as u32;
                let p = self.cells(cells);
                y::yinput_json_array(p, n)
            }
            LV::Map(m) => {
                let ks: Vec<*mut c_char> = m.iter().map(|(k, _)| self.s(k)).collect();
                let cells: Vec<y::YInput> = m.iter().map(|(_, x)| self.lv(x)).collect();
                let n = cells.len() as u32;
                let kp = self.keys(ks);
                let vp = self.cells(cells);
                y::yinput_json_map(kp, vp, n)
            }
            LV::Type(_, _) | LV::Other(_) => y::yinput_undefined(),
        }
    }
    pub unsafe fn input(&mut self, v: &CIn) -> y::YInput {
        match v {
            CIn::V(l) => self.lv(l),
            CIn::Json(t) => {
                let p = self.s(t);
                y::yinput_json(p)
            }
            CIn::YArray(items) => {
                let cells: Vec<y::YInput> = items.iter().map(|x| self.input(x)).collect();
                let n = cells.len() as u32;
                let p = self.cells(cells);
                y::yinput_yarray(p, n)
            }
            CIn::YMap(m) => {
                let ks: Vec<*mut c_char> = m.iter().map(|(k, _)| self.s(k)).collect();
                let cells: Vec<y::YInput> = m.iter().map(|(_, x)| self.input(x)).collect();
                let n = cells.len() as u32;
                let kp = self.keys(ks);
                let vp = self.cells(cells);
                y::yinput_ymap(kp, vp, n)
            }
            CIn::YText(s) => {
                let p = self.s(s);
                y::yinput_ytext(p)
            }
            CIn::YXmlElem(s) => {
                let p = self.s(s);
                y::yinput_yxmlelem(p)
            }
            CIn::YXmlText(s) => {
                let p = self.s(s);
                y::yinput_yxmltext(p)
            }
        }
    }
}

/// copies a string returned by the C API and releases it with `ystring_destroy`
pub unsafe fn take_str(p: *mut c_char) -> Option<String> {
    if p.is_null() {
        return None;
    }
    let s = CStr::from_ptr(p).to_string_lossy().to_string();
    y::ystring_destroy(p);
    Some(s)
}

/// copies a binary returned by the C API and releases it with `ybinary_destroy`
pub unsafe fn take_bin(p: *mut c_char, len: u32) -> Option<Vec<u8>> {
    if p.is_null() {
        return None;
    }
    let v = std::slice::from_raw_parts(p as *const u8, len as usize).to_vec();
    y::ybinary_destroy(p, len);
    Some(v)
}

/// branch token through `ybranch_id`: "<client>:<clock>" for nested types, the root name otherwise
pub unsafe fn tok(b: *const y::Branch) -> String {
    if b.is_null() {
        return String::new();
    }
    let id = y::ybranch_id(b);
    if id.client_or_len >= 0 {
        format!("{}:{}", id.client_or_len, id.variant.clock)
    } else {
        let n = (-id.client_or_len) as usize;
        String::from_utf8_lossy(std::slice::from_raw_parts(id.variant.name, n)).to_string()
    }
}

/// shared-type pointer stored in an output cell (through the `youtput_read_y*` readers)
pub unsafe fn out_branch(o: *const y::YOutput) -> *mut y::Branch {
    match (*o).tag {
        y::Y_ARRAY => y::youtput_read_yarray(o),
        y::Y_MAP => y::youtput_read_ymap(o),
        y::Y_TEXT => y::youtput_read_ytext(o),
        y::Y_XML_ELEM => y::youtput_read_yxmlelem(o),
        y::Y_XML_TEXT => y::youtput_read_yxmltext(o),
        y::Y_WEAK_LINK => y::youtput_read_yweak(o),
        _ => null_mut(),
    }
}

/// reads an output cell through the `youtput_read_*` functions (does not release it)
pub unsafe fn read_out(o: *const y::YOutput) -> LV {
    let tag = (*o).tag;
    let len = (*o).len as usize;
    match tag {
        y::Y_JSON_NULL => LV::Null,
        y::Y_JSON_UNDEF => LV::Undef,
        y::Y_JSON_BOOL => {
            let p = y::youtput_read_bool(o);
            if p.is_null() { LV::Other(tag) } else { LV::Bool(*p != 0) }
        }
        y::Y_JSON_NUM => {
            let p = y::youtput_read_float(o);
            if p.is_null() { LV::Other(tag) } else { LV::Num(*p) }
        }
        y::Y_JSON_INT => {
            let p = y::youtput_read_long(o);
            if p.is_null() { LV::Other(tag) } else { LV::Int(*p) }
        }
        y::Y_JSON_STR => {
            let p = y::youtput_read_string(o);
            if p.is_null() { LV::Other(tag) } else { LV::Str(CStr::from_ptr(p).to_string_lossy().to_string()) }
        }
        y::Y_JSON_BUF => {
            let p = y::youtput_read_binary(o);
            if p.is_null() { LV::Other(tag) } else { LV::Buf(std::slice::from_raw_parts(p as *const u8, len).to_vec()) }
        }
        y::Y_JSON_ARR => {
            let p = y::youtput_read_json_array(o);
            if p.is_null() {
                LV::Other(tag)
            } else {
                LV::Arr((0..len).map(|i| read_out(p.add(i))).collect())
            }
        }
        y::Y_JSON_MAP => {
            let p = y::youtput_read_json_map(o);
            if p.is_null() {
                LV::Other(tag)
            } else {
                let mut v: Vec<(String, LV)> = (0..len)
                    .map(|i| {
                        let e = &*p.add(i);
                        (CStr::from_ptr(e.key).to_string_lossy().to_string(), read_out(e.value))
                    })
                    .collect();
                v.sort_by(|a, b| a.0.cmp(&b.0));
                LV::Map(v)
            }
        }
        y::Y_ARRAY | y::Y_MAP | y::Y_TEXT | y::Y_XML_ELEM | y::Y_XML_TEXT | y::Y_WEAK_LINK => {
            let b = out_branch(o);
            if b.is_null() { LV::Other(tag) } else { LV::Type(tag, tok(b)) }
        }
        other => LV::Other(other),
    }
}

/// reads and releases a heap-allocated output cell
pub unsafe fn take_out(o: *mut y::YOutput) -> Option<(LV, *mut y::Branch)> {
    if o.is_null() {
        return None;
    }
    let v = read_out(o);
    let b = out_branch(o);
    y::youtput_destroy(o);
    Some((v, b))
}

fn attrs_input(v: &Value) -> Option<LV> {
    // same mapping as seqapi.rs `to_attrs`: "null" -> null, "true" -> true, anything else a string
    if v.is_null() {
        return None;
    }
    let mut m: Vec<(String, LV)> = Vec::new();
    for p in v.as_array().cloned().unwrap_or_default() {
        let k = p[0].as_str().unwrap_or("").to_string();
        let val = match p[1].as_str().unwrap_or("") {
            "null" => LV::Null,
            "true" => LV::Bool(true),
            s => LV::Str(s.to_string()),
        };
        m.push((k, val));
    }
    Some(LV::Map(m))
}

/// abstract content of an update: units [id, origin, right origin, kind, text] + delete set (sorted)
pub fn abstract_update(bytes: Option<&[u8]>) -> Value {
    let Some(bytes) = bytes else {
        return json!({"units": [], "ds": [], "err": "null"});
    };
    match codec::decode_update_v1(bytes) {
        Ok(w) => {
            let mut us: Vec<(Id, Value)> = w
                .units()
                .iter()
                .map(|u| {
                    let txt = if matches!(u.kind, "str" | "fmt" | "type") { format!("{}{}", u.aux, u.val) } else { String::new() };
                    (u.id, json!([obs::idv(u.id), obs::idv(u.origin.unwrap_or((0, 0))), obs::idv(u.right_origin.unwrap_or((0, 0))), u.kind, txt]))
                })
                .collect();
            us.sort_by(|a, b| a.0.cmp(&b.0));
            // Formatting marks that one call creates next to each other (negations of the current attributes, the new attributes)
            // are emitted in `HashMap` iteration order, which differs between two documents: inside a chain of consecutive
            // format marks (each the origin of the next, same right origin) the mark texts are sorted.
            let mut i = 0;
            while i < us.len() {
                let mut j = i;
                while j + 1 < us.len()
                    && us[j].1[3] == "fmt"
                    && us[j + 1].1[3] == "fmt"
                    && us[j + 1].0 == (us[j].0 .0, us[j].0 .1 + 1)
                    && us[j + 1].1[1] == us[j].1[0]
                    && us[j + 1].1[2] == us[j].1[2]
                {
                    j += 1;
                }
                if j > i {
                    let mut txts: Vec<Value> = (i..=j).map(|k| us[k].1[4].clone()).collect();
                    txts.sort_by(|a, b| a.as_str().cmp(&b.as_str()));
                    for (k, t) in (i..=j).zip(txts) {
                        us[k].1[4] = t;
                    }
                }
                i = j + 1;
            }
            json!({"units": us.into_iter().map(|x| x.1).collect::<Vec<_>>(), "ds": obs::idsv(&w.del_units()), "err": ""})
        }
        Err(e) => json!({"units": [], "ds": [], "err": e.0}),
    }
}

// ---------------------------------------------------------------------------------------------
// SeqApi through C

const POOLS: [u32; 4] = [0x61, 0x00E0, 0x4E00, 0x1F600];

fn class_ix(c: &str) -> usize {
    match c {
        "a" => 0,
        "e" => 1,
        "u" => 2,
        _ => 3,
    }
}

pub struct Cx {
    pub doc: *mut y::Doc,
    pub rt: *mut y::Branch,
    pub ra: *mut y::Branch,
    pub rm: *mut y::Branch,
    pub rx: *mut y::Branch,
    next: [u32; 4],
    next_val: i64,
    /// canonical JSON text of a primitive value -> its tag (to map `*_get_json` results back to elements)
    jreg: HashMap<String, String>,
}

fn cell(tag: &str, w8: usize, w16: usize, kind: &str, r: &str) -> Value {
    json!({"tag": tag, "w8": w8, "w16": w16, "kind": kind, "ref": r})
}

fn jcanon(a: &Any) -> String {
    match serde_json::to_string(a).ok().and_then(|s| serde_json::from_str::<Value>(&s).ok()) {
        Some(v) => v.to_string(),
        None => "?".into(),
    }
}

impl Cx {
    pub unsafe fn new(cfg: &Value) -> Cx {
        // defaults as a C program obtains them, then the fields of interest
        let mut o = y::yoptions();
        y::ystring_destroy(o.guid as *mut c_char);
        o.guid = null();
        o.id = 1;
        o.flags &= !(y::Y_OFFSET_UTF16 | y::Y_SKIP_GC);
        if cfg["offset"].as_str() != Some("bytes") {
            o.flags |= y::Y_OFFSET_UTF16;
        }
        if !cfg["gc"].as_bool().unwrap_or(true) {
            o.flags |= y::Y_SKIP_GC;
        }
        let doc = y::ydoc_new_with_options(o);
        let mut a = Arena::default();
        let rt = y::ytext(doc, a.s("t"));
        let ra = y::yarray(doc, a.s("a"));
        let rm = y::ymap(doc, a.s("m"));
        let rx = y::yxmlfragment(doc, a.s("x"));
        Cx { doc, rt, ra, rm, rx, next: POOLS, next_val: 1000, jreg: HashMap::new() }
    }

    pub unsafe fn destroy(&mut self) {
        y::ydoc_destroy(self.doc);
        self.doc = null_mut();
    }

    fn chars(&mut self, classes: &Value) -> (String, Vec<Value>) {
        let mut s = String::new();
        let mut cells = Vec::new();
        for c in classes.as_array().cloned().unwrap_or_default() {
            let ix = class_ix(c.as_str().unwrap_or("a"));
            let ch = char::from_u32(self.next[ix]).unwrap();
            self.next[ix] += 1;
            s.push(ch);
            cells.push(cell(&ch.to_string(), ch.len_utf8(), ch.len_utf16(), "ch", ""));
        }
        (s, cells)
    }

    /// next value: the input as a C program builds it, the value expected when it is read back, its tag
    fn val(&mut self, vk: &str) -> (CIn, String) {
        self.next_val += 1;
        let n = self.next_val;
        let f = n as f64;
        let (cin, expect): (CIn, LV) = match vk {
            "long" => (CIn::V(LV::Int(n)), LV::Int(n)),
            "str" => {
                let v = LV::Str(format!("s\u{e9}{}\u{1F600}\u{4E2D}", n));
                (CIn::V(v.clone()), v)
            }
            "bool" => (CIn::V(LV::Bool(true)), LV::Bool(true)),
            "null" => (CIn::V(LV::Null), LV::Null),
            "buf" => {
                let v = LV::Buf(vec![(n & 0xff) as u8, 0, ((n >> 8) & 0xff) as u8, 255]);
                (CIn::V(v.clone()), v)
            }
            "jarr" => {
                let v = LV::Arr(vec![
                    LV::Num(f), LV::Null, LV::Bool(false), LV::Str("\u{e4}\u{1F600}".into()), LV::Undef, LV::Int(-n), LV::Buf(vec![1, 0, 2]),
                    LV::Arr(vec![LV::Num(1.5), LV::Arr(vec![])]), LV::Map(vec![("q".into(), LV::Num(2.0))]),
                ]);
                (CIn::V(v.clone()), v)
            }
            "jmap" => {
                let v = LV::Map(vec![
                    ("a".into(), LV::Num(f)), ("b".into(), LV::Arr(vec![LV::Bool(true), LV::Null])), ("m".into(), LV::Map(vec![])),
                    ("\u{fc}".into(), LV::Str("\u{df}".into())),
                ]);
                (CIn::V(v.clone()), v)
            }
            "json" => {
                let t = format!("{{\"n\":{},\"l\":[1,2.5,\"\u{e9}\",null,true,{{\"z\":[]}}]}}", n);
                // the stored value is whatever the Rust API's own JSON reader makes of the text
                let a: Any = serde_json::from_str(&t).expect("json");
                (CIn::Json(t), any_to_lv(&a))
            }
            _ => (CIn::V(LV::Num(f)), LV::Num(f)),
        };
        let tag = tag_of(&expect);
        self.jreg.insert(jcanon(&lv_to_any(&expect)), tag.clone());
        (cin, tag)
    }

    fn prelim(&mut self, kind: &str) -> (CIn, Vec<Value>) {
        match kind {
            "A" => {
                let (a, ta) = self.val("");
                let (b, tb) = self.val("");
                (CIn::YArray(vec![a, b]), vec![json!({"kind": "array", "name": "", "map": [], "seq": [cell(&ta, 1, 1, "val", ""), cell(&tb, 1, 1, "val", "")]})])
            }
            "M" => {
                let (a, ta) = self.val("");
                (CIn::YMap(vec![("k1".to_string(), a)]), vec![json!({"kind": "map", "name": "", "seq": [], "map": [["k1", cell(&ta, 1, 1, "val", "")]]})])
            }
            _ => {
                let (s, cells) = self.chars(&json!(["a", "u"]));
                (CIn::YText(s), vec![json!({"kind": "text", "name": "", "map": [], "seq": cells})])
            }
        }
    }

    unsafe fn nav(&self, txn: *mut y::Transaction, path: &[String]) -> Result<*mut y::Branch, String> {
        let mut cur = match path.get(0).map(|s| s.as_str()) {
            Some("t") => self.rt,
            Some("a") => self.ra,
            Some("m") => self.rm,
            Some("x") => self.rx,
            _ => return Err("unknown root".into()),
        };
        let mut ar = Arena::default();
        for seg in &path[1..] {
            let kind = y::ytype_kind(cur);
            let o: *mut y::YOutput = if let Some(i) = seg.strip_prefix('#') {
                let i: u32 = i.parse().map_err(|_| "bad index")?;
                match kind {
                    y::Y_ARRAY => y::yarray_get(cur, txn, i),
                    y::Y_XML_FRAG | y::Y_XML_ELEM => y::yxmlelem_get(cur, txn, i) as *mut y::YOutput,
                    _ => return Err("index into non-sequence".into()),
                }
            } else {
                match kind {
                    y::Y_MAP => y::ymap_get(cur, txn, ar.s(seg)),
                    _ => return Err("key into non-map".into()),
                }
            };
            match take_out(o) {
                None => return Err("no element".into()),
                Some((_, b)) if b.is_null() => return Err("not a shared type".into()),
                Some((_, b)) => cur = b,
            }
        }
        Ok(cur)
    }

    /// normalised call record (identical to seqapi.rs)
    fn ncall(c: &Value, ops: Value) -> Value {
        let path: Vec<String> = c["p"].as_array().map(|v| v.iter().map(|x| x.as_str().unwrap().to_string()).collect()).unwrap_or_default();
        let attrs_of = |v: &Value| if v.is_null() { json!([]) } else { v.clone() };
        let nav: Vec<Value> = path
            .iter()
            .skip(1)
            .map(|seg| match seg.strip_prefix('#') {
                Some(i) => json!([i.parse::<u32>().unwrap_or(0) + 1, ""]),
                None => json!([0, seg]),
            })
            .collect();
        json!({
            "op": c["op"].as_str().unwrap_or(""), "root": path.get(0).cloned().unwrap_or_default(), "nav": nav,
            "off": c["off"].as_u64().unwrap_or(0), "len": c["len"].as_u64().unwrap_or(0), "i": c["i"].as_u64().unwrap_or(0),
            "n": c["n"].as_u64().unwrap_or(1), "key": c["key"].as_str().or(c["k"].as_str()).unwrap_or(""), "kind": c["kind"].as_str().unwrap_or("u"),
            "mode": c["mode"].as_str().unwrap_or(""), "hasattrs": !c["attrs"].is_null(), "attrs": attrs_of(&c["attrs"]),
            "v": c["v"].as_str().unwrap_or(""), "ops": ops,
        })
    }

    fn skeleton(c: &Value, outcome: &str) -> Value {
        json!({"k": "call", "callstr": c.to_string(), "ncall": Self::ncall(c, json!([])), "tok": "", "outcome": outcome, "new": [], "nested": [],
               "ret": {"updated": false, "old": "", "tok": ""}, "dump": {}, "after": {}, "committed": false, "ccalls": [], "aborted": false,
               "twin": {"c": {"st": {"units": [], "ds": [], "err": ""}, "sta": {"units": [], "ds": [], "err": ""}, "outcome": "", "xml": [], "x": {}},
                        "r": {"st": {"units": [], "ds": [], "err": ""}, "sta": {"units": [], "ds": [], "err": ""}, "outcome": "", "xml": [], "x": {}},
                        // a SECOND natively driven document: where the two native executions disagree the library itself is not
                        // deterministic for this program (hash order), and "the" native state the C side must equal does not exist
                        "r2": {"st": {"units": [], "ds": [], "err": ""}, "sta": {"units": [], "ds": [], "err": ""}}}})
    }

    /// one abstract call performed through the C API
    pub unsafe fn call(&mut self, txn: *mut y::Transaction, c: &Value) -> Value {
        let op = c["op"].as_str().unwrap_or("").to_string();
        let path: Vec<String> = c["p"].as_array().map(|v| v.iter().map(|x| x.as_str().unwrap().to_string()).collect()).unwrap_or_default();
        let vk = c["vk"].as_str().unwrap_or("").to_string();
        let mut new_cells: Vec<Value> = Vec::new();
        let mut nested: Vec<Value> = Vec::new();
        let mut ret = json!({});
        let mut target_tok = String::new();
        let mut ccalls: Vec<String> = Vec::new();
        let mut ar = Arena::default();
        let res = catch_unwind(AssertUnwindSafe(|| -> Result<(), String> {
            let target = self.nav(txn, &path)?;
            target_tok = tok(target);
            let tkind = y::ytype_kind(target);
            let off = c["off"].as_u64().unwrap_or(0) as u32;
            let len = c["len"].as_u64().unwrap_or(0) as u32;
            let i = c["i"].as_u64().unwrap_or(0) as u32;
            let n = c["n"].as_u64().unwrap_or(1) as u32;
            let key = c["key"].as_str().unwrap_or("").to_string();
            let kind = c["kind"].as_str().unwrap_or("u").to_string();
            let is_text = tkind == y::Y_TEXT || tkind == y::Y_XML_TEXT;
            let xt = tkind == y::Y_XML_TEXT;
            // formatting attributes: a JSON-map input cell
            let attrs_lv = attrs_input(&c["attrs"]);
            let mut attr_cell: Vec<y::YInput> = Vec::new();
            if let Some(a) = &attrs_lv {
                attr_cell.push(ar.lv(a));
            }
            let attrs_ptr: *const y::YInput = if attr_cell.is_empty() { null() } else { attr_cell.as_ptr() };
            match op.as_str() {
                "tins" | "tpush" => {
                    if !is_text {
                        return Err("not a text".into());
                    }
                    let (s, cells) = self.chars(&c["s"]);
                    new_cells = cells;
                    let at = if op == "tpush" {
                        // no push in the C API: a C program inserts at the current length
                        ccalls.push(if xt { "yxmltext_len" } else { "ytext_len" }.into());
                        if xt { y::yxmltext_len(target, txn) } else { y::ytext_len(target, txn) }
                    } else {
                        off
                    };
                    let p = ar.s(&s);
                    if xt {
                        ccalls.push(format!("yxmltext_insert({}, {:?}, attrs={})", at, s, !attrs_ptr.is_null()));
                        y::yxmltext_insert(target, txn, at, p, attrs_ptr);
                    } else {
                        ccalls.push(format!("ytext_insert({}, {:?}, attrs={})", at, s, !attrs_ptr.is_null()));
                        y::ytext_insert(target, txn, at, p, attrs_ptr);
                    }
                }
                "temb" => {
                    if !is_text {
                        return Err("not a text".into());
                    }
                    let (v, tag) = self.val(&vk);
                    new_cells = vec![cell(&tag, 1, 1, "embed", "")];
                    let content = ar.input(&v);
                    if xt {
                        ccalls.push(format!("yxmltext_insert_embed({}, {}, attrs={})", off, tag, !attrs_ptr.is_null()));
                        y::yxmltext_insert_embed(target, txn, off, &content, attrs_ptr);
                    } else {
                        ccalls.push(format!("ytext_insert_embed({}, {}, attrs={})", off, tag, !attrs_ptr.is_null()));
                        y::ytext_insert_embed(target, txn, off, &content, attrs_ptr);
                    }
                }
                "tfmt" => {
                    if !is_text {
                        return Err("not a text".into());
                    }
                    if attrs_ptr.is_null() {
                        return Err("format without attributes".into());
                    }
                    if xt {
                        ccalls.push(format!("yxmltext_format({}, {})", off, len));
                        y::yxmltext_format(target, txn, off, len, attrs_ptr);
                    } else {
                        ccalls.push(format!("ytext_format({}, {})", off, len));
                        y::ytext_format(target, txn, off, len, attrs_ptr);
                    }
                }
                "tdel" => {
                    if !is_text {
                        return Err("not a text".into());
                    }
                    if xt {
                        ccalls.push(format!("yxmltext_remove_range({}, {})", off, len));
                        y::yxmltext_remove_range(target, txn, off, len);
                    } else {
                        ccalls.push(format!("ytext_remove_range({}, {})", off, len));
                        y::ytext_remove_range(target, txn, off, len);
                    }
                }
                "tdelta" => {
                    if tkind != y::Y_TEXT {
                        return Err("not a text".into());
                    }
                    let mut ops_out = Vec::new();
                    let mut delta: Vec<y::YDeltaIn> = Vec::new();
                    // cells referenced by the delta entries must stay where they are
                    let mut held: Vec<Box<y::YInput>> = Vec::new();
                    for o in c["ops"].as_array().cloned().unwrap_or_default() {
                        let has = !o["attrs"].is_null();
                        let ap: *const y::YInput = match attrs_input(&o["attrs"]) {
                            Some(a) => {
                                held.push(Box::new(ar.lv(&a)));
                                &**held.last().unwrap() as *const y::YInput
                            }
                            None => null(),
                        };
                        let oattrs = if has { o["attrs"].clone() } else { json!([]) };
                        match o["op"].as_str().unwrap_or("") {
                            "r" => {
                                delta.push(y::ydelta_input_retain(o["n"].as_u64().unwrap_or(0) as u32, ap));
                                ops_out.push(json!({"op": "r", "n": o["n"], "cells": [], "hasattrs": has, "attrs": oattrs}));
                            }
                            "d" => {
                                delta.push(y::ydelta_input_delete(o["n"].as_u64().unwrap_or(0) as u32));
                                ops_out.push(json!({"op": "d", "n": o["n"], "cells": [], "hasattrs": false, "attrs": []}));
                            }
                            _ => {
                                let (s, cells) = self.chars(&o["s"]);
                                held.push(Box::new(ar.lv(&LV::Str(s))));
                                let dp = &**held.last().unwrap() as *const y::YInput;
                                delta.push(y::ydelta_input_insert(dp, ap));
                                ops_out.push(json!({"op": "i", "n": 0, "cells": cells, "hasattrs": has, "attrs": oattrs}));
                            }
                        }
                    }
                    ret = json!({"ops": ops_out});
                    ccalls.push(format!("ytext_insert_delta(len={})", delta.len()));
                    y::ytext_insert_delta(target, txn, delta.as_mut_ptr(), delta.len() as u32);
                }
                "amix" => {
                    // ONE yarray_insert_range call mixing JSON-like cells and a nested shared-type cell
                    if tkind != y::Y_ARRAY {
                        return Err("not an array".into());
                    }
                    let (v1, t1) = self.val("");
                    let (v2, t2) = self.val("");
                    let (p, mut nd) = self.prelim("M");
                    let (v3, t3) = self.val("");
                    let items: Vec<y::YInput> = vec![ar.input(&v1), ar.input(&v2), ar.input(&p), ar.input(&v3)];
                    ccalls.push(format!("yarray_insert_range({}, [json, json, prelim M, json])", i));
                    y::yarray_insert_range(target, txn, i, items.as_ptr(), items.len() as u32);
                    // the nested map is whichever element of the inserted range is a shared type
                    let mut t = String::new();
                    for j in 0..4 {
                        ccalls.push(format!("yarray_get({})", i + j));
                        if let Some((LV::Type(_, tt), _)) = take_out(y::yarray_get(target, txn, i + j)) {
                            t = tt;
                            break;
                        }
                    }
                    nd[0]["tok"] = json!(t);
                    new_cells.push(cell(&t1, 1, 1, "val", ""));
                    new_cells.push(cell(&t2, 1, 1, "val", ""));
                    new_cells.push(cell(&t, 1, 1, "type", &t));
                    new_cells.push(cell(&t3, 1, 1, "val", ""));
                    nested = nd;
                }
                "ains" | "apushb" | "apushf" | "arange" => {
                    if tkind != y::Y_ARRAY {
                        return Err("not an array".into());
                    }
                    let at = match op.as_str() {
                        "apushb" => {
                            ccalls.push("yarray_len".into());
                            y::yarray_len(target)
                        }
                        "apushf" => 0,
                        _ => i,
                    };
                    if op == "arange" {
                        let mut items: Vec<y::YInput> = Vec::new();
                        for j in 0..n {
                            // the requested cell kind for the first value, plain numbers after it
                            let (v, t) = self.val(if j == 0 { &vk } else { "" });
                            items.push(ar.input(&v));
                            new_cells.push(cell(&t, 1, 1, "val", ""));
                        }
                        ccalls.push(format!("yarray_insert_range({}, n={})", at, items.len()));
                        y::yarray_insert_range(target, txn, at, items.as_ptr(), items.len() as u32);
                    } else if kind == "u" {
                        let (v, t) = self.val(&vk);
                        new_cells.push(cell(&t, 1, 1, "val", ""));
                        let item = ar.input(&v);
                        ccalls.push(format!("yarray_insert_range({}, [{}])", at, t));
                        y::yarray_insert_range(target, txn, at, &item, 1);
                    } else {
                        let (p, mut nd) = self.prelim(&kind);
                        let item = ar.input(&p);
                        ccalls.push(format!("yarray_insert_range({}, [prelim {}])", at, kind));
                        y::yarray_insert_range(target, txn, at, &item, 1);
                        // the C function returns nothing: the new shared type is read back
                        ccalls.push(format!("yarray_get({})", at));
                        let t = match take_out(y::yarray_get(target, txn, at)) {
                            Some((LV::Type(_, t), _)) => t,
                            _ => String::new(),
                        };
                        nd[0]["tok"] = json!(t);
                        new_cells.push(cell(&t, 1, 1, "type", &t));
                        nested = nd;
                    }
                }
                "adel" | "adelr" => {
                    if tkind != y::Y_ARRAY {
                        return Err("not an array".into());
                    }
                    let k = if op == "adel" { 1 } else { n };
                    ccalls.push(format!("yarray_remove_range({}, {})", i, k));
                    y::yarray_remove_range(target, txn, i, k);
                }
                "mset" | "mrem" | "mclear" => {
                    if tkind != y::Y_MAP {
                        return Err("not a map".into());
                    }
                    let kp = ar.s(&key);
                    match op.as_str() {
                        "mset" => {
                            if kind == "u" {
                                let (v, t) = self.val(&vk);
                                new_cells.push(cell(&t, 1, 1, "val", ""));
                                let item = ar.input(&v);
                                ccalls.push(format!("ymap_insert({}, {})", key, t));
                                y::ymap_insert(target, txn, kp, &item);
                            } else {
                                let (p, mut nd) = self.prelim(&kind);
                                let item = ar.input(&p);
                                ccalls.push(format!("ymap_insert({}, prelim {})", key, kind));
                                y::ymap_insert(target, txn, kp, &item);
                                ccalls.push(format!("ymap_get({})", key));
                                let t = match take_out(y::ymap_get(target, txn, kp)) {
                                    Some((LV::Type(_, t), _)) => t,
                                    _ => String::new(),
                                };
                                nd[0]["tok"] = json!(t);
                                new_cells.push(cell(&t, 1, 1, "type", &t));
                                nested = nd;
                            }
                        }
                        "mrem" => {
                            // the C function only reports whether an entry was removed: the old value is read first
                            ccalls.push(format!("ymap_get({})", key));
                            let old = take_out(y::ymap_get(target, txn, kp)).map(|x| tag_of(&x.0)).unwrap_or_default();
                            ccalls.push(format!("ymap_remove({})", key));
                            let flag = y::ymap_remove(target, txn, kp);
                            ret = json!({"old": if flag == y::Y_TRUE { old } else { String::new() }});
                        }
                        _ => {
                            ccalls.push("ymap_remove_all".into());
                            y::ymap_remove_all(target, txn);
                        }
                    }
                }
                "xins" | "xpushb" | "xpushf" | "xdel" => {
                    if tkind != y::Y_XML_FRAG && tkind != y::Y_XML_ELEM {
                        return Err("not an xml parent".into());
                    }
                    if op == "xdel" {
                        ccalls.push(format!("yxmlelem_remove_range({}, {})", i, n));
                        y::yxmlelem_remove_range(target, txn, i, n);
                    } else {
                        let at = match op.as_str() {
                            "xpushb" => {
                                ccalls.push("yxmlelem_child_len".into());
                                y::yxmlelem_child_len(target, txn)
                            }
                            "xpushf" => 0,
                            _ => i,
                        };
                        if kind == "X" {
                            ccalls.push(format!("yxmlelem_insert_text({})", at));
                            let b = y::yxmlelem_insert_text(target, txn, at);
                            let t = tok(b);
                            new_cells.push(cell(&t, 1, 1, "type", &t));
                            nested = vec![json!({"tok": t, "kind": "xmltext", "name": "", "seq": [], "map": []})];
                        } else {
                            let name = c["name"].as_str().unwrap_or("p").to_string();
                            ccalls.push(format!("yxmlelem_insert_elem({}, {})", at, name));
                            let b = y::yxmlelem_insert_elem(target, txn, at, ar.s(&name));
                            let t = tok(b);
                            new_cells.push(cell(&t, 1, 1, "type", &t));
                            nested = vec![json!({"tok": t, "kind": "xmlelem", "name": name, "seq": [], "map": []})];
                        }
                    }
                }
                "xattr" | "xunattr" => {
                    let k = c["k"].as_str().unwrap_or("k").to_string();
                    let kp = ar.s(&k);
                    let v = LV::Str(c["v"].as_str().unwrap_or("v").to_string());
                    match tkind {
                        y::Y_XML_ELEM => {
                            if op == "xattr" {
                                let cellv = ar.lv(&v);
                                ccalls.push(format!("yxmlelem_insert_attr({}, {})", k, canon(&v)));
                                y::yxmlelem_insert_attr(target, txn, kp, &cellv);
                            } else {
                                ccalls.push(format!("yxmlelem_remove_attr({})", k));
                                y::yxmlelem_remove_attr(target, txn, kp);
                            }
                        }
                        y::Y_XML_TEXT => {
                            if op == "xattr" {
                                let cellv = ar.lv(&v);
                                ccalls.push(format!("yxmltext_insert_attr({}, {})", k, canon(&v)));
                                y::yxmltext_insert_attr(target, txn, kp, &cellv);
                            } else {
                                ccalls.push(format!("yxmltext_remove_attr({})", k));
                                y::yxmltext_remove_attr(target, txn, kp);
                            }
                        }
                        _ => return Err("not an xml node".into()),
                    }
                }
                other => return Err(format!("no C equivalent for op {}", other)),
            }
            Ok(())
        }));
        let outcome = match res {
            Ok(Ok(())) => "ok".to_string(),
            Ok(Err(e)) => format!("skip: {}", e),
            Err(p) => format!("panic: {}", panic_msg(&p)),
        };
        let ops = ret.get("ops").cloned().unwrap_or(json!([]));
        let rets = json!({"updated": ret["updated"].as_bool().unwrap_or(false), "old": ret["old"].as_str().unwrap_or(""), "tok": ret["tok"].as_str().unwrap_or("")});
        let mut ev = Self::skeleton(c, &outcome);
        ev["ncall"] = Self::ncall(c, ops);
        ev["tok"] = json!(target_tok);
        ev["new"] = json!(new_cells);
        ev["nested"] = json!(nested);
        ev["ret"] = rets;
        ev["ccalls"] = json!(ccalls);
        ev
    }

    // -----------------------------------------------------------------------------------------
    // accessor dump, every value read through the C API

    pub unsafe fn dump(&self, txn: *mut y::Transaction) -> Value {
        let mut out = JMap::new();
        self.dump_text(txn, self.rt, "text", &mut out);
        self.dump_array(txn, self.ra, &mut out);
        self.dump_map(txn, self.rm, &mut out);
        self.dump_xml(txn, self.rx, "xmlfrag", &mut out);
        Value::Object(out)
    }

    unsafe fn dump_branch(&self, txn: *mut y::Transaction, b: *mut y::Branch, out: &mut JMap<String, Value>) {
        if b.is_null() {
            return;
        }
        match y::ytype_kind(b) {
            y::Y_TEXT => self.dump_text(txn, b, "text", out),
            y::Y_ARRAY => self.dump_array(txn, b, out),
            y::Y_MAP => self.dump_map(txn, b, out),
            y::Y_XML_TEXT => self.dump_text(txn, b, "xmltext", out),
            y::Y_XML_ELEM => self.dump_xml(txn, b, "xmlelem", out),
            _ => {}
        }
    }

    unsafe fn fmt_attrs(fmt: *mut y::YMapEntry, n: u32) -> Value {
        let mut v: Vec<(String, String)> = Vec::new();
        for i in 0..n as usize {
            let e = &*fmt.add(i);
            v.push((CStr::from_ptr(e.key).to_string_lossy().to_string(), attr_str(&read_out(e.value))));
        }
        v.sort();
        Value::Array(v.into_iter().map(|(k, v)| json!([k, v])).collect())
    }

    unsafe fn dump_text(&self, txn: *mut y::Transaction, t: *mut y::Branch, kind: &str, out: &mut JMap<String, Value>) {
        let tk = tok(t);
        let xt = kind == "xmltext";
        // plain content: `ytext_string` (for a YXmlText too -- `yxmltext_string` is the XML rendering with formatting
        // tags, the counterpart of `XmlTextRef::get_string`; it is recorded as `xstr` and compared with the twin)
        let s = take_str(y::ytext_string(t, txn)).unwrap_or_default();
        let len = if xt { y::yxmltext_len(t, txn) } else { y::ytext_len(t, txn) };
        let str_tags: Vec<String> = s.chars().map(|c| c.to_string()).collect();
        let mut chunks = Vec::new();
        let mut nested: Vec<*mut y::Branch> = Vec::new();
        let mut n: u32 = 0;
        // (the only chunk reader of the C API; it is used for YXmlText as well)
        let cs = y::ytext_chunks(t, txn, &mut n);
        for i in 0..n as usize {
            let ch = &*cs.add(i);
            let attrs = Self::fmt_attrs(ch.fmt, ch.fmt_len);
            match read_out(&ch.data) {
                LV::Str(s) => {
                    let tags: Vec<String> = s.chars().map(|c| c.to_string()).collect();
                    chunks.push(json!({"e": false, "tags": tags, "attrs": attrs}));
                }
                other => {
                    chunks.push(json!({"e": true, "tags": [tag_of(&other)], "attrs": attrs}));
                    let b = out_branch(&ch.data);
                    if !b.is_null() {
                        nested.push(b);
                    }
                }
            }
        }
        y::ychunks_destroy(cs, n);
        let mut rec = json!({"kind": kind, "len": len, "str": str_tags, "diff": chunks});
        if xt {
            let (attrs, gattrs) = self.xml_attrs(txn, t, true);
            rec["attrs"] = attrs;
            rec["gattrs"] = gattrs;
            rec["xstr"] = json!(take_str(y::yxmltext_string(t, txn)).unwrap_or_default());
        }
        out.insert(tk, rec);
        for b in nested {
            self.dump_branch(txn, b, out);
        }
    }

    fn jtag(&self, v: &Value) -> String {
        self.jreg.get(&v.to_string()).cloned().unwrap_or_else(|| format!("?j{}", v))
    }

    unsafe fn branch_json(&self, txn: *mut y::Transaction, b: *mut y::Branch) -> Option<Value> {
        take_str(y::ybranch_json(b, txn)).and_then(|s| serde_json::from_str::<Value>(&s).ok())
    }

    unsafe fn dump_array(&self, txn: *mut y::Transaction, a: *mut y::Branch, out: &mut JMap<String, Value>) {
        let tk = tok(a);
        let mut items: Vec<(LV, *mut y::Branch)> = Vec::new();
        let it = y::yarray_iter(a, txn);
        loop {
            match take_out(y::yarray_iter_next(it)) {
                Some(x) => items.push(x),
                None => break,
            }
        }
        y::yarray_iter_destroy(it);
        let iter: Vec<String> = items.iter().map(|x| tag_of(&x.0)).collect();
        let len = y::yarray_len(a);
        let get: Vec<String> = (0..items.len() as u32 + 2).map(|i| take_out(y::yarray_get(a, txn, i)).map(|x| tag_of(&x.0)).unwrap_or_default()).collect();
        // JSON: per element `yarray_get_json`, nested types must equal the nested type's own `ybranch_json`,
        // and the whole array's `ybranch_json` must be the list of the element JSONs
        let mut json_tags = Vec::new();
        let mut jnest = true;
        let mut parts: Vec<Value> = Vec::new();
        for (i, (lv, b)) in items.iter().enumerate() {
            match take_str(y::yarray_get_json(a, txn, i as u32)).and_then(|s| serde_json::from_str::<Value>(&s).ok()) {
                Some(j) => {
                    if b.is_null() {
                        json_tags.push(self.jtag(&j));
                    } else {
                        json_tags.push(tag_of(lv));
                        if self.branch_json(txn, *b).as_ref() != Some(&j) {
                            jnest = false;
                        }
                    }
                    parts.push(j);
                }
                None => {
                    json_tags.push(String::new());
                    jnest = false;
                }
            }
        }
        if take_str(y::yarray_get_json(a, txn, items.len() as u32)).is_some() {
            json_tags.push("?beyond-end".into());
        }
        if self.branch_json(txn, a) != Some(Value::Array(parts)) {
            jnest = false;
        }
        out.insert(tk, json!({"kind": "array", "len": len, "iter": iter, "get": get, "json": json_tags, "jnest": jnest}));
        for (_, b) in &items {
            self.dump_branch(txn, *b, out);
        }
    }

    unsafe fn map_entries(&self, txn: *mut y::Transaction, m: *mut y::Branch) -> Vec<(String, LV, *mut y::Branch)> {
        let mut entries = Vec::new();
        let it = y::ymap_iter(m, txn);
        loop {
            let e = y::ymap_iter_next(it);
            if e.is_null() {
                break;
            }
            let k = CStr::from_ptr((*e).key).to_string_lossy().to_string();
            let v = read_out((*e).value);
            let b = out_branch((*e).value);
            y::ymap_entry_destroy(e);
            entries.push((k, v, b));
        }
        y::ymap_iter_destroy(it);
        entries.sort_by(|a, b| a.0.cmp(&b.0));
        entries
    }

    unsafe fn dump_map(&self, txn: *mut y::Transaction, m: *mut y::Branch, out: &mut JMap<String, Value>) {
        let tk = tok(m);
        let entries = self.map_entries(txn, m);
        // the C API has one map iterator; keys / values are a second, independent pass over it
        let second = self.map_entries(txn, m);
        let keys: Vec<String> = second.iter().map(|e| e.0.clone()).collect();
        let mut values: Vec<String> = second.iter().map(|e| tag_of(&e.1)).collect();
        values.sort();
        let universe = ["k1", "k2", "k3"];
        let mut ar = Arena::default();
        let mut has = Vec::new();
        let mut get = Vec::new();
        for k in universe {
            let g = take_out(y::ymap_get(m, txn, ar.s(k)));
            // no contains_key in the C API: presence = `ymap_get` returns a cell
            has.push(json!([k, g.is_some()]));
            get.push(json!([k, g.map(|x| tag_of(&x.0)).unwrap_or_default()]));
        }
        let mut jpairs: Vec<(String, String)> = Vec::new();
        let mut jnest = true;
        let mut whole = JMap::new();
        for (k, lv, b) in &entries {
            match take_str(y::ymap_get_json(m, txn, ar.s(k))).and_then(|s| serde_json::from_str::<Value>(&s).ok()) {
                Some(j) => {
                    if b.is_null() {
                        jpairs.push((k.clone(), self.jtag(&j)));
                    } else {
                        jpairs.push((k.clone(), tag_of(lv)));
                        if self.branch_json(txn, *b).as_ref() != Some(&j) {
                            jnest = false;
                        }
                    }
                    whole.insert(k.clone(), j);
                }
                None => jnest = false,
            }
        }
        for k in universe {
            if !entries.iter().any(|e| e.0 == k) && take_str(y::ymap_get_json(m, txn, ar.s(k))).is_some() {
                jpairs.push((k.to_string(), "?absent-key".into()));
            }
        }
        if self.branch_json(txn, m) != Some(Value::Object(whole)) {
            jnest = false;
        }
        jpairs.sort();
        out.insert(
            tk,
            json!({"kind": "map", "len": y::ymap_len(m, txn), "keys": keys, "iter": entries.iter().map(|(k, v, _)| json!([k, tag_of(v)])).collect::<Vec<_>>(),
                   "values": values, "has": has, "get": get, "json": jpairs.iter().map(|(k, v)| json!([k, v])).collect::<Vec<_>>(), "jnest": jnest}),
        );
        for (_, _, b) in &entries {
            self.dump_branch(txn, *b, out);
        }
    }

    /// (attributes through the iterator, attributes through `*_get_attr` over the key universe)
    unsafe fn xml_attrs(&self, txn: *mut y::Transaction, x: *mut y::Branch, text: bool) -> (Value, Value) {
        let mut attrs: Vec<(String, String)> = Vec::new();
        let it = if text { y::yxmltext_attr_iter(x, txn) } else { y::yxmlelem_attr_iter(x, txn) };
        loop {
            let a = y::yxmlattr_iter_next(it);
            if a.is_null() {
                break;
            }
            let k = CStr::from_ptr((*a).name).to_string_lossy().to_string();
            let v = if (*a).value.is_null() { String::new() } else { attr_str(&read_out((*a).value)) };
            y::yxmlattr_destroy(a);
            attrs.push((k, v));
        }
        y::yxmlattr_iter_destroy(it);
        attrs.sort();
        let mut ar = Arena::default();
        let mut g: Vec<(String, String)> = Vec::new();
        for k in ["cl", "id", "k"] {
            let o = if text { y::yxmltext_get_attr(x, txn, ar.s(k)) } else { y::yxmlelem_get_attr(x, txn, ar.s(k)) };
            if let Some((v, _)) = take_out(o) {
                g.push((k.to_string(), attr_str(&v)));
            }
        }
        (Value::Array(attrs.into_iter().map(|(k, v)| json!([k, v])).collect()), Value::Array(g.into_iter().map(|(k, v)| json!([k, v])).collect()))
    }

    unsafe fn dump_xml(&self, txn: *mut y::Transaction, f: *mut y::Branch, kind: &str, out: &mut JMap<String, Value>) {
        let tk = tok(f);
        // children: first child, then the chain of next siblings
        let mut kids: Vec<(String, *mut y::Branch)> = Vec::new();
        let first = take_out(y::yxmlelem_first_child(f));
        let first_tag = first.as_ref().map(|x| tag_of(&x.0)).unwrap_or_default();
        let mut cur = first;
        let mut fuel = 64;
        while let Some((lv, b)) = cur {
            kids.push((tag_of(&lv), b));
            fuel -= 1;
            if b.is_null() || fuel == 0 {
                break;
            }
            cur = take_out(y::yxml_next_sibling(b, txn));
        }
        let children: Vec<String> = kids.iter().map(|k| k.0.clone()).collect();
        let len = y::yxmlelem_child_len(f, txn);
        let get: Vec<String> = (0..kids.len() as u32 + 2).map(|i| take_out(y::yxmlelem_get(f, txn, i) as *mut y::YOutput).map(|x| tag_of(&x.0)).unwrap_or_default()).collect();
        let mut sibs = Vec::new();
        for (_, b) in &kids {
            let parent = tok(y::yxmlelem_parent(*b));
            let mut next = Vec::new();
            let mut c = take_out(y::yxml_next_sibling(*b, txn));
            let mut fuel = 64;
            while let Some((lv, nb)) = c {
                next.push(tag_of(&lv));
                fuel -= 1;
                if nb.is_null() || fuel == 0 {
                    break;
                }
                c = take_out(y::yxml_next_sibling(nb, txn));
            }
            let mut prev = Vec::new();
            let mut c = take_out(y::yxml_prev_sibling(*b, txn));
            let mut fuel = 64;
            while let Some((lv, pb)) = c {
                prev.push(tag_of(&lv));
                fuel -= 1;
                if pb.is_null() || fuel == 0 {
                    break;
                }
                c = take_out(y::yxml_prev_sibling(pb, txn));
            }
            sibs.push(json!({"parent": parent, "next": next, "prev": prev}));
        }
        let mut succ = Vec::new();
        let w = y::yxmlelem_tree_walker(f, txn);
        let mut fuel = 256;
        while let Some((lv, _)) = take_out(y::yxmlelem_tree_walker_next(w)) {
            succ.push(tag_of(&lv));
            fuel -= 1;
            if fuel == 0 {
                break;
            }
        }
        y::yxmlelem_tree_walker_destroy(w);
        let name = take_str(y::yxmlelem_tag(f)).unwrap_or_default();
        // rendered string: `yxmlelem_string` for elements; a fragment has no tag, its rendering is `ybranch_json`
        let fstr = if kind == "xmlfrag" {
            self.branch_json(txn, f).and_then(|v| v.as_str().map(|s| s.to_string())).unwrap_or_default()
        } else {
            take_str(y::yxmlelem_string(f, txn)).unwrap_or_default()
        };
        let (attrs, gattrs) = if kind == "xmlelem" { self.xml_attrs(txn, f, false) } else { (json!([]), json!([])) };
        out.insert(
            tk,
            json!({"kind": kind, "name": name, "len": len, "children": children, "get": get, "first": first_tag, "sibs": sibs, "succ": succ,
                   "str": fstr, "attrs": attrs, "gattrs": gattrs}),
        );
        for (_, b) in &kids {
            self.dump_branch(txn, *b, out);
        }
    }

    /// `ytransaction_state_diff_v1` against the empty state vector (NULL), in abstract form
    pub unsafe fn state(&self, txn: *mut y::Transaction) -> Value {
        let mut n: u32 = 0;
        let p = y::ytransaction_state_diff_v1(txn, null(), 0, &mut n);
        let b = take_bin(p, n);
        abstract_update(b.as_deref())
    }
}

/// The rendered XML string lists attributes in `HashMap` order, which differs between two documents holding the same
/// content: attributes are sorted inside every opening tag before two renderings are compared.
fn canon_xml(s: &str) -> String {
    let mut out = String::new();
    let mut rest = s;
    while let Some(lt) = rest.find('<') {
        out.push_str(&rest[..lt]);
        let Some(gt) = rest[lt..].find('>') else {
            break;
        };
        let tag = &rest[lt + 1..lt + gt];
        if tag.starts_with('/') || !tag.contains(' ') {
            out.push_str(&rest[lt..lt + gt + 1]);
        } else {
            // name, then attr="value" tokens (values are quoted, may contain blanks)
            let mut parts: Vec<String> = Vec::new();
            let mut cur = String::new();
            let mut quoted = false;
            for ch in tag.chars() {
                if ch == '"' {
                    quoted = !quoted;
                }
                if ch == ' ' && !quoted {
                    parts.push(std::mem::take(&mut cur));
                } else {
                    cur.push(ch);
                }
            }
            parts.push(cur);
            let name = parts.remove(0);
            parts.sort();
            out.push('<');
            out.push_str(&name);
            for p in parts {
                out.push(' ');
                out.push_str(&p);
            }
            out.push('>');
        }
        rest = &rest[lt + gt + 1..];
    }
    out.push_str(rest);
    out
}

fn xml_strings(dump: &Value) -> Value {
    let mut v: Vec<(String, String)> = Vec::new();
    if let Some(m) = dump.as_object() {
        for (k, d) in m {
            if matches!(d["kind"].as_str(), Some("xmlfrag") | Some("xmlelem")) {
                v.push((k.clone(), canon_xml(d["str"].as_str().unwrap_or(""))));
            }
            if d["kind"].as_str() == Some("xmltext") && d.get("xstr").is_some() {
                v.push((k.clone(), canon_xml(d["xstr"].as_str().unwrap_or(""))));
                v.push((format!("{}@attrs", k), d["attrs"].to_string()));
            }
        }
    }
    v.sort();
    Value::Array(v.into_iter().map(|(k, s)| json!([k, s])).collect())
}

/// rendered strings of the twin's xml nodes: fragments / elements from the Rust dump, text nodes through `XmlTextRef::get_string`
fn twin_xml_strings<T: ReadTxn>(txn: &T, tdump: &Value) -> Value {
    use yrs::types::xml::{XmlFragment, XmlOut};
    use yrs::GetString;
    let mut v: Vec<Value> = xml_strings(tdump).as_array().cloned().unwrap_or_default();
    if let Some(f) = txn.get_xml_fragment("x") {
        for n in f.successors(txn) {
            if let XmlOut::Text(t) = n {
                let b: &yrs::branch::Branch = t.as_ref();
                if let yrs::BranchID::Nested(id) = b.id() {
                    let tk = format!("{}:{}", id.client.get(), id.clock);
                    v.push(json!([tk, canon_xml(&t.get_string(txn))]));
                    let mut at: Vec<(String, String)> = yrs::Xml::attributes(&t, txn).map(|(k, v)| (k.to_string(), v.to_string(txn))).collect();
                    at.sort();
                    v.push(json!([format!("{}@attrs", tk), Value::Array(at.into_iter().map(|(k, v)| json!([k, v])).collect()).to_string()]));
                }
            }
        }
    }
    v.sort_by(|a, b| a[0].as_str().cmp(&b[0].as_str()));
    Value::Array(v)
}

fn twin_state<T: ReadTxn>(txn: &T) -> Value {
    match catch_unwind(AssertUnwindSafe(|| txn.encode_state_as_update_v1(&StateVector::default()))) {
        Ok(b) => abstract_update(Some(&b)),
        Err(p) => json!({"units": [], "ds": [], "err": format!("panic: {}", panic_msg(&p))}),
    }
}

/// Runs the programs `start..` of a schedule file through the C API (and natively in a twin document); appends to the trace.
pub fn seq_worker(schedules: &str, out: &str, journal: &str, start: usize) -> std::io::Result<(usize, usize)> {
    let text = std::fs::read_to_string(schedules)?;
    let mut w = std::io::BufWriter::new(std::fs::OpenOptions::new().append(true).create(true).open(out)?);
    let mut nb = 0usize;
    let mut nev = 0usize;
    journal_open(journal);
    install_hook();
    for (idx, line) in text.lines().filter(|l| !l.trim().is_empty()).enumerate() {
        if idx < start {
            continue;
        }
        let b: Value = serde_json::from_str(line).expect("schedule line");
        let reset = json!({"k": "reset", "bid": b["bid"], "cfg": b["cfg"]});
        journal_begin(journal, idx, &reset);
        let calls = b["calls"].as_array().cloned().unwrap_or_default();
        let extras = b["cfg"]["extras"].as_bool().unwrap_or(false);
        let mut all: Vec<Value> = Vec::new();
        unsafe {
            let mut cx = Cx::new(&b["cfg"]);
            let mut sx = Sx::new(&b["cfg"]);
            let tdoc = sx.doc.clone();
            let mut sx2 = Sx::new(&b["cfg"]);
            let tdoc2 = sx2.doc.clone();
            let mut xs = crate::ffi_extras::Extras::new(&cx, &tdoc, extras, &b["cfg"]);
            let mut i = 0;
            while i < calls.len() {
                let mut evs: Vec<Value> = Vec::new();
                {
                    journal_pre(&Cx::skeleton(&calls[i], "panic: ydoc_write_transaction: "), false);
                    let txn = y::ydoc_write_transaction(cx.doc, 0, null());
                    let mut ttxn = tdoc.transact_mut();
                    let mut ttxn2 = tdoc2.transact_mut();
                    loop {
                        let c = &calls[i];
                        journal_pre(&Cx::skeleton(c, "panic: "), false);
                        let mut ev = if txn.is_null() { Cx::skeleton(c, "panic: no write transaction") } else { cx.call(txn, c) };
                        // the same call natively on the twin
                        let tev = sx.call(&mut ttxn, c);
                        let _ = catch_unwind(AssertUnwindSafe(|| sx2.call(&mut ttxn2, c)));
                        let mut pre = ev.clone();
                        pre["outcome"] = json!("panic: accessor dump: ");
                        journal_pre(&pre, false);
                        if !txn.is_null() {
                            ev["dump"] = cx.dump(txn);
                            ev["twin"]["c"]["st"] = cx.state(txn);
                            ev["twin"]["c"]["xml"] = xml_strings(&ev["dump"]);
                        }
                        ev["twin"]["c"]["outcome"] = ev["outcome"].clone();
                        ev["twin"]["r"]["outcome"] = tev["outcome"].clone();
                        ev["twin"]["r"]["st"] = twin_state(&ttxn);
                        ev["twin"]["r2"]["st"] = twin_state(&ttxn2);
                        let tdump = catch_unwind(AssertUnwindSafe(|| sx.dump(&ttxn))).unwrap_or(json!({}));
                        ev["twin"]["r"]["xml"] = twin_xml_strings(&ttxn, &tdump);
                        xs.after_call(&cx, txn, &ttxn, &mut ev, &tdump);
                        journal_ev(&ev);
                        evs.push(ev);
                        i += 1;
                        if c["commit"].as_bool().unwrap_or(true) || i >= calls.len() {
                            break;
                        }
                    }
                    let last = evs.len() - 1;
                    let mut pre = evs[last].clone();
                    pre["outcome"] = json!("panic: ytransaction_commit / read after commit: ");
                    journal_pre(&pre, true);
                    if !txn.is_null() {
                        y::ytransaction_commit(txn);
                    }
                    drop(ttxn);
                    drop(ttxn2);
                    // after commit (squash, gc): the state must read the same
                    let rtxn = y::ydoc_read_transaction(cx.doc);
                    if !rtxn.is_null() {
                        evs[last]["after"] = cx.dump(rtxn);
                        evs[last]["twin"]["c"]["sta"] = cx.state(rtxn);
                        y::ytransaction_commit(rtxn);
                    }
                    {
                        let t = tdoc.transact();
                        evs[last]["twin"]["r"]["sta"] = twin_state(&t);
                        let t2 = tdoc2.transact();
                        evs[last]["twin"]["r2"]["sta"] = twin_state(&t2);
                    }
                    evs[last]["committed"] = json!(true);
                    xs.after_commit(&cx, &tdoc, &mut evs[last], i >= calls.len());
                }
                all.append(&mut evs);
            }
            xs.finish();
            cx.destroy();
        }
        writeln!(w, "{}", reset)?;
        for e in &all {
            writeln!(w, "{}", e)?;
            nev += 1;
        }
        w.flush()?;
        nb += 1;
    }
    w.flush()?;
    Ok((nb, nev))
}

// ---------------------------------------------------------------------------------------------
// Yata through C: a World in which some replicas (default 1 and the observer 8) are driven through the C API

pub struct CRep {
    doc: *mut y::Doc,
    t: *mut y::Branch,
    a: *mut y::Branch,
    m: *mut y::Branch,
    subs: Vec<*mut y::Subscription>,
}

pub struct FWorld {
    pub w: World,
    c: HashMap<u64, CRep>,
    /// last observation of every replica (the pre-state reported when a C call aborts the process)
    last_obs: HashMap<u64, Value>,
    last_fol: HashMap<u64, Value>,
}

/// update observer registered through `ydoc_observe_updates_v1/v2`: `state` is the replica's event queue
extern "C" fn on_update(state: *mut c_void, len: u32, data: *const c_char) {
    unsafe {
        let q = &*(state as *const RefCell<Vec<Vec<u8>>>);
        q.borrow_mut().push(std::slice::from_raw_parts(data as *const u8, len as usize).to_vec());
    }
}

fn parse_tok(t: &str) -> Option<Id> {
    let (a, b) = t.split_once(':')?;
    Some((a.parse().ok()?, b.parse().ok()?))
}

struct CView {
    vis: BTreeMap<String, Vec<Id>>,
    dis: Vec<String>,
}

impl FWorld {
    pub unsafe fn new(cfg: &Value, seed: u64) -> FWorld {
        let offset = match cfg["offset"].as_str() {
            Some("bytes") => yrs::OffsetKind::Bytes,
            _ => yrs::OffsetKind::Utf16,
        };
        let followers = cfg["followers"].as_bool().unwrap_or(false);
        let cdriven: Vec<u64> = cfg["cdriven"].as_array().map(|a| a.iter().filter_map(|x| x.as_u64()).collect()).unwrap_or_else(|| vec![1, 8]);
        let roots = vec![("t".to_string(), RootKind::Text), ("a".to_string(), RootKind::Array), ("m".to_string(), RootKind::Map)];
        let mut reps = Vec::new();
        let mut c = HashMap::new();
        for r in cfg["replicas"].as_array().cloned().unwrap_or_default() {
            let id = r["id"].as_u64().unwrap();
            let gc = r["gc"].as_bool().unwrap_or(true);
            let ev1: Rc<RefCell<Vec<Vec<u8>>>> = Rc::new(RefCell::new(Vec::new()));
            let ev2: Rc<RefCell<Vec<Vec<u8>>>> = Rc::new(RefCell::new(Vec::new()));
            let mk_fol = || {
                if followers {
                    let mk = || {
                        let d = mk_doc(1000 + id, gc, offset);
                        d.get_or_insert_text("t");
                        d.get_or_insert_array("a");
                        d.get_or_insert_map("m");
                        d
                    };
                    Some((mk(), mk()))
                } else {
                    None
                }
            };
            if cdriven.contains(&id) {
                let mut o = y::yoptions();
                y::ystring_destroy(o.guid as *mut c_char);
                o.guid = null();
                o.id = id;
                o.flags &= !(y::Y_OFFSET_UTF16 | y::Y_SKIP_GC | y::Y_CLEANUP_FMT);
                if offset == yrs::OffsetKind::Utf16 {
                    o.flags |= y::Y_OFFSET_UTF16;
                }
                if !gc {
                    o.flags |= y::Y_SKIP_GC;
                }
                let d = y::ydoc_new_with_options(o);
                let mut ar = Arena::default();
                let t = y::ytext(d, ar.s("t"));
                let a = y::yarray(d, ar.s("a"));
                let m = y::ymap(d, ar.s("m"));
                let s1 = y::ydoc_observe_updates_v1(d, Rc::as_ptr(&ev1) as *mut c_void, on_update);
                let s2 = y::ydoc_observe_updates_v2(d, Rc::as_ptr(&ev2) as *mut c_void, on_update);
                // The C `YDoc` IS a `yrs::Doc` (`pub type Doc = yrs::Doc`): `ydoc_clone` hands out another handle to the same
                // document.  The harness keeps that handle for the Rust-side STRUCTURAL observation only (hook H1; item lists,
                // tombstones and holes are not visible through C); nothing is ever written through it.
                let dc = y::ydoc_clone(d);
                let doc: yrs::Doc = (*dc).clone();
                y::ydoc_destroy(dc);
                c.insert(id, CRep { doc: d, t, a, m, subs: vec![s1, s2] });
                reps.push(Replica { id, doc, gc, ev1, ev2, _subs: vec![], fol: mk_fol() });
            } else {
                let doc = mk_doc(id, gc, offset);
                doc.get_or_insert_text("t");
                doc.get_or_insert_array("a");
                doc.get_or_insert_map("m");
                let e1 = ev1.clone();
                let e2 = ev2.clone();
                let s1 = doc.observe_update_v1(move |_, e| e1.borrow_mut().push(e.update.clone())).unwrap();
                let s2 = doc.observe_update_v2(move |_, e| e2.borrow_mut().push(e.update.clone())).unwrap();
                reps.push(Replica { id, doc, gc, ev1, ev2, _subs: vec![s1, s2], fol: mk_fol() });
            }
        }
        let mut w = World {
            reps, roots, tags: Tags::default(), known: HashMap::new(), log: Vec::new(), next_char: 0x4E00, wide: false, next_astral: 0x20000, nfresh: 0, next_val: 1000, offset,
            rng: Rng::new(seed), followers, ext: HashMap::new(), cfg: cfg.clone(),
        };
        yx::ext::init(&mut w);
        let mut fw = FWorld { w, c, last_obs: HashMap::new(), last_fol: HashMap::new() };
        let ids: Vec<u64> = fw.c.keys().copied().collect();
        for id in ids {
            let o = fw.observe(id);
            fw.last_obs.insert(id, o);
            let ri = fw.w.rep(id);
            let f = fw.w.fol_obs(ri);
            fw.last_fol.insert(id, f);
        }
        fw
    }

    pub unsafe fn destroy(&mut self) {
        for (_, r) in self.c.drain() {
            for s in r.subs {
                y::yunobserve(s);
            }
            y::ydoc_destroy(r.doc);
        }
    }

    fn is_c(&self, id: u64) -> bool {
        self.c.contains_key(&id)
    }

    // ---- public view through the C API -------------------------------------------------------

    unsafe fn c_value(&self, txn: *mut y::Transaction, o: *const y::YOutput, cv: &mut CView, depth: usize) -> Id {
        if depth > 16 {
            cv.dis.push("nesting too deep".into());
            return (0, 0);
        }
        let lv = read_out(o);
        match &lv {
            LV::Type(tag, t) => {
                let id = parse_tok(t).unwrap_or((0, 0));
                let b = out_branch(o);
                match *tag {
                    y::Y_TEXT => self.c_text(txn, b, t, cv, depth),
                    y::Y_ARRAY => self.c_array(txn, b, t, cv, depth),
                    y::Y_MAP => self.c_map(txn, b, t, cv, depth),
                    _ => {}
                }
                id
            }
            other => self.w.tags.of_any(&lv_to_any(other)),
        }
    }

    unsafe fn c_text(&self, txn: *mut y::Transaction, t: *mut y::Branch, prefix: &str, cv: &mut CView, depth: usize) {
        let mut ids = Vec::new();
        let mut concat = String::new();
        let mut n: u32 = 0;
        let cs = y::ytext_chunks(t, txn, &mut n);
        for i in 0..n as usize {
            let ch = &*cs.add(i);
            if ch.data.tag == y::Y_JSON_STR {
                if let LV::Str(s) = read_out(&ch.data) {
                    concat.push_str(&s);
                    for c in s.chars() {
                        ids.push(self.w.tags.of_char(c));
                        if c.len_utf16() == 2 {
                            let mut i2 = self.w.tags.of_char(c);
                            i2.1 += 1;
                            ids.push(i2);
                        }
                    }
                }
            } else {
                ids.push(self.c_value(txn, &ch.data, cv, depth + 1));
            }
        }
        y::ychunks_destroy(cs, n);
        let s = take_str(y::ytext_string(t, txn)).unwrap_or_default();
        if s != concat {
            cv.dis.push(format!("text {}: ytext_string {:?} != chunks concat {:?}", prefix, s, concat));
        }
        cv.vis.insert(format!("{}|", prefix), ids);
    }

    unsafe fn c_array(&self, txn: *mut y::Transaction, a: *mut y::Branch, prefix: &str, cv: &mut CView, depth: usize) {
        let mut ids = Vec::new();
        let mut n = 0u32;
        let it = y::yarray_iter(a, txn);
        loop {
            let o = y::yarray_iter_next(it);
            if o.is_null() {
                break;
            }
            ids.push(self.c_value(txn, o, cv, depth + 1));
            y::youtput_destroy(o);
            n += 1;
        }
        y::yarray_iter_destroy(it);
        if y::yarray_len(a) != n {
            cv.dis.push(format!("array {}: yarray_len {} != iterated {}", prefix, y::yarray_len(a), n));
        }
        cv.vis.insert(format!("{}|", prefix), ids);
    }

    unsafe fn c_map(&self, txn: *mut y::Transaction, m: *mut y::Branch, prefix: &str, cv: &mut CView, depth: usize) {
        let mut entries: Vec<(String, *mut y::YMapEntry)> = Vec::new();
        let it = y::ymap_iter(m, txn);
        loop {
            let e = y::ymap_iter_next(it);
            if e.is_null() {
                break;
            }
            entries.push((CStr::from_ptr((*e).key).to_string_lossy().to_string(), e));
        }
        y::ymap_iter_destroy(it);
        entries.sort_by(|a, b| a.0.cmp(&b.0));
        let n = entries.len() as u32;
        let mut ar = Arena::default();
        for (k, e) in entries {
            let id = self.c_value(txn, (*e).value, cv, depth + 1);
            cv.vis.insert(format!("{}|{}", prefix, k), vec![id]);
            let iterated = read_out((*e).value);
            match take_out(y::ymap_get(m, txn, ar.s(&k))) {
                Some((g, _)) => {
                    if g != iterated {
                        cv.dis.push(format!("map {}: ymap_get({}) != iterated", prefix, k));
                    }
                }
                None => cv.dis.push(format!("map {}: ymap_get({}) is NULL but iterated", prefix, k)),
            }
            y::ymap_entry_destroy(e);
        }
        if y::ymap_len(m, txn) != n {
            cv.dis.push(format!("map {}: ymap_len {} != iterated {}", prefix, y::ymap_len(m, txn), n));
        }
    }

    /// observation of a replica: structure through hook H1 on the shared document; for a C-driven replica the public view,
    /// the state vector and the stash summary are read through the C API
    pub unsafe fn observe(&mut self, id: u64) -> Value {
        let ri = self.w.rep(id);
        let mut o = self.w.observe(ri);
        let Some(cr) = self.c.get(&id) else {
            return o;
        };
        let txn = y::ydoc_read_transaction(cr.doc);
        if txn.is_null() {
            o["c17"] = json!("ydoc_read_transaction returned NULL");
            return o;
        }
        let mut cv = CView { vis: BTreeMap::new(), dis: Vec::new() };
        self.c_text(txn, cr.t, "t", &mut cv, 0);
        self.c_array(txn, cr.a, "a", &mut cv, 0);
        self.c_map(txn, cr.m, "m", &mut cv, 0);
        let mut pubv = JMap::new();
        for (k, v) in &cv.vis {
            pubv.insert(k.clone(), obs::idsv(v));
        }
        o["pub"] = Value::Object(pubv);
        o["c17"] = if cv.dis.is_empty() { json!("ok") } else { json!(cv.dis.join("; ")) };
        // state vector
        let mut n: u32 = 0;
        let p = y::ytransaction_state_vector_v1(txn, &mut n);
        let svb = take_bin(p, n).unwrap_or_default();
        let mut sv: Vec<Id> = StateVector::decode_v1(&svb).map(|s| s.iter().map(|(c, k)| (c.get(), *k)).collect()).unwrap_or_else(|_| vec![(0, 0)]);
        sv.sort();
        o["sv"] = obs::idsv(&sv);
        // stash
        let pu = y::ytransaction_pending_update(txn);
        let mut pend: Vec<Id> = Vec::new();
        let mut pmiss: Vec<Id> = Vec::new();
        if !pu.is_null() {
            let bytes = std::slice::from_raw_parts((*pu).update_v1 as *const u8, (*pu).update_len as usize);
            match codec::decode_update_v1(bytes) {
                Ok(u) => pend.extend(u.units().iter().map(|x| x.id)),
                Err(_) => pend.push((0, 0)),
            }
            let ms = &(*pu).missing;
            for i in 0..ms.entries_count as usize {
                pmiss.push((*ms.client_ids.add(i), *ms.clocks.add(i)));
            }
            y::ypending_update_destroy(pu);
        }
        let pd = y::ytransaction_pending_ds(txn);
        let mut pds: Vec<Id> = Vec::new();
        if !pd.is_null() {
            for i in 0..(*pd).entries_count as usize {
                let cl = *(*pd).client_ids.add(i);
                let seq = &*(*pd).ranges.add(i);
                for j in 0..seq.len as usize {
                    let r = &*seq.seq.add(j);
                    for k in r.start..r.end {
                        pds.push((cl, k));
                    }
                }
            }
            y::ydelete_set_destroy(pd);
        }
        pend.sort();
        pmiss.sort();
        pds.sort();
        o["missing"] = json!(!pu.is_null() || !pd.is_null());
        o["pend"] = obs::idsv(&pend);
        o["pmiss"] = obs::idsv(&pmiss);
        o["pds"] = obs::idsv(&pds);
        y::ytransaction_commit(txn);
        o
    }

    fn remember(&mut self, id: u64, o: &Value) {
        if self.is_c(id) {
            self.last_obs.insert(id, o.clone());
            let ri = self.w.rep(id);
            let f = self.w.fol_obs(ri);
            self.last_fol.insert(id, f);
        }
    }

    // ---- steps ---------------------------------------------------------------------------------

    pub unsafe fn step(&mut self, st: &Value) -> Value {
        let a = st["a"].as_str().unwrap_or("");
        match a {
            "ins" | "del" | "set" | "rem" | "gcf" if self.is_c(st["r"].as_u64().unwrap_or(0)) => self.c_local(st),
            "sync" | "relay" if self.is_c(st["f"].as_u64().unwrap_or(0)) || self.is_c(st["t"].as_u64().unwrap_or(0)) => self.c_sync(st),
            "dlv" if self.is_c(st["r"].as_u64().unwrap_or(0)) => self.c_deliver(st),
            _ => self.w.step(st),
        }
    }

    unsafe fn c_nav(&self, cr: &CRep, txn: *mut y::Transaction, path: &[String]) -> Result<*mut y::Branch, String> {
        let mut cur = match path.get(0).map(|s| s.as_str()) {
            Some("t") => cr.t,
            Some("a") => cr.a,
            Some("m") => cr.m,
            _ => return Err("unknown root".into()),
        };
        let mut ar = Arena::default();
        for seg in &path[1..] {
            let kind = y::ytype_kind(cur);
            let o = if let Some(i) = seg.strip_prefix('#') {
                let i: u32 = i.parse().map_err(|_| "bad index")?;
                if kind != y::Y_ARRAY {
                    return Err("index into non-array".into());
                }
                y::yarray_get(cur, txn, i)
            } else {
                if kind != y::Y_MAP {
                    return Err("key into non-map".into());
                }
                y::ymap_get(cur, txn, ar.s(seg))
            };
            match take_out(o) {
                None => return Err(format!("no element {}", seg)),
                Some((_, b)) if b.is_null() => return Err("not a shared type".into()),
                Some((_, b)) => cur = b,
            }
        }
        Ok(cur)
    }

    /// visible unit index -> offset in the configured unit, computed from `ytext_string` as a C program would
    unsafe fn c_unit_offset(&self, txn: *mut y::Transaction, t: *mut y::Branch, idx: u32) -> u32 {
        match self.w.offset {
            yrs::OffsetKind::Utf16 => idx,
            yrs::OffsetKind::Bytes => {
                let s = take_str(y::ytext_string(t, txn)).unwrap_or_default();
                s.chars().take(idx as usize).map(|c| c.len_utf8() as u32).sum()
            }
        }
    }

    fn cont_key(tk: &str, path: &[String], sub: &str) -> String {
        match parse_tok(tk) {
            Some(id) => obs::cont_key_nested(id, sub),
            None => obs::cont_key_root(&path[0], sub),
        }
    }

    unsafe fn c_local(&mut self, st: &Value) -> Value {
        let r = st["r"].as_u64().unwrap();
        let ri = self.w.rep(r);
        let a = st["a"].as_str().unwrap().to_string();
        let path: Vec<String> = st["p"].as_array().map(|v| v.iter().map(|x| x.as_str().unwrap().to_string()).collect()).unwrap_or_default();
        let idx = st["i"].as_u64().unwrap_or(0) as u32;
        let n = st["n"].as_u64().unwrap_or(1) as u32;
        let kind = st["k"].as_str().unwrap_or("u").to_string();
        let key = st["key"].as_str().unwrap_or("").to_string();
        let chars = self.w.fresh_chars(n as usize);
        let vals: Vec<Any> = (0..n.max(1)).map(|_| self.w.fresh_val()).collect();
        let inner = self.w.fresh_val();
        let num = |a: &Any| match a {
            Any::Number(f) => *f,
            _ => 0.0,
        };
        journal_pre(
            &json!({"k": "loc", "r": r, "call": st, "cont": "", "outcome": "panic: ", "upd": {"ins": [], "del": []}, "nev": [0, 0], "wire": "",
                    "obs": self.last_obs.get(&r).cloned().unwrap_or(json!({})), "hasfol": self.w.followers, "fol": self.last_fol.get(&r).cloned().unwrap_or(json!({}))}),
            false,
        );
        let mut cont = String::new();
        let res: Result<String, String> = (|| {
            let cr = self.c.get(&r).unwrap();
            let txn = y::ydoc_write_transaction(cr.doc, 0, null());
            if txn.is_null() {
                return Err("ydoc_write_transaction returned NULL".to_string());
            }
            let mut ar = Arena::default();
            let out = (|| -> Result<String, String> {
                if a == "gcf" {
                    y::ytransaction_force_gc(txn);
                    return Ok(String::new());
                }
                let target = self.c_nav(cr, txn, &path)?;
                let tk = tok(target);
                let tkind = y::ytype_kind(target);
                let c;
                match (tkind, a.as_str()) {
                    (y::Y_TEXT, "ins") => {
                        c = Self::cont_key(&tk, &path, "");
                        let off = self.c_unit_offset(txn, target, idx);
                        y::ytext_insert(target, txn, off, ar.s(&chars), null());
                    }
                    (y::Y_TEXT, "del") => {
                        c = Self::cont_key(&tk, &path, "");
                        let off = self.c_unit_offset(txn, target, idx);
                        let len = self.c_unit_offset(txn, target, idx + n) - off;
                        y::ytext_remove_range(target, txn, off, len);
                    }
                    (y::Y_ARRAY, "ins") => {
                        c = Self::cont_key(&tk, &path, "");
                        let items: Vec<y::YInput> = match kind.as_str() {
                            "A" => vec![ar.input(&CIn::YArray(vec![CIn::V(LV::Num(num(&inner)))]))],
                            "M" => vec![ar.input(&CIn::YMap(vec![("k1".to_string(), CIn::V(LV::Num(num(&inner))))]))],
                            _ => vals.iter().map(|v| y::yinput_float(num(v))).collect(),
                        };
                        y::yarray_insert_range(target, txn, idx, items.as_ptr(), items.len() as u32);
                    }
                    (y::Y_ARRAY, "del") => {
                        c = Self::cont_key(&tk, &path, "");
                        y::yarray_remove_range(target, txn, idx, n);
                    }
                    (y::Y_MAP, "set") => {
                        c = Self::cont_key(&tk, &path, &key);
                        let item = match kind.as_str() {
                            "A" => ar.input(&CIn::YArray(vec![CIn::V(LV::Num(num(&inner)))])),
                            "M" => ar.input(&CIn::YMap(vec![("k1".to_string(), CIn::V(LV::Num(num(&inner))))])),
                            _ => y::yinput_float(num(&vals[0])),
                        };
                        y::ymap_insert(target, txn, ar.s(&key), &item);
                    }
                    (y::Y_MAP, "rem") => {
                        c = Self::cont_key(&tk, &path, &key);
                        y::ymap_remove(target, txn, ar.s(&key));
                    }
                    _ => return Err(format!("step {} not applicable to target", a)),
                }
                Ok(c)
            })();
            y::ytransaction_commit(txn);
            out
        })();
        let outcome = match res {
            Ok(c) => {
                cont = c;
                "ok".to_string()
            }
            Err(e) => format!("skip: {}", e),
        };
        let (v1, v2) = self.w.drain(ri);
        let (upd, problems) = self.w.emitted(&v1, &v2);
        if a != "gcf" {
            let m1 = v1.first().cloned().unwrap_or_else(|| vec![0, 0]);
            let m2 = v2.first().cloned().unwrap_or_else(|| vec![0, 0, 0, 0, 0, 0, 0, 0, 0, 0, 0, 0, 0]);
            self.w.log.push((r, m1, m2));
        }
        let o = self.observe(r);
        self.remember(r, &o);
        json!({
            "k": "loc", "r": r, "call": st, "cont": cont, "outcome": outcome,
            "upd": upd, "nev": [v1.len(), v2.len()], "wire": problems.join("; "),
            "obs": o, "hasfol": self.w.followers, "fol": self.w.fol_obs(ri), "driver": "c",
        })
    }

    /// `ytransaction_apply` / `ytransaction_apply_v2` in a write transaction of a C-driven replica
    unsafe fn c_apply(&self, id: u64, bytes: &[u8], v2: bool) -> String {
        let cr = self.c.get(&id).unwrap();
        let txn = y::ydoc_write_transaction(cr.doc, 0, null());
        if txn.is_null() {
            return "error: ydoc_write_transaction returned NULL".into();
        }
        let mut b = bytes.to_vec();
        if b.is_empty() {
            b.reserve(1);
        }
        let rc = if v2 { y::ytransaction_apply_v2(txn, b.as_ptr() as *const c_char, bytes.len() as u32) } else { y::ytransaction_apply(txn, b.as_ptr() as *const c_char, bytes.len() as u32) };
        y::ytransaction_commit(txn);
        if rc == 0 { "ok".into() } else { format!("error: ytransaction_apply code {}", rc) }
    }

    fn apply(&mut self, id: u64, bytes: &[u8], v2: bool) -> String {
        if self.is_c(id) {
            unsafe { self.c_apply(id, bytes, v2) }
        } else {
            let ri = self.w.rep(id);
            self.w.apply_bytes(ri, bytes, v2)
        }
    }

    /// state vector of a replica as it crosses the wire (v1 bytes)
    unsafe fn sv_bytes(&self, id: u64) -> Vec<u8> {
        if let Some(cr) = self.c.get(&id) {
            let txn = y::ydoc_read_transaction(cr.doc);
            if txn.is_null() {
                return vec![0];
            }
            let mut n: u32 = 0;
            let p = y::ytransaction_state_vector_v1(txn, &mut n);
            let b = take_bin(p, n).unwrap_or_else(|| vec![0]);
            y::ytransaction_commit(txn);
            b
        } else {
            let ri = self.w.rep(id);
            self.w.reps[ri].doc.transact().state_vector().encode_v1()
        }
    }

    unsafe fn obs_any(&mut self, id: u64) -> Value {
        let o = self.observe(id);
        self.remember(id, &o);
        o
    }

    unsafe fn c_sync(&mut self, st: &Value) -> Value {
        let f = st["f"].as_u64().unwrap();
        let t = st["t"].as_u64().unwrap();
        let fi = self.w.rep(f);
        let ti = self.w.rep(t);
        let mut how = st["how"].as_str().unwrap_or("state").to_string();
        let svk = st["sv"].as_str().unwrap_or("own").to_string();
        let v2 = self.w.pick_v2(st);
        let enc = if v2 { "v2" } else { "v1" };
        let pre_obs = if self.is_c(t) { self.last_obs.get(&t).cloned().unwrap_or(json!({})) } else { self.w.observe(ti) };
        let pre_fobs = if self.is_c(f) { self.last_obs.get(&f).cloned().unwrap_or(json!({})) } else { self.w.observe(fi) };
        let pre_fol = if self.is_c(t) { self.last_fol.get(&t).cloned().unwrap_or(json!({})) } else { self.w.fol_obs(ti) };
        let svb = if svk == "zero" { StateVector::default().encode_v1() } else { self.sv_bytes(t) };
        let sv = StateVector::decode_v1(&svb).unwrap_or_default();
        let mut svq: Vec<Id> = sv.iter().map(|(c, k)| (c.get(), *k)).collect();
        svq.sort();
        // the C API has one export function (`encode_diff` semantics): a C-driven sender is recorded with how = "diff"
        if self.is_c(f) {
            how = "diff".into();
        }
        let skeleton = |outcome: String, obs: Value, fobs: Value, fol: Value, hasfol: bool| {
            json!({"k": "sync", "f": f, "t": t, "how": how, "svq": obs::idsv(&svq), "enc": enc, "outcome": outcome,
                   "upd": {"ins": [], "del": [], "skips": []}, "wire": "", "nev": [0, 0], "emit": {"ins": [], "del": []},
                   "obs": obs, "fobs": fobs, "hasfol": hasfol, "fol": fol})
        };
        journal_pre(&skeleton("panic: ".into(), pre_obs, pre_fobs, pre_fol, self.w.followers), false);
        let bytes: Result<Vec<u8>, String> = if let Some(cr) = self.c.get(&f) {
            let txn = y::ydoc_read_transaction(cr.doc);
            if txn.is_null() {
                Err("error: ydoc_read_transaction returned NULL".into())
            } else {
                let mut n: u32 = 0;
                // NULL state vector = whole state (documented); otherwise the receiver's state vector bytes
                let (sp, sl) = if svk == "zero" { (null(), 0u32) } else { (svb.as_ptr() as *const c_char, svb.len() as u32) };
                let p = if v2 { y::ytransaction_state_diff_v2(txn, sp, sl, &mut n) } else { y::ytransaction_state_diff_v1(txn, sp, sl, &mut n) };
                let b = take_bin(p, n);
                y::ytransaction_commit(txn);
                b.ok_or_else(|| "error: ytransaction_state_diff returned NULL".to_string())
            }
        } else {
            let fdoc = self.w.reps[fi].doc.clone();
            catch_unwind(AssertUnwindSafe(|| {
                let txn = fdoc.transact();
                match (how.as_str(), v2) {
                    ("diff", false) => txn.encode_diff_v1(&sv),
                    ("diff", true) => txn.encode_diff_v2(&sv),
                    (_, false) => txn.encode_state_as_update_v1(&sv),
                    (_, true) => txn.encode_state_as_update_v2(&sv),
                }
            }))
            .map_err(|p| format!("panic: encode: {}", panic_msg(&p)))
        };
        let bytes = match bytes {
            Ok(b) => b,
            Err(e) => {
                let o = self.obs_any(t);
                let fo = self.obs_any(f);
                let fol = self.w.fol_obs(ti);
                return skeleton(e, o, fo, fol, self.w.followers);
            }
        };
        let (upd, mut problems) = self.w.payload(&bytes, v2);
        let outcome = self.apply(t, &bytes, v2);
        let (e1, e2) = self.w.drain(ti);
        let (emit, mut p2) = self.w.emitted(&e1, &e2);
        problems.append(&mut p2);
        let o = self.obs_any(t);
        let fo = self.obs_any(f);
        json!({"k": "sync", "f": f, "t": t, "how": how, "svq": obs::idsv(&svq), "enc": enc,
            "outcome": outcome, "upd": upd, "wire": problems.join("; "), "nev": [e1.len(), e2.len()], "emit": emit,
            "obs": o, "fobs": fo, "hasfol": self.w.followers, "fol": self.w.fol_obs(ti), "driver": "c"})
    }

    /// merge_updates over the logged updates (document-free, stays on the Rust side: the C API has no such function)
    fn merged_bytes(&self, us: &[usize], v2: bool, shape: &str, problems: &mut Vec<String>) -> Vec<u8> {
        let get = |i: usize| if v2 { self.w.log[i - 1].2.clone() } else { self.w.log[i - 1].1.clone() };
        if us.len() == 1 {
            return get(us[0]);
        }
        let empty = |v2: bool| if v2 { vec![0u8; 13] } else { vec![0u8, 0] };
        let merge = |parts: Vec<Vec<u8>>, problems: &mut Vec<String>| -> Vec<u8> {
            let r = catch_unwind(AssertUnwindSafe(|| if v2 { yrs::merge_updates_v2(parts.iter()) } else { yrs::merge_updates_v1(parts.iter()) }));
            match r {
                Ok(Ok(b)) => b,
                Ok(Err(e)) => {
                    problems.push(format!("merge_updates error: {}", e));
                    empty(v2)
                }
                Err(p) => {
                    problems.push(format!("merge_updates panic: {}", panic_msg(&p)));
                    empty(v2)
                }
            }
        };
        let parts: Vec<Vec<u8>> = us.iter().map(|i| get(*i)).collect();
        match shape {
            "left" => {
                let mut acc = parts[0].clone();
                for p in &parts[1..] {
                    acc = merge(vec![acc, p.clone()], problems);
                }
                acc
            }
            "right" => {
                let mut acc = parts[parts.len() - 1].clone();
                for p in parts[..parts.len() - 1].iter().rev() {
                    acc = merge(vec![p.clone(), acc], problems);
                }
                acc
            }
            _ => merge(parts, problems),
        }
    }

    unsafe fn c_deliver(&mut self, st: &Value) -> Value {
        let r = st["r"].as_u64().unwrap();
        let ri = self.w.rep(r);
        let us: Vec<usize> = st["u"].as_array().unwrap().iter().map(|x| x.as_u64().unwrap() as usize).collect();
        let v2 = self.w.pick_v2(st);
        let shape = match st["shape"].as_str() {
            Some(s) => s.to_string(),
            None => ["flat", "left", "right"][self.w.rng.below(3) as usize].to_string(),
        };
        let diff = match st["diff"].as_bool() {
            Some(b) => b,
            None => self.w.rng.chance(1, 4),
        };
        let mut problems = Vec::new();
        let merged = self.merged_bytes(&us, v2, &shape, &mut problems);
        let (full, mut p0) = self.w.payload(&merged, v2);
        problems.append(&mut p0);
        let svb = self.sv_bytes(r);
        let sv = StateVector::decode_v1(&svb).unwrap_or_default();
        let mut svq: Vec<Id> = sv.iter().map(|(c, k)| (c.get(), *k)).collect();
        svq.sort();
        let bytes = if diff {
            let svx = if v2 { sv.encode_v2() } else { sv.encode_v1() };
            let d = catch_unwind(AssertUnwindSafe(|| if v2 { yrs::diff_updates_v2(&merged, &svx) } else { yrs::diff_updates_v1(&merged, &svx) }));
            match d {
                Ok(Ok(b)) => b,
                Ok(Err(e)) => {
                    problems.push(format!("diff_updates error: {}", e));
                    merged.clone()
                }
                Err(p) => {
                    problems.push(format!("diff_updates panic: {}", panic_msg(&p)));
                    merged.clone()
                }
            }
        } else {
            merged.clone()
        };
        let (upd, mut p) = self.w.payload(&bytes, v2);
        problems.append(&mut p);
        let enc = if v2 { "v2" } else { "v1" };
        journal_pre(
            &json!({"k": "dlv", "r": r, "u": us, "enc": enc, "shape": shape, "diff": diff, "svq": obs::idsv(&svq), "outcome": "panic: ",
                    "upd": {"ins": [], "del": [], "skips": []}, "full": full, "wire": "", "nev": [0, 0], "emit": {"ins": [], "del": []},
                    "obs": self.last_obs.get(&r).cloned().unwrap_or(json!({})), "hasfol": self.w.followers, "fol": self.last_fol.get(&r).cloned().unwrap_or(json!({}))}),
            false,
        );
        let outcome = self.c_apply(r, &bytes, v2);
        let (e1, e2) = self.w.drain(ri);
        let (emit, mut p2) = self.w.emitted(&e1, &e2);
        problems.append(&mut p2);
        let o = self.obs_any(r);
        json!({"k": "dlv", "r": r, "u": us, "enc": enc, "shape": shape, "diff": diff, "svq": obs::idsv(&svq),
            "outcome": outcome, "upd": upd, "full": full,
            "wire": problems.join("; "), "nev": [e1.len(), e2.len()], "emit": emit, "obs": o, "hasfol": self.w.followers, "fol": self.w.fol_obs(ri), "driver": "c"})
    }
}

/// Runs the behaviours `start..` of a schedule file; appends to the trace.
pub fn yata_worker(schedules: &str, out: &str, journal: &str, start: usize, seed: u64, repeat: usize) -> std::io::Result<(usize, usize)> {
    let text = std::fs::read_to_string(schedules)?;
    let mut w = std::io::BufWriter::new(std::fs::OpenOptions::new().append(true).create(true).open(out)?);
    let mut nb = 0usize;
    let mut nev = 0usize;
    journal_open(journal);
    install_hook();
    for (idx, line) in text.lines().filter(|l| !l.trim().is_empty()).enumerate() {
        if idx < start {
            continue;
        }
        let b: Value = serde_json::from_str(line).expect("schedule line");
        let bid = b["bid"].as_str().unwrap_or("?").to_string();
        let cfg = &b["cfg"];
        let reset = json!({"k": "reset", "bid": bid, "cfg": cfg});
        let mut first: Option<Vec<Value>> = None;
        for rep in 0..repeat.max(1) {
            journal_begin(journal, idx, &reset);
            let mut evs = Vec::new();
            unsafe {
                let mut world = FWorld::new(cfg, seed ^ hash_str(&bid));
                for st in b["steps"].as_array().unwrap() {
                    let e = world.step(st);
                    journal_ev(&e);
                    evs.push(e);
                }
                world.destroy();
            }
            if rep == 0 {
                first = Some(evs);
            } else if let Some(f) = &first {
                let a: Vec<&Value> = f.iter().map(|e| &e["obs"]["pub"]).collect();
                let c: Vec<&Value> = evs.iter().map(|e| &e["obs"]["pub"]).collect();
                if a != c {
                    let mut f2 = f.clone();
                    f2.push(json!({"k": "nondet", "why": "repeated execution of the same schedule gave a different visible outcome"}));
                    first = Some(f2);
                    break;
                }
            }
        }
        writeln!(w, "{}", reset)?;
        for e in first.unwrap() {
            writeln!(w, "{}", e)?;
            nev += 1;
        }
        w.flush()?;
        nb += 1;
    }
    w.flush()?;
    Ok((nb, nev))
}
