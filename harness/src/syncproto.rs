//! X stage for the `SyncProto` specification (C18): two real peers (`Awareness` over a `Doc`)
//! run `DefaultProtocol::start` / `DefaultProtocol::handle` over in-memory byte queues, in the
//! order a TLC-generated schedule dictates.  Every frame is a byte vector; everything that is
//! recorded about a message is read back from the bytes that travel (`MessageReader`), update
//! payloads with the independent lib0-v1 decoder `yx::codec`.  Local edits made while connected are
//! forwarded as `Message::Sync(SyncMessage::Update(..))` built from `observe_update_v1` events.
//! A third, offline author and out-of-band deliveries of single updates create the prior
//! divergence (including stashed updates) the property quantifies over.
//! The harness decides nothing: it drives and describes.

use serde_json::{json, Value};
use std::cell::RefCell;
use std::collections::{HashMap, VecDeque};
use std::io::Write;
use std::panic::{catch_unwind, AssertUnwindSafe};
use std::rc::Rc;
use std::sync::atomic::{AtomicU64, Ordering};
use std::sync::Arc;
use yrs::block::ClientID;
use yrs::encoding::read::Cursor;
use yrs::sync::{Awareness, AwarenessUpdate, DefaultProtocol, Message, MessageReader, Protocol, SyncMessage};
use yrs::updates::decoder::{Decode, DecoderV1};
use yrs::updates::encoder::{Encode, Encoder, EncoderV1};
use yrs::types::ToJson;
use yrs::{Any, Doc, GetString, Map, OffsetKind, Options, ReadTxn, StateVector, Text, Transact, Update};
use yx::codec::{self, Id};
use yx::obs;

use crate::aware::{data_tag, panic_msg, reg_iter};

fn hex(b: &[u8]) -> String {
    let mut s = String::with_capacity(b.len() * 2);
    for x in b {
        s.push_str(&format!("{:02x}", x));
    }
    s
}

fn idv(id: Id) -> Value {
    json!([id.0, id.1])
}
fn idsv(ids: &[Id]) -> Value {
    Value::Array(ids.iter().map(|i| idv(*i)).collect())
}

/// abstract content of an update payload, read with the independent decoder:
/// (unit ids, deletion ids, units with their dependencies, content signature, decoder complaint)
fn describe_payload(bytes: &[u8]) -> (Value, Value, Value, String, String) {
    match codec::decode_update_v1(bytes) {
        Ok(w) => {
            let us = w.units();
            let mut ins: Vec<Id> = us.iter().map(|u| u.id).collect();
            ins.sort();
            let units: Vec<Value> = us
                .iter()
                .map(|u| {
                    json!({"id": idv(u.id), "o": idv(u.origin.unwrap_or((0, 0))), "ro": idv(u.right_origin.unwrap_or((0, 0))),
                           "sub": u.parent_sub.clone().unwrap_or_default(), "kind": u.kind})
                })
                .collect();
            let mut sig: Vec<String> = us.iter().map(|u| format!("{}.{}:{}:{}", u.id.0, u.id.1, u.kind, u.val)).collect();
            sig.sort();
            (idsv(&ins), idsv(&w.del_units()), Value::Array(units), sig.join(" "), String::new())
        }
        Err(e) => (json!([]), json!([]), json!([]), String::new(), format!("independent decoder rejects payload: {}", e.0)),
    }
}

fn describe_aw(u: &AwarenessUpdate) -> Value {
    let mut v: Vec<(u64, u32, String)> = u.clients.iter().map(|(c, e)| (c.get(), e.clock, data_tag(if e.json.as_ref() == "null" { None } else { Some(e.json.as_ref()) }))).collect();
    v.sort();
    Value::Array(v.into_iter().map(|(c, k, d)| json!({"c": c, "k": k, "d": d})).collect())
}

/// abstract description of a protocol message
pub fn describe(m: &Message) -> Value {
    match m {
        Message::Sync(SyncMessage::SyncStep1(sv)) => {
            let mut v: Vec<Id> = sv.iter().map(|(c, k)| (c.get(), *k)).filter(|x| x.1 > 0).collect();
            v.sort();
            json!({"t": "step1", "sv": idsv(&v)})
        }
        Message::Sync(SyncMessage::SyncStep2(b)) => {
            let (ins, del, _, sig, err) = describe_payload(b);
            json!({"t": "step2", "ins": ins, "del": del, "sig": sig, "err": err})
        }
        Message::Sync(SyncMessage::Update(b)) => {
            let (ins, del, _, sig, err) = describe_payload(b);
            json!({"t": "update", "ins": ins, "del": del, "sig": sig, "err": err})
        }
        Message::Auth(None) => json!({"t": "auth", "denied": false, "reason": ""}),
        Message::Auth(Some(r)) => json!({"t": "auth", "denied": true, "reason": r}),
        Message::AwarenessQuery => json!({"t": "query"}),
        Message::Awareness(u) => json!({"t": "aw", "entries": describe_aw(u)}),
        Message::Custom(tag, data) => json!({"t": "custom", "tag": tag, "data": data}),
    }
}

/// reads every message of a frame back from its bytes
pub fn read_frame(bytes: &[u8]) -> (Vec<Message>, String) {
    let res = catch_unwind(AssertUnwindSafe(|| {
        let mut dec = DecoderV1::new(Cursor::new(bytes));
        let mut rd = MessageReader::new(&mut dec);
        let mut out = Vec::new();
        let mut err = String::new();
        while let Some(r) = rd.next() {
            match r {
                Ok(m) => out.push(m),
                Err(e) => {
                    err = format!("decode: {}", e);
                    break;
                }
            }
            if out.len() > 64 {
                err = "more than 64 messages in one frame".into();
                break;
            }
        }
        (out, err)
    }));
    match res {
        Ok(x) => x,
        Err(p) => (Vec::new(), format!("panic: {}", panic_msg(&p))),
    }
}

fn encode_all(ms: &[Message]) -> Vec<u8> {
    let mut enc = EncoderV1::new();
    for m in ms {
        m.encode(&mut enc);
    }
    enc.to_vec()
}

/// frame descriptor: what was meant (`orig`, when the messages exist as values before encoding),
/// what the bytes say (`msgs`), the bytes and the bytes obtained by encoding `msgs` again.
pub fn frame_desc(orig: Option<&[Message]>, bytes: &[u8]) -> Value {
    let (msgs, err) = read_frame(bytes);
    let (rewire, msgs2) = match catch_unwind(AssertUnwindSafe(|| encode_all(&msgs))) {
        Ok(b) => {
            let (m2, e2) = read_frame(&b);
            let mut d: Vec<Value> = m2.iter().map(describe).collect();
            if !e2.is_empty() {
                d.push(json!({"t": "error", "why": e2}));
            }
            (hex(&b), d)
        }
        Err(p) => (format!("panic: {}", panic_msg(&p)), vec![json!({"t": "error", "why": "panic"})]),
    };
    json!({
        "hasorig": orig.is_some(),
        "orig": orig.map(|o| o.iter().map(describe).collect::<Vec<_>>()).unwrap_or_default(),
        "msgs": msgs.iter().map(describe).collect::<Vec<_>>(),
        "msgs2": msgs2,
        "err": err,
        "wire": hex(bytes),
        "rewire": rewire,
    })
}

pub struct Peer {
    pub id: u64,
    pub doc: Doc,
    pub aw: Option<Awareness>,
    pub events: Rc<RefCell<Vec<Vec<u8>>>>,
    pub _sub: yrs::Subscription,
    pub connected: bool,
    pub inbox: VecDeque<Vec<u8>>,
}

pub struct World {
    pub peers: Vec<Peer>,
    pub now: Arc<AtomicU64>,
    /// one update per local edit, in order
    pub edits: Vec<Vec<u8>>,
    pub chars: HashMap<Id, char>,
    /// units that are map entries (a unit with an origin does not carry its key on the wire)
    pub is_map: HashMap<Id, bool>,
    pub next_char: u32,
    pub next_val: i64,
}

fn mk_doc(client: u64, gc: bool) -> Doc {
    let mut o = Options::default();
    o.client_id = ClientID::new(client);
    o.skip_gc = !gc;
    o.offset_kind = OffsetKind::Utf16;
    let d = Doc::with_options(o);
    d.get_or_insert_text("t");
    d.get_or_insert_map("m");
    d
}

fn canon(a: &Any) -> String {
    match a {
        Any::Map(m) => {
            let mut ks: Vec<&String> = m.keys().collect();
            ks.sort();
            let parts: Vec<String> = ks.iter().map(|k| format!("{}:{}", serde_json::Value::String((*k).clone()), canon(&m[*k]))).collect();
            format!("{{{}}}", parts.join(","))
        }
        Any::Array(v) => format!("[{}]", v.iter().map(canon).collect::<Vec<_>>().join(",")),
        other => obs::any_tag(other),
    }
}

impl World {
    pub fn new(cfg: &Value) -> World {
        let now = Arc::new(AtomicU64::new(1));
        let mut peers = Vec::new();
        for p in cfg["peers"].as_array().cloned().unwrap_or_default() {
            let id = p["id"].as_u64().unwrap();
            let gc = p["gc"].as_bool().unwrap_or(true);
            let doc = mk_doc(id, gc);
            let events = Rc::new(RefCell::new(Vec::new()));
            let e1 = events.clone();
            let sub = doc.observe_update_v1(move |_, e| e1.borrow_mut().push(e.update.clone())).unwrap();
            let aw = if p["role"].as_str() == Some("peer") {
                let n = now.clone();
                let mut aw = Awareness::with_clock(doc.clone(), move || n.load(Ordering::SeqCst));
                if let Some(s) = p["aw"].as_str() {
                    aw.set_local_state(json!(s)).unwrap();
                }
                Some(aw)
            } else {
                None
            };
            peers.push(Peer { id, doc, aw, events, _sub: sub, connected: false, inbox: VecDeque::new() });
        }
        World { peers, now, edits: Vec::new(), chars: HashMap::new(), is_map: HashMap::new(), next_char: 'A' as u32, next_val: 100 }
    }

    fn peer(&self, id: u64) -> usize {
        self.peers.iter().position(|p| p.id == id).unwrap_or_else(|| panic!("unknown peer {}", id))
    }
    fn other(&self, pi: usize) -> usize {
        let me = self.peers[pi].id;
        self.peers.iter().position(|p| p.aw.is_some() && p.id != me).unwrap()
    }

    /// observation of one replica: integrated ids incl. tombstones (hook H1), tombstones, stash,
    /// state vector, missing flag, visible content, awareness register
    pub fn observe(&self, pi: usize) -> Value {
        let p = &self.peers[pi];
        let txn = p.doc.transact();
        let s = obs::structural(&txn);
        let q = obs::pending(&txn);
        let mut ids: Vec<Id> = s.lst.values().flatten().copied().collect();
        ids.extend(s.gone.iter().copied());
        ids.sort();
        let mut dead = s.dead.clone();
        dead.extend(s.gone.iter().copied());
        dead.sort();
        let sv: Vec<Id> = q.sv.iter().copied().filter(|x| x.1 > 0).collect();
        let text = txn.get_text("t").map(|t| t.get_string(&txn)).unwrap_or_default();
        let map = txn.get_map("m").map(|m| canon(&m.to_json(&txn))).unwrap_or_default();
        let order: Vec<Id> = s.lst.get("t|").cloned().unwrap_or_default();
        json!({
            "ids": idsv(&ids), "dead": idsv(&dead), "pend": idsv(&q.pend), "pds": idsv(&q.pds), "sv": idsv(&sv),
            "missing": q.missing_flag, "text": text, "map": map, "order": idsv(&order),
            "integrity": if s.integrity.is_empty() { "ok".to_string() } else { s.integrity.join("; ") },
            "awreg": p.aw.as_ref().map(reg_iter).unwrap_or(json!([])),
        })
    }

    fn drain(&mut self, pi: usize) -> Vec<Vec<u8>> {
        self.peers[pi].events.borrow_mut().drain(..).collect()
    }

    /// sends one frame from peer pi to the other peer; returns its descriptor
    fn send(&mut self, pi: usize, orig: Option<&[Message]>, bytes: Vec<u8>) -> Value {
        let d = frame_desc(orig, &bytes);
        let oi = self.other(pi);
        self.peers[oi].inbox.push_back(bytes);
        d
    }

    pub fn step(&mut self, ix: usize, st: &Value) -> Value {
        self.now.store(1000 + 10 * ix as u64, Ordering::SeqCst);
        match st["a"].as_str().unwrap_or("") {
            "edit" => self.edit(st),
            "pre" => self.pre(st),
            "connect" => self.connect(st),
            "query" => self.query(st),
            "handle" => self.handle(st),
            "codec" => self.codec(st),
            other => json!({"k": "bad", "why": format!("unknown step {}", other)}),
        }
    }

    fn edit(&mut self, st: &Value) -> Value {
        let p = st["p"].as_u64().unwrap();
        let pi = self.peer(p);
        let kind = st["kind"].as_str().unwrap().to_string();
        let ch = char::from_u32(self.next_char).unwrap();
        self.next_char += 1;
        self.next_val += 1;
        let val = self.next_val;
        let target: Option<Id> = st["x"].as_array().map(|a| (a[0].as_u64().unwrap(), a[1].as_u64().unwrap() as u32));
        let doc = self.peers[pi].doc.clone();
        let tch = target.and_then(|t| self.chars.get(&t).copied());
        let res = catch_unwind(AssertUnwindSafe(|| -> Result<(), String> {
            let text = doc.get_or_insert_text("t");
            let map = doc.get_or_insert_map("m");
            let mut txn = doc.transact_mut();
            match kind.as_str() {
                "insf" => text.insert(&mut txn, 0, &ch.to_string()),
                "inse" => {
                    let n = text.len(&txn);
                    text.insert(&mut txn, n, &ch.to_string())
                }
                "set" => {
                    map.insert(&mut txn, "k", Any::Number(val as f64));
                }
                "del" => {
                    let c = tch.ok_or("target character unknown")?;
                    let s = text.get_string(&txn);
                    let i = s.chars().position(|x| x == c).ok_or("target not visible")?;
                    text.remove_range(&mut txn, i as u32, 1);
                }
                other => return Err(format!("unknown edit kind {}", other)),
            }
            Ok(())
        }));
        let outcome = match res {
            Ok(Ok(())) => "ok".to_string(),
            Ok(Err(e)) => format!("skip: {}", e),
            Err(e) => format!("panic: {}", panic_msg(&e)),
        };
        let evs = self.drain(pi);
        let mut upds = Vec::new();
        let mut sent = Vec::new();
        for u in &evs {
            let (ins, del, mut units, _, err) = describe_payload(u);
            if let Ok(w) = codec::decode_update_v1(u) {
                for (i, x) in w.units().iter().enumerate() {
                    if x.kind == "str" {
                        if let Some(c) = x.val.chars().next() {
                            self.chars.insert(x.id, c);
                        }
                    }
                    let m = x.parent_sub.is_some()
                        || x.origin.and_then(|o| self.is_map.get(&o).copied()).unwrap_or(false)
                        || x.right_origin.and_then(|o| self.is_map.get(&o).copied()).unwrap_or(false);
                    self.is_map.insert(x.id, m);
                    units[i]["map"] = json!(m);
                }
            }
            upds.push(json!({"ins": ins, "del": del, "units": units, "err": err}));
            if self.peers[pi].connected {
                let m = [Message::Sync(SyncMessage::Update(u.clone()))];
                let bytes = encode_all(&m);
                sent.push(self.send(pi, Some(&m), bytes));
            }
        }
        // the schedule numbers edits: one slot per edit step
        self.edits.push(evs.first().cloned().unwrap_or_else(|| vec![0, 0]));
        json!({"k": "edit", "p": p, "kind": kind, "x": idv(target.unwrap_or((0, 0))), "outcome": outcome,
               "upds": upds, "sent": sent, "obs": self.observe(pi)})
    }

    fn pre(&mut self, st: &Value) -> Value {
        let t = st["t"].as_u64().unwrap();
        let u = st["u"].as_u64().unwrap() as usize;
        let ti = self.peer(t);
        let bytes = self.edits.get(u - 1).cloned().unwrap_or_else(|| vec![0, 0]);
        let doc = self.peers[ti].doc.clone();
        let res = catch_unwind(AssertUnwindSafe(|| -> Result<(), String> {
            let up = Update::decode_v1(&bytes).map_err(|e| format!("decode: {}", e))?;
            let mut txn = doc.transact_mut();
            txn.apply_update(up).map_err(|e| format!("apply: {}", e))
        }));
        let outcome = match res {
            Ok(Ok(())) => "ok".to_string(),
            Ok(Err(e)) => format!("error: {}", e),
            Err(e) => format!("panic: {}", panic_msg(&e)),
        };
        self.drain(ti);
        json!({"k": "pre", "t": t, "u": u, "outcome": outcome, "obs": self.observe(ti)})
    }

    fn connect(&mut self, st: &Value) -> Value {
        let p = st["p"].as_u64().unwrap();
        let pi = self.peer(p);
        let res = {
            let aw = self.peers[pi].aw.as_ref().unwrap();
            catch_unwind(AssertUnwindSafe(|| -> Result<Vec<u8>, String> {
                let mut enc = EncoderV1::new();
                DefaultProtocol.start(aw, &mut enc).map_err(|e| format!("start: {}", e))?;
                Ok(enc.to_vec())
            }))
        };
        let mut sent = Vec::new();
        let outcome = match res {
            Ok(Ok(bytes)) => {
                sent.push(self.send(pi, None, bytes));
                "ok".to_string()
            }
            Ok(Err(e)) => format!("error: {}", e),
            Err(e) => format!("panic: {}", panic_msg(&e)),
        };
        self.peers[pi].connected = true;
        json!({"k": "connect", "p": p, "outcome": outcome, "sent": sent, "obs": self.observe(pi)})
    }

    fn query(&mut self, st: &Value) -> Value {
        let p = st["p"].as_u64().unwrap();
        let pi = self.peer(p);
        let m = [Message::AwarenessQuery];
        let bytes = encode_all(&m);
        let sent = vec![self.send(pi, Some(&m), bytes)];
        json!({"k": "query", "p": p, "outcome": "ok", "sent": sent, "obs": self.observe(pi)})
    }

    fn handle(&mut self, st: &Value) -> Value {
        let p = st["p"].as_u64().unwrap();
        let pi = self.peer(p);
        let frame = match self.peers[pi].inbox.pop_front() {
            Some(f) => f,
            None => return json!({"k": "handle", "p": p, "outcome": "skip: empty inbox", "in": {"wire": ""}, "sent": [], "obs": self.observe(pi)}),
        };
        let inp = json!({"wire": hex(&frame)});
        let res = {
            let aw = self.peers[pi].aw.as_mut().unwrap();
            catch_unwind(AssertUnwindSafe(|| DefaultProtocol.handle(aw, &frame).map(|r| r.into_iter().collect::<Vec<Message>>())))
        };
        // remote transactions emit update events as well; a two-peer link does not echo them
        self.drain(pi);
        let mut sent = Vec::new();
        let outcome = match res {
            Ok(Ok(replies)) => {
                for m in replies {
                    let one = [m];
                    let bytes = encode_all(&one);
                    sent.push(self.send(pi, Some(&one), bytes));
                }
                "ok".to_string()
            }
            Ok(Err(e)) => format!("error: {}", e),
            Err(e) => format!("panic: {}", panic_msg(&e)),
        };
        json!({"k": "handle", "p": p, "outcome": outcome, "in": inp, "sent": sent, "obs": self.observe(pi)})
    }

    // -----------------------------------------------------------------------------------------
    // message shapes: a sequence of messages is written into one buffer and read back

    fn canned_payload(&self, name: &str) -> Vec<u8> {
        match name {
            "empty" => Update::new().encode_v1(),
            _ => {
                let d = mk_doc(41, true);
                let t = d.get_or_insert_text("t");
                let m = d.get_or_insert_map("m");
                {
                    let mut txn = d.transact_mut();
                    t.insert(&mut txn, 0, "xyz");
                    m.insert(&mut txn, "k", Any::Number(7.0));
                }
                {
                    let mut txn = d.transact_mut();
                    t.remove_range(&mut txn, 1, 1);
                }
                let txn = d.transact();
                txn.encode_state_as_update_v1(&StateVector::default())
            }
        }
    }

    fn build_message(&self, s: &Value) -> Result<Message, String> {
        match s["t"].as_str().unwrap_or("") {
            "step1" => {
                let sv: StateVector = s["sv"].as_array().cloned().unwrap_or_default().iter().map(|x| (ClientID::new(x[0].as_u64().unwrap()), x[1].as_u64().unwrap() as u32)).collect();
                Ok(Message::Sync(SyncMessage::SyncStep1(sv)))
            }
            "step2" => Ok(Message::Sync(SyncMessage::SyncStep2(self.canned_payload(s["payload"].as_str().unwrap_or("empty"))))),
            "update" => Ok(Message::Sync(SyncMessage::Update(self.canned_payload(s["payload"].as_str().unwrap_or("empty"))))),
            "aw" => {
                let mut aw = Awareness::with_clock(mk_doc(s["me"].as_u64().unwrap_or(300), true), || 5u64);
                let n = s["n"].as_u64().unwrap_or(0);
                if n >= 1 {
                    aw.set_local_state(json!({"name": "zoë", "n": 1})).map_err(|e| e.to_string())?;
                }
                if n >= 2 {
                    aw.remove_state(ClientID::new(2));
                }
                let u = if n >= 2 { aw.update_with_clients([aw.client_id(), ClientID::new(2)]) } else { aw.update() };
                Ok(Message::Awareness(u.map_err(|e| e.to_string())?))
            }
            "auth" => {
                if s["denied"].as_bool().unwrap_or(false) {
                    Ok(Message::Auth(Some(s["reason"].as_str().unwrap_or("").to_string())))
                } else {
                    Ok(Message::Auth(None))
                }
            }
            "query" => Ok(Message::AwarenessQuery),
            "custom" => {
                let tag = s["tag"].as_u64().unwrap() as u8;
                let data: Vec<u8> = s["data"].as_array().cloned().unwrap_or_default().iter().map(|x| x.as_u64().unwrap() as u8).collect();
                Ok(Message::Custom(tag, data))
            }
            other => Err(format!("unknown message shape {}", other)),
        }
    }

    fn codec(&mut self, st: &Value) -> Value {
        let shapes = st["msgs"].as_array().cloned().unwrap_or_default();
        let mut ms = Vec::new();
        for s in &shapes {
            match self.build_message(s) {
                Ok(m) => ms.push(m),
                Err(e) => return json!({"k": "codec", "shapes": shapes, "outcome": format!("skip: {}", e), "frame": frame_desc(None, &[])}),
            }
        }
        let enc = catch_unwind(AssertUnwindSafe(|| encode_all(&ms)));
        match enc {
            Ok(bytes) => {
                // each message alone through Message::decode_v1 as well
                let single: Vec<Value> = ms
                    .iter()
                    .map(|m| {
                        let b = m.encode_v1();
                        match catch_unwind(AssertUnwindSafe(|| Message::decode_v1(&b))) {
                            Ok(Ok(d)) => describe(&d),
                            Ok(Err(e)) => json!({"t": "error", "why": e.to_string()}),
                            Err(p) => json!({"t": "error", "why": format!("panic: {}", panic_msg(&p))}),
                        }
                    })
                    .collect();
                json!({"k": "codec", "shapes": shapes, "outcome": "ok", "frame": frame_desc(Some(&ms), &bytes), "single": single})
            }
            Err(p) => json!({"k": "codec", "shapes": shapes, "outcome": format!("panic: encode: {}", panic_msg(&p)), "frame": frame_desc(None, &[]), "single": []}),
        }
    }
}

/// Runs every behaviour of a schedule file; writes the trace.
pub fn run(schedules: &str, out: &str) -> std::io::Result<(usize, usize)> {
    let text = std::fs::read_to_string(schedules)?;
    let mut w = std::io::BufWriter::new(std::fs::File::create(out)?);
    let mut nb = 0usize;
    let mut nev = 0usize;
    std::panic::set_hook(Box::new(|_| {}));
    for line in text.lines() {
        if line.trim().is_empty() {
            continue;
        }
        let b: Value = serde_json::from_str(line).expect("schedule line");
        let bid = b["bid"].as_str().unwrap_or("?").to_string();
        let cfg = &b["cfg"];
        let mut world = World::new(cfg);
        writeln!(w, "{}", json!({"k": "reset", "bid": bid, "cfg": cfg}))?;
        for (ix, st) in b["steps"].as_array().unwrap().iter().enumerate() {
            let e = world.step(ix, st);
            writeln!(w, "{}", e)?;
            nev += 1;
        }
        nb += 1;
    }
    w.flush()?;
    Ok((nb, nev))
}
