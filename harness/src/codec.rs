//! Independent lib0-v1 update decoder/encoder (no yrs code involved).
//!
//! Turns update bytes into an abstract update at *unit* granularity: one record per clock unit
//! with the chained origins that splitting the block would give (unit i>0 has origin unit i-1
//! and the block's right origin). This is the wire oracle and the way V learns which elements
//! a call created.

use serde_json::{json, Value};
use std::collections::BTreeMap;

pub type Id = (u64, u32);

#[derive(Debug, Clone, PartialEq)]
pub enum Parent {
    Root(String),
    Nested(Id),
    /// not on the wire (item has an origin or right origin): to be resolved from neighbours
    Inherit,
}

#[derive(Debug, Clone, PartialEq)]
pub enum Content {
    Gc,
    Skip,
    Deleted,
    Json(Vec<String>),
    Binary(Vec<u8>),
    Str(String),
    Embed(String),
    Format(String, String),
    Type(TypeInfo),
    Any(Vec<Value>),
    Doc(String, Value),
}

#[derive(Debug, Clone, PartialEq)]
pub struct TypeInfo {
    pub tref: u8,
    pub name: Option<String>,
    /// weak link: (flags, start scope, end scope)
    pub weak: Option<(u8, Scope, Scope)>,
}

#[derive(Debug, Clone, PartialEq)]
pub enum Scope {
    Id(Id),
    Root(String),
    Same,
}

#[derive(Debug, Clone)]
pub struct WBlock {
    pub id: Id,
    pub len: u32,
    pub origin: Option<Id>,
    pub right_origin: Option<Id>,
    pub parent: Parent,
    pub parent_sub: Option<String>,
    pub content: Content,
}

#[derive(Debug, Clone, Default)]
pub struct WUpdate {
    pub blocks: Vec<WBlock>,
    /// (client, clock, len)
    pub del: Vec<(u64, u32, u32)>,
}

#[derive(Debug)]
pub struct DecodeError(pub String);

pub struct Reader<'a> {
    pub buf: &'a [u8],
    pub pos: usize,
}

impl<'a> Reader<'a> {
    pub fn new(buf: &'a [u8]) -> Self {
        Reader { buf, pos: 0 }
    }
    pub fn eof(&self) -> bool {
        self.pos >= self.buf.len()
    }
    pub fn u8(&mut self) -> Result<u8, DecodeError> {
        if self.pos >= self.buf.len() {
            return Err(DecodeError("eof".into()));
        }
        let b = self.buf[self.pos];
        self.pos += 1;
        Ok(b)
    }
    pub fn var(&mut self) -> Result<u64, DecodeError> {
        let mut num: u64 = 0;
        let mut shift = 0u32;
        loop {
            let b = self.u8()?;
            if shift >= 64 {
                return Err(DecodeError("varint too long".into()));
            }
            num |= ((b & 0x7f) as u64) << shift;
            shift += 7;
            if b < 0x80 {
                return Ok(num);
            }
        }
    }
    pub fn var32(&mut self) -> Result<u32, DecodeError> {
        let v = self.var()?;
        if v > u32::MAX as u64 {
            return Err(DecodeError("u32 overflow".into()));
        }
        Ok(v as u32)
    }
    /// lib0 signed varint: first byte bit7=continue bit6=sign, 6 data bits; then 7 bits each.
    pub fn var_i64(&mut self) -> Result<(i64, bool), DecodeError> {
        let b = self.u8()?;
        let neg = b & 0x40 != 0;
        let mut num: u64 = (b & 0x3f) as u64;
        let mut shift = 6u32;
        let mut cont = b & 0x80 != 0;
        while cont {
            let b = self.u8()?;
            if shift >= 64 {
                return Err(DecodeError("varint too long".into()));
            }
            num |= ((b & 0x7f) as u64) << shift;
            shift += 7;
            cont = b & 0x80 != 0;
        }
        let v = num as i64;
        Ok((if neg { -v } else { v }, neg))
    }
    pub fn bytes(&mut self, n: usize) -> Result<&'a [u8], DecodeError> {
        if self.pos + n > self.buf.len() {
            return Err(DecodeError("eof in bytes".into()));
        }
        let s = &self.buf[self.pos..self.pos + n];
        self.pos += n;
        Ok(s)
    }
    pub fn buf(&mut self) -> Result<&'a [u8], DecodeError> {
        let n = self.var()? as usize;
        self.bytes(n)
    }
    pub fn string(&mut self) -> Result<String, DecodeError> {
        let b = self.buf()?;
        String::from_utf8(b.to_vec()).map_err(|_| DecodeError("bad utf8".into()))
    }
    pub fn id(&mut self) -> Result<Id, DecodeError> {
        let c = self.var()?;
        let k = self.var32()?;
        Ok((c, k))
    }
    pub fn any(&mut self) -> Result<Value, DecodeError> {
        let tag = self.u8()?;
        Ok(match tag {
            127 => json!({"$": "undefined"}),
            126 => Value::Null,
            125 => {
                let (v, _) = self.var_i64()?;
                json!(v)
            }
            124 => {
                let b = self.bytes(4)?;
                let f = f32::from_be_bytes([b[0], b[1], b[2], b[3]]);
                json!({"$": "f32", "v": f as f64})
            }
            123 => {
                let b = self.bytes(8)?;
                let mut a = [0u8; 8];
                a.copy_from_slice(b);
                let f = f64::from_be_bytes(a);
                if f.is_finite() {
                    json!(f)
                } else {
                    json!({"$": "f64", "v": f.to_string()})
                }
            }
            122 => {
                let b = self.bytes(8)?;
                let mut a = [0u8; 8];
                a.copy_from_slice(b);
                json!({"$": "big", "v": i64::from_be_bytes(a)})
            }
            121 => json!(false),
            120 => json!(true),
            119 => json!(self.string()?),
            118 => {
                let n = self.var()? as usize;
                let mut m = BTreeMap::new();
                for _ in 0..n {
                    let k = self.string()?;
                    let v = self.any()?;
                    m.insert(k, v);
                }
                Value::Object(m.into_iter().collect())
            }
            117 => {
                let n = self.var()? as usize;
                let mut v = Vec::new();
                for _ in 0..n {
                    v.push(self.any()?);
                }
                Value::Array(v)
            }
            116 => {
                let b = self.buf()?;
                json!({"$": "buf", "v": b.to_vec()})
            }
            t => return Err(DecodeError(format!("bad any tag {}", t))),
        })
    }
}

fn utf16_len(s: &str) -> u32 {
    s.encode_utf16().count() as u32
}

pub fn decode_update_v1(bytes: &[u8]) -> Result<WUpdate, DecodeError> {
    let mut r = Reader::new(bytes);
    let mut up = WUpdate::default();
    let nclients = r.var()?;
    for _ in 0..nclients {
        let nblocks = r.var()?;
        let client = r.var()?;
        let mut clock = r.var32()?;
        for _ in 0..nblocks {
            let info = r.u8()?;
            let refn = info & 0b1_1111;
            if refn == 0 {
                let len = r.var32()?;
                up.blocks.push(WBlock { id: (client, clock), len, origin: None, right_origin: None, parent: Parent::Inherit, parent_sub: None, content: Content::Gc });
                clock += len;
                continue;
            }
            if refn == 10 {
                let len = r.var32()?;
                up.blocks.push(WBlock { id: (client, clock), len, origin: None, right_origin: None, parent: Parent::Inherit, parent_sub: None, content: Content::Skip });
                clock += len;
                continue;
            }
            let origin = if info & 0x80 != 0 { Some(r.id()?) } else { None };
            let right_origin = if info & 0x40 != 0 { Some(r.id()?) } else { None };
            let mut parent = Parent::Inherit;
            let mut parent_sub = None;
            if info & 0xC0 == 0 {
                let named = r.var()?;
                parent = if named == 1 { Parent::Root(r.string()?) } else { Parent::Nested(r.id()?) };
                if info & 0x20 != 0 {
                    parent_sub = Some(r.string()?);
                }
            }
            let (content, len) = match refn {
                1 => {
                    let len = r.var32()?;
                    (Content::Deleted, len)
                }
                2 => {
                    let n = r.var32()?;
                    let mut v = Vec::new();
                    for _ in 0..n {
                        v.push(r.string()?);
                    }
                    (Content::Json(v), n)
                }
                3 => (Content::Binary(r.buf()?.to_vec()), 1),
                4 => {
                    let s = r.string()?;
                    let l = utf16_len(&s);
                    (Content::Str(s), l)
                }
                5 => (Content::Embed(r.string()?), 1),
                6 => {
                    let k = r.string()?;
                    let v = r.string()?;
                    (Content::Format(k, v), 1)
                }
                7 => {
                    let tref = r.var()? as u8;
                    let mut ti = TypeInfo { tref, name: None, weak: None };
                    match tref {
                        3 | 5 => ti.name = Some(r.string()?),
                        7 => {
                            let flags = r.u8()?;
                            let single = flags & 1 == 0;
                            let start_unb = flags & 0b1000 != 0;
                            let end_unb = flags & 0b1_0000 != 0;
                            let root = flags & 0b10_0000 != 0;
                            let start = if start_unb && root { Scope::Root(r.string()?) } else { Scope::Id(r.id()?) };
                            let end = if end_unb {
                                if root { Scope::Root(r.string()?) } else { Scope::Id(r.id()?) }
                            } else if single {
                                Scope::Same
                            } else {
                                Scope::Id(r.id()?)
                            };
                            ti.weak = Some((flags, start, end));
                        }
                        _ => {}
                    }
                    (Content::Type(ti), 1)
                }
                8 => {
                    let n = r.var32()?;
                    let mut v = Vec::new();
                    for _ in 0..n {
                        v.push(r.any()?);
                    }
                    (Content::Any(v), n)
                }
                9 => {
                    let guid = r.string()?;
                    let opts = r.any()?;
                    (Content::Doc(guid, opts), 1)
                }
                x => return Err(DecodeError(format!("bad content ref {}", x))),
            };
            if len == 0 {
                return Err(DecodeError("zero-length block".into()));
            }
            up.blocks.push(WBlock { id: (client, clock), len, origin, right_origin, parent, parent_sub, content });
            clock += len;
        }
    }
    let nclients = r.var()?;
    for _ in 0..nclients {
        let client = r.var()?;
        let nranges = r.var()?;
        for _ in 0..nranges {
            let clock = r.var32()?;
            let len = r.var32()?;
            up.del.push((client, clock, len));
        }
    }
    if !r.eof() {
        return Err(DecodeError(format!("trailing bytes: {} of {}", r.pos, bytes.len())));
    }
    Ok(up)
}

// ---------------------------------------------------------------------------------------------
// independent encoder (v1) — used to hand-craft payloads the Rust API cannot produce

pub struct Writer {
    pub buf: Vec<u8>,
}

impl Writer {
    pub fn new() -> Self {
        Writer { buf: Vec::new() }
    }
    pub fn u8(&mut self, b: u8) {
        self.buf.push(b)
    }
    pub fn var(&mut self, mut v: u64) {
        while v >= 0x80 {
            self.buf.push((v as u8 & 0x7f) | 0x80);
            v >>= 7;
        }
        self.buf.push(v as u8);
    }
    pub fn string(&mut self, s: &str) {
        self.var(s.len() as u64);
        self.buf.extend_from_slice(s.as_bytes());
    }
    pub fn bytes(&mut self, b: &[u8]) {
        self.var(b.len() as u64);
        self.buf.extend_from_slice(b);
    }
    pub fn id(&mut self, id: Id) {
        self.var(id.0);
        self.var(id.1 as u64);
    }
    pub fn var_i64(&mut self, v: i64) {
        let neg = v < 0;
        let mut n = v.unsigned_abs();
        let mut b = (n & 0x3f) as u8;
        n >>= 6;
        if neg {
            b |= 0x40;
        }
        if n > 0 {
            b |= 0x80;
        }
        self.buf.push(b);
        while n > 0 {
            let mut b = (n & 0x7f) as u8;
            n >>= 7;
            if n > 0 {
                b |= 0x80;
            }
            self.buf.push(b);
        }
    }
    pub fn any(&mut self, v: &Value) {
        match v {
            Value::Null => self.u8(126),
            Value::Bool(false) => self.u8(121),
            Value::Bool(true) => self.u8(120),
            Value::Number(n) => {
                if let Some(i) = n.as_i64() {
                    self.u8(125);
                    self.var_i64(i);
                } else {
                    self.u8(123);
                    self.buf.extend_from_slice(&n.as_f64().unwrap().to_be_bytes());
                }
            }
            Value::String(s) => {
                self.u8(119);
                self.string(s);
            }
            Value::Array(a) => {
                self.u8(117);
                self.var(a.len() as u64);
                for x in a {
                    self.any(x);
                }
            }
            Value::Object(m) => {
                if let Some(Value::String(t)) = m.get("$") {
                    match t.as_str() {
                        "undefined" => self.u8(127),
                        "big" => {
                            self.u8(122);
                            self.buf.extend_from_slice(&m["v"].as_i64().unwrap().to_be_bytes());
                        }
                        "buf" => {
                            self.u8(116);
                            let b: Vec<u8> = m["v"].as_array().unwrap().iter().map(|x| x.as_u64().unwrap() as u8).collect();
                            self.bytes(&b);
                        }
                        "f32" => {
                            self.u8(124);
                            self.buf.extend_from_slice(&(m["v"].as_f64().unwrap() as f32).to_be_bytes());
                        }
                        _ => self.u8(127),
                    }
                } else {
                    self.u8(118);
                    self.var(m.len() as u64);
                    for (k, x) in m {
                        self.string(k);
                        self.any(x);
                    }
                }
            }
        }
    }
}

/// Encodes blocks (must be grouped by client, clock-contiguous within a client, clients in the
/// order given) and a delete set.
pub fn encode_update_v1(up: &WUpdate) -> Vec<u8> {
    let mut w = Writer::new();
    let mut groups: Vec<(u64, Vec<&WBlock>)> = Vec::new();
    for b in &up.blocks {
        match groups.last_mut() {
            Some((c, v)) if *c == b.id.0 => v.push(b),
            _ => groups.push((b.id.0, vec![b])),
        }
    }
    w.var(groups.len() as u64);
    for (client, blocks) in &groups {
        w.var(blocks.len() as u64);
        w.var(*client);
        w.var(blocks[0].id.1 as u64);
        for b in blocks {
            let refn: u8 = match &b.content {
                Content::Gc => 0,
                Content::Deleted => 1,
                Content::Json(_) => 2,
                Content::Binary(_) => 3,
                Content::Str(_) => 4,
                Content::Embed(_) => 5,
                Content::Format(_, _) => 6,
                Content::Type(_) => 7,
                Content::Any(_) => 8,
                Content::Doc(_, _) => 9,
                Content::Skip => 10,
            };
            if refn == 0 || refn == 10 {
                w.u8(refn);
                w.var(b.len as u64);
                continue;
            }
            let mut info = refn;
            if b.origin.is_some() {
                info |= 0x80;
            }
            if b.right_origin.is_some() {
                info |= 0x40;
            }
            if b.parent_sub.is_some() {
                info |= 0x20;
            }
            w.u8(info);
            if let Some(o) = b.origin {
                w.id(o);
            }
            if let Some(o) = b.right_origin {
                w.id(o);
            }
            if info & 0xC0 == 0 {
                match &b.parent {
                    Parent::Root(n) => {
                        w.var(1);
                        w.string(n);
                    }
                    Parent::Nested(id) => {
                        w.var(0);
                        w.id(*id);
                    }
                    Parent::Inherit => panic!("parent required"),
                }
                if let Some(s) = &b.parent_sub {
                    w.string(s);
                }
            }
            match &b.content {
                Content::Deleted => w.var(b.len as u64),
                Content::Json(v) => {
                    w.var(v.len() as u64);
                    for s in v {
                        w.string(s);
                    }
                }
                Content::Binary(x) => w.bytes(x),
                Content::Str(s) => w.string(s),
                Content::Embed(s) => w.string(s),
                Content::Format(k, v) => {
                    w.string(k);
                    w.string(v);
                }
                Content::Type(t) => {
                    w.var(t.tref as u64);
                    if let Some(n) = &t.name {
                        w.string(n);
                    }
                }
                Content::Any(v) => {
                    w.var(v.len() as u64);
                    for x in v {
                        w.any(x);
                    }
                }
                Content::Doc(g, o) => {
                    w.string(g);
                    w.any(o);
                }
                _ => {}
            }
        }
    }
    let mut ds: BTreeMap<u64, Vec<(u32, u32)>> = BTreeMap::new();
    for (c, k, l) in &up.del {
        ds.entry(*c).or_default().push((*k, *l));
    }
    w.var(ds.len() as u64);
    for (c, ranges) in ds {
        w.var(c);
        w.var(ranges.len() as u64);
        for (k, l) in ranges {
            w.var(k as u64);
            w.var(l as u64);
        }
    }
    w.buf
}

// ---------------------------------------------------------------------------------------------
// unit-level abstract form

/// One clock unit of an update in abstract form.
#[derive(Debug, Clone)]
pub struct Unit {
    pub id: Id,
    pub origin: Option<Id>,
    pub right_origin: Option<Id>,
    pub parent: Parent,
    pub parent_sub: Option<String>,
    /// "str" "any" "json" "bin" "embed" "fmt" "type" "doc" "deleted" "gc"
    pub kind: &'static str,
    /// value tag: the character / JSON text of the value / type name
    pub val: String,
    /// extra: format key, type ref number
    pub aux: String,
    /// weak-link quoted ids (dependencies)
    pub quoted: Vec<Id>,
}

fn utf16_units(s: &str) -> Vec<String> {
    let mut out = Vec::new();
    for ch in s.chars() {
        let n = ch.len_utf16();
        out.push(ch.to_string());
        if n == 2 {
            out.push(String::new()); // low surrogate half
        }
    }
    out
}

pub fn tref_name(t: &TypeInfo) -> String {
    match t.tref {
        0 => "array".into(),
        1 => "map".into(),
        2 => "text".into(),
        3 => format!("xmlelem:{}", t.name.clone().unwrap_or_default()),
        4 => "xmlfrag".into(),
        5 => format!("xmlhook:{}", t.name.clone().unwrap_or_default()),
        6 => "xmltext".into(),
        7 => "weak".into(),
        9 => "doc".into(),
        15 => "undefined".into(),
        x => format!("type{}", x),
    }
}

impl WUpdate {
    /// Expands blocks to units. Skip blocks yield nothing.
    pub fn units(&self) -> Vec<Unit> {
        let mut out = Vec::new();
        for b in &self.blocks {
            let vals: Vec<(String, String)> = match &b.content {
                Content::Skip => continue,
                Content::Gc => (0..b.len).map(|_| (String::new(), String::new())).collect(),
                Content::Deleted => (0..b.len).map(|_| (String::new(), String::new())).collect(),
                Content::Json(v) => v.iter().map(|s| (s.clone(), String::new())).collect(),
                Content::Binary(x) => vec![(format!("{:?}", x), String::new())],
                Content::Str(s) => utf16_units(s).into_iter().map(|c| (c, String::new())).collect(),
                Content::Embed(s) => vec![(s.clone(), String::new())],
                Content::Format(k, v) => vec![(v.clone(), k.clone())],
                Content::Type(t) => vec![(tref_name(t), t.tref.to_string())],
                Content::Any(v) => v.iter().map(|x| (x.to_string(), String::new())).collect(),
                Content::Doc(g, _) => vec![(g.clone(), String::new())],
            };
            let kind: &'static str = match &b.content {
                Content::Gc => "gc",
                Content::Deleted => "deleted",
                Content::Json(_) => "json",
                Content::Binary(_) => "bin",
                Content::Str(_) => "str",
                Content::Embed(_) => "embed",
                Content::Format(_, _) => "fmt",
                Content::Type(_) => "type",
                Content::Any(_) => "any",
                Content::Doc(_, _) => "doc",
                Content::Skip => unreachable!(),
            };
            let mut quoted = Vec::new();
            if let Content::Type(t) = &b.content {
                if let Some((_, s, e)) = &t.weak {
                    if let Scope::Id(id) = s {
                        quoted.push(*id);
                    }
                    if let Scope::Id(id) = e {
                        quoted.push(*id);
                    }
                }
            }
            for (i, (val, aux)) in vals.into_iter().enumerate() {
                let i = i as u32;
                out.push(Unit {
                    id: (b.id.0, b.id.1 + i),
                    origin: if i == 0 { b.origin } else { Some((b.id.0, b.id.1 + i - 1)) },
                    right_origin: b.right_origin,
                    parent: if i == 0 { b.parent.clone() } else { Parent::Inherit },
                    parent_sub: b.parent_sub.clone(),
                    kind,
                    val,
                    aux,
                    quoted: quoted.clone(),
                });
            }
        }
        out
    }

    pub fn del_units(&self) -> Vec<Id> {
        let mut out = Vec::new();
        for (c, k, l) in &self.del {
            for i in 0..*l {
                out.push((*c, k + i));
            }
        }
        out.sort();
        out.dedup();
        out
    }

    pub fn skip_ranges(&self) -> Vec<(u64, u32, u32)> {
        self.blocks.iter().filter(|b| b.content == Content::Skip).map(|b| (b.id.0, b.id.1, b.len)).collect()
    }
}
