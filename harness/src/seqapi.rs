//! X stage for the `SeqApi` specification: executes single-replica programs of public API calls on a real
//! `yrs::Doc` and records, after every call, every read accessor of every reachable shared type.

use crate::yata::panic_msg;
use serde_json::{json, Value};
use std::collections::HashMap;
use std::io::Write;
use std::panic::{catch_unwind, AssertUnwindSafe};
use std::sync::Arc;
use yrs::types::text::YChange;
use yrs::types::xml::{XmlFragment, XmlOut};
use yrs::types::{Attrs, Delta, ToJson};
use yrs::{
    Any, Array, ArrayPrelim, ArrayRef, Doc, GetString, In, Map, MapPrelim, MapRef, OffsetKind, Options, Out, ReadTxn, Text, TextPrelim, TextRef,
    Transact, TransactionMut, Xml, XmlElementPrelim, XmlElementRef, XmlFragmentRef, XmlTextPrelim, XmlTextRef,
};

pub struct Sx {
    pub doc: Doc,
    next: [u32; 4],
    next_val: i64,
    /// value tag -> true (registered values)
    vals: HashMap<String, ()>,
}

const POOLS: [u32; 4] = [0x61, 0x00E0, 0x4E00, 0x1F600];

fn class_ix(c: &str) -> usize {
    match c {
        "a" => 0,
        "e" => 1,
        "u" => 2,
        _ => 3,
    }
}

fn token_of(b: &yrs::branch::Branch) -> String {
    match b.id() {
        yrs::BranchID::Nested(id) => format!("{}:{}", id.client.get(), id.clock),
        yrs::BranchID::Root(n) => n.to_string(),
    }
}

fn any_attr(a: &Any) -> String {
    match a {
        Any::String(s) => s.to_string(),
        Any::Bool(b) => b.to_string(),
        Any::Null => "null".into(),
        Any::Number(n) => format!("{}", n),
        other => {
            let mut s = String::new();
            other.to_json(&mut s);
            s
        }
    }
}

fn attrs_json(a: Option<&Attrs>) -> Value {
    let mut v: Vec<(String, String)> = a.map(|m| m.iter().map(|(k, v)| (k.to_string(), any_attr(v))).collect()).unwrap_or_default();
    v.sort();
    Value::Array(v.into_iter().map(|(k, v)| json!([k, v])).collect())
}

fn to_attrs(v: &Value) -> Attrs {
    let mut a = Attrs::new();
    if let Some(list) = v.as_array() {
        for p in list {
            let k: Arc<str> = Arc::from(p[0].as_str().unwrap());
            let val = match p[1].as_str().unwrap() {
                "null" => Any::Null,
                "true" => Any::Bool(true),
                s => Any::String(Arc::from(s)),
            };
            a.insert(k, val);
        }
    }
    a
}

fn val_tag(a: &Any) -> String {
    match a {
        Any::Number(n) => format!("v{}", *n as i64),
        other => {
            let mut s = String::new();
            other.to_json(&mut s);
            format!("?{}", s)
        }
    }
}

fn out_tag(o: &Out) -> String {
    match o {
        Out::Any(a) => val_tag(a),
        other => other.try_branch().map(token_of).unwrap_or_else(|| "?".into()),
    }
}

fn xml_tag(o: &XmlOut) -> String {
    let b: &yrs::branch::Branch = o.as_ref();
    token_of(b)
}

impl Sx {
    pub fn new(cfg: &Value) -> Sx {
        let mut o = Options::default();
        o.client_id = yrs::block::ClientID::new(1);
        o.skip_gc = !cfg["gc"].as_bool().unwrap_or(true);
        o.offset_kind = if cfg["offset"].as_str() == Some("bytes") { OffsetKind::Bytes } else { OffsetKind::Utf16 };
        let doc = Doc::with_options(o);
        doc.get_or_insert_text("t");
        doc.get_or_insert_array("a");
        doc.get_or_insert_map("m");
        doc.get_or_insert_xml_fragment("x");
        Sx { doc, next: POOLS, next_val: 1000, vals: HashMap::new() }
    }

    fn chars(&mut self, classes: &Value) -> (String, Vec<Value>) {
        let mut s = String::new();
        let mut cells = Vec::new();
        for c in classes.as_array().cloned().unwrap_or_default() {
            let ix = class_ix(c.as_str().unwrap_or("a"));
            let ch = char::from_u32(self.next[ix]).unwrap();
            self.next[ix] += 1;
            s.push(ch);
            cells.push(json!({"tag": ch.to_string(), "w8": ch.len_utf8(), "w16": ch.len_utf16(), "kind": "ch", "ref": ""}));
        }
        (s, cells)
    }

    fn val(&mut self) -> (Any, String) {
        self.next_val += 1;
        let t = format!("v{}", self.next_val);
        self.vals.insert(t.clone(), ());
        (Any::Number(self.next_val as f64), t)
    }

    fn nav<T: ReadTxn>(&self, txn: &T, path: &[String]) -> Result<Out, String> {
        let mut cur: Out = match path[0].as_str() {
            "t" => Out::YText(txn.get_text("t").ok_or("no root")?),
            "a" => Out::YArray(txn.get_array("a").ok_or("no root")?),
            "m" => Out::YMap(txn.get_map("m").ok_or("no root")?),
            "x" => Out::YXmlFragment(txn.get_xml_fragment("x").ok_or("no root")?),
            _ => return Err("unknown root".into()),
        };
        for seg in &path[1..] {
            cur = if let Some(i) = seg.strip_prefix('#') {
                let i: u32 = i.parse().map_err(|_| "bad index")?;
                match &cur {
                    Out::YArray(a) => a.get(txn, i).ok_or("no element")?,
                    Out::YXmlFragment(f) => xml_to_out(f.get(txn, i).ok_or("no child")?),
                    Out::YXmlElement(f) => xml_to_out(f.get(txn, i).ok_or("no child")?),
                    _ => return Err("index into non-sequence".into()),
                }
            } else {
                match &cur {
                    Out::YMap(m) => m.get(txn, seg).ok_or("no key")?,
                    _ => return Err("key into non-map".into()),
                }
            };
        }
        Ok(cur)
    }

    /// nested prelim of the requested kind with initial content; returns (In, cell json, nested container descriptions)
    fn prelim(&mut self, kind: &str) -> (In, Vec<Value>) {
        match kind {
            "A" => {
                let (a, ta) = self.val();
                let (b, tb) = self.val();
                (
                    In::Array(ArrayPrelim::from([a, b])),
                    vec![json!({"kind": "array", "name": "", "map": [], "seq": [
                        {"tag": ta, "w8": 1, "w16": 1, "kind": "val", "ref": ""}, {"tag": tb, "w8": 1, "w16": 1, "kind": "val", "ref": ""}]})],
                )
            }
            "M" => {
                let (a, ta) = self.val();
                (
                    In::Map(MapPrelim::from([("k1".to_string(), a)])),
                    vec![json!({"kind": "map", "name": "", "seq": [], "map": [["k1", {"tag": ta, "w8": 1, "w16": 1, "kind": "val", "ref": ""}]]})],
                )
            }
            _ => {
                let (s, cells) = self.chars(&json!(["a", "u"]));
                (In::Text(TextPrelim::new(s).into()), vec![json!({"kind": "text", "name": "", "map": [], "seq": cells})])
            }
        }
    }

    pub fn call(&mut self, txn: &mut TransactionMut, c: &Value) -> Value {
        let op = c["op"].as_str().unwrap_or("").to_string();
        let path: Vec<String> = c["p"].as_array().map(|v| v.iter().map(|x| x.as_str().unwrap().to_string()).collect()).unwrap_or_default();
        let mut new_cells: Vec<Value> = Vec::new();
        let mut nested: Vec<Value> = Vec::new();
        let mut ret = json!({});
        let mut tok = String::new();
        let res = catch_unwind(AssertUnwindSafe(|| -> Result<(), String> {
            let target = self.nav(txn, &path)?;
            tok = target.try_branch().map(token_of).unwrap_or_default();
            let off = c["off"].as_u64().unwrap_or(0) as u32;
            let len = c["len"].as_u64().unwrap_or(0) as u32;
            let i = c["i"].as_u64().unwrap_or(0) as u32;
            let n = c["n"].as_u64().unwrap_or(1) as u32;
            let key = c["key"].as_str().unwrap_or("").to_string();
            let kind = c["kind"].as_str().unwrap_or("u").to_string();
            // text-like targets
            let text: Option<TextRef> = match &target {
                Out::YText(t) => Some(t.clone()),
                Out::YXmlText(t) => {
                    let r: &TextRef = t.as_ref();
                    Some(r.clone())
                }
                _ => None,
            };
            match op.as_str() {
                "tins" | "tpush" => {
                    let t = text.ok_or("not a text")?;
                    let (s, cells) = self.chars(&c["s"]);
                    new_cells = cells;
                    if op == "tpush" {
                        t.push(txn, &s);
                    } else if c["attrs"].is_null() {
                        t.insert(txn, off, &s);
                    } else {
                        t.insert_with_attributes(txn, off, &s, to_attrs(&c["attrs"]));
                    }
                }
                "temb" => {
                    let t = text.ok_or("not a text")?;
                    let (v, tag) = self.val();
                    new_cells = vec![json!({"tag": tag, "w8": 1, "w16": 1, "kind": "embed", "ref": ""})];
                    if c["attrs"].is_null() {
                        t.insert_embed(txn, off, v);
                    } else {
                        t.insert_embed_with_attributes(txn, off, v, to_attrs(&c["attrs"]));
                    }
                }
                "tfmt" => {
                    let t = text.ok_or("not a text")?;
                    t.format(txn, off, len, to_attrs(&c["attrs"]));
                }
                "tdel" => {
                    let t = text.ok_or("not a text")?;
                    t.remove_range(txn, off, len);
                }
                "tdelta" => {
                    let t = text.ok_or("not a text")?;
                    let mut delta: Vec<Delta<In>> = Vec::new();
                    let mut ops_out = Vec::new();
                    for o in c["ops"].as_array().cloned().unwrap_or_default() {
                        let attrs = if o["attrs"].is_null() { None } else { Some(Box::new(to_attrs(&o["attrs"]))) };
                        match o["op"].as_str().unwrap() {
                            "r" => {
                                delta.push(Delta::Retain(o["n"].as_u64().unwrap() as u32, attrs));
                                ops_out.push(json!({"op": "r", "n": o["n"], "cells": [], "hasattrs": !o["attrs"].is_null(), "attrs": if o["attrs"].is_null() { json!([]) } else { o["attrs"].clone() }}));
                            }
                            "d" => {
                                delta.push(Delta::Deleted(o["n"].as_u64().unwrap() as u32));
                                ops_out.push(json!({"op": "d", "n": o["n"], "cells": [], "hasattrs": false, "attrs": []}));
                            }
                            _ => {
                                let (s, cells) = self.chars(&o["s"]);
                                delta.push(Delta::Inserted(In::Any(Any::String(Arc::from(s.as_str()))), attrs));
                                ops_out.push(json!({"op": "i", "n": 0, "cells": cells, "hasattrs": !o["attrs"].is_null(), "attrs": if o["attrs"].is_null() { json!([]) } else { o["attrs"].clone() }}));
                            }
                        }
                    }
                    ret = json!({"ops": ops_out});
                    t.apply_delta(txn, delta);
                }
                "amix" => {
                    // a range of plain values with a nested map in the middle (the C API takes it in ONE call)
                    let a: ArrayRef = match &target {
                        Out::YArray(a) => a.clone(),
                        _ => return Err("not an array".into()),
                    };
                    let (v1, t1) = self.val();
                    let (v2, t2) = self.val();
                    let (p, mut nd) = self.prelim("M");
                    let (v3, t3) = self.val();
                    a.insert_range(txn, i, vec![v1, v2]);
                    let out = a.insert(txn, i + 2, p);
                    a.insert(txn, i + 3, v3);
                    let t = out.try_branch().map(token_of).unwrap_or_default();
                    nd[0]["tok"] = json!(t);
                    new_cells.push(json!({"tag": t1, "w8": 1, "w16": 1, "kind": "val", "ref": ""}));
                    new_cells.push(json!({"tag": t2, "w8": 1, "w16": 1, "kind": "val", "ref": ""}));
                    new_cells.push(json!({"tag": t, "w8": 1, "w16": 1, "kind": "type", "ref": t}));
                    new_cells.push(json!({"tag": t3, "w8": 1, "w16": 1, "kind": "val", "ref": ""}));
                    nested = nd;
                }
                "ains" | "apushb" | "apushf" | "arange" => {
                    let a: ArrayRef = match &target {
                        Out::YArray(a) => a.clone(),
                        _ => return Err("not an array".into()),
                    };
                    if op == "arange" {
                        let mut vs = Vec::new();
                        for _ in 0..n {
                            let (v, t) = self.val();
                            vs.push(v);
                            new_cells.push(json!({"tag": t, "w8": 1, "w16": 1, "kind": "val", "ref": ""}));
                        }
                        a.insert_range(txn, i, vs);
                    } else if kind == "u" {
                        let (v, t) = self.val();
                        new_cells.push(json!({"tag": t, "w8": 1, "w16": 1, "kind": "val", "ref": ""}));
                        match op.as_str() {
                            "ains" => a.insert(txn, i, v),
                            "apushb" => a.push_back(txn, v),
                            _ => a.push_front(txn, v),
                        };
                    } else {
                        let (p, mut nd) = self.prelim(&kind);
                        let out = match op.as_str() {
                            "ains" => a.insert(txn, i, p),
                            "apushb" => a.push_back(txn, p),
                            _ => a.push_front(txn, p),
                        };
                        let t = out.try_branch().map(token_of).unwrap_or_default();
                        nd[0]["tok"] = json!(t);
                        new_cells.push(json!({"tag": t, "w8": 1, "w16": 1, "kind": "type", "ref": t}));
                        nested = nd;
                    }
                }
                "adel" | "adelr" => {
                    let a: ArrayRef = match &target {
                        Out::YArray(a) => a.clone(),
                        _ => return Err("not an array".into()),
                    };
                    if op == "adel" {
                        a.remove(txn, i);
                    } else {
                        a.remove_range(txn, i, n);
                    }
                }
                "mset" | "mupd" | "mrem" | "mclear" | "minit" => {
                    let m: MapRef = match &target {
                        Out::YMap(m) => m.clone(),
                        _ => return Err("not a map".into()),
                    };
                    match op.as_str() {
                        "mset" => {
                            if kind == "u" {
                                let (v, t) = self.val();
                                new_cells.push(json!({"tag": t, "w8": 1, "w16": 1, "kind": "val", "ref": ""}));
                                m.insert(txn, key.clone(), v);
                            } else {
                                let (p, mut nd) = self.prelim(&kind);
                                let out = m.insert(txn, key.clone(), p);
                                let t = out.try_branch().map(token_of).unwrap_or_default();
                                nd[0]["tok"] = json!(t);
                                new_cells.push(json!({"tag": t, "w8": 1, "w16": 1, "kind": "type", "ref": t}));
                                nested = nd;
                            }
                        }
                        "mupd" => {
                            // try_update with the value currently stored ("same") or a fresh one ("new")
                            let cur = m.get(txn, &key);
                            let same = c["mode"].as_str() == Some("same");
                            let (v, t) = match (&cur, same) {
                                (Some(Out::Any(a)), true) => (a.clone(), val_tag(a)),
                                _ => self.val(),
                            };
                            new_cells.push(json!({"tag": t, "w8": 1, "w16": 1, "kind": "val", "ref": ""}));
                            let r = m.try_update(txn, key.clone(), v);
                            ret = json!({"updated": r});
                        }
                        "mrem" => {
                            let old = m.remove(txn, &key);
                            ret = json!({"old": old.as_ref().map(out_tag).unwrap_or_default()});
                        }
                        "mclear" => m.clear(txn),
                        _ => {
                            let t = match kind.as_str() {
                                "A" => {
                                    let r: ArrayRef = m.get_or_init(txn, key.clone());
                                    token_of(r.as_ref())
                                }
                                "M" => {
                                    let r: MapRef = m.get_or_init(txn, key.clone());
                                    token_of(r.as_ref())
                                }
                                _ => {
                                    let r: TextRef = m.get_or_init(txn, key.clone());
                                    token_of(r.as_ref())
                                }
                            };
                            let k = match kind.as_str() {
                                "A" => "array",
                                "M" => "map",
                                _ => "text",
                            };
                            ret = json!({"tok": t});
                            new_cells.push(json!({"tag": t, "w8": 1, "w16": 1, "kind": "type", "ref": t}));
                            nested = vec![json!({"tok": t, "kind": k, "name": "", "seq": [], "map": []})];
                        }
                    }
                }
                "xins" | "xpushb" | "xpushf" | "xdel" => {
                    let f: XmlFragmentRef = match &target {
                        Out::YXmlFragment(f) => f.clone(),
                        Out::YXmlElement(e) => {
                            let r: &XmlFragmentRef = e.as_ref();
                            r.clone()
                        }
                        _ => return Err("not an xml parent".into()),
                    };
                    if op == "xdel" {
                        f.remove_range(txn, i, n);
                    } else if kind == "X" {
                        let p = XmlTextPrelim::new("");
                        let out: XmlTextRef = match op.as_str() {
                            "xins" => f.insert(txn, i, p),
                            "xpushb" => f.push_back(txn, p),
                            _ => f.push_front(txn, p),
                        };
                        let b: &yrs::branch::Branch = out.as_ref();
                        let t = token_of(b);
                        new_cells.push(json!({"tag": t, "w8": 1, "w16": 1, "kind": "type", "ref": t}));
                        nested = vec![json!({"tok": t, "kind": "xmltext", "name": "", "seq": [], "map": []})];
                    } else {
                        let name = c["name"].as_str().unwrap_or("p").to_string();
                        let p = XmlElementPrelim::empty(name.clone());
                        let out: XmlElementRef = match op.as_str() {
                            "xins" => f.insert(txn, i, p),
                            "xpushb" => f.push_back(txn, p),
                            _ => f.push_front(txn, p),
                        };
                        let b: &yrs::branch::Branch = out.as_ref();
                        let t = token_of(b);
                        new_cells.push(json!({"tag": t, "w8": 1, "w16": 1, "kind": "type", "ref": t}));
                        nested = vec![json!({"tok": t, "kind": "xmlelem", "name": name, "seq": [], "map": []})];
                    }
                }
                "xattr" | "xunattr" => {
                    let k = c["k"].as_str().unwrap_or("k").to_string();
                    match &target {
                        Out::YXmlElement(e) => {
                            if op == "xattr" {
                                e.insert_attribute(txn, k, c["v"].as_str().unwrap_or("v").to_string());
                            } else {
                                e.remove_attribute(txn, &k);
                            }
                        }
                        Out::YXmlText(e) => {
                            if op == "xattr" {
                                e.insert_attribute(txn, k, c["v"].as_str().unwrap_or("v").to_string());
                            } else {
                                e.remove_attribute(txn, &k);
                            }
                        }
                        _ => return Err("not an xml node".into()),
                    }
                }
                other => return Err(format!("unknown op {}", other)),
            }
            Ok(())
        }));
        let outcome = match res {
            Ok(Ok(())) => "ok".to_string(),
            Ok(Err(e)) => format!("skip: {}", e),
            Err(p) => format!("panic: {}", panic_msg(&p)),
        };
        // normalised call: every field present, no nulls
        let attrs_of = |v: &Value| if v.is_null() { json!([]) } else { v.clone() };
        let ops = ret.get("ops").cloned().unwrap_or(json!([]));
        let nav: Vec<Value> = path[1..]
            .iter()
            .map(|seg| match seg.strip_prefix('#') {
                Some(i) => json!([i.parse::<u32>().unwrap_or(0) + 1, ""]),
                None => json!([0, seg]),
            })
            .collect();
        let ncall = json!({
            "op": op, "root": path.get(0).cloned().unwrap_or_default(), "nav": nav,
            "off": c["off"].as_u64().unwrap_or(0), "len": c["len"].as_u64().unwrap_or(0), "i": c["i"].as_u64().unwrap_or(0),
            "n": c["n"].as_u64().unwrap_or(1), "key": c["key"].as_str().or(c["k"].as_str()).unwrap_or(""), "kind": c["kind"].as_str().unwrap_or("u"),
            "mode": c["mode"].as_str().unwrap_or(""), "hasattrs": !c["attrs"].is_null(), "attrs": attrs_of(&c["attrs"]),
            "v": c["v"].as_str().unwrap_or(""), "ops": ops,
        });
        let rets = json!({"updated": ret["updated"].as_bool().unwrap_or(false), "old": ret["old"].as_str().unwrap_or(""), "tok": ret["tok"].as_str().unwrap_or("")});
        json!({"k": "call", "callstr": c.to_string(), "ncall": ncall, "tok": tok, "outcome": outcome, "new": new_cells, "nested": nested, "ret": rets})
    }

    // -----------------------------------------------------------------------------------------
    // accessor dump

    pub fn dump<T: ReadTxn>(&self, txn: &T) -> Value {
        let mut out = serde_json::Map::new();
        if let Some(t) = txn.get_text("t") {
            self.dump_text(txn, &t, "text", &mut out);
        }
        if let Some(a) = txn.get_array("a") {
            self.dump_array(txn, &a, &mut out);
        }
        if let Some(m) = txn.get_map("m") {
            self.dump_map(txn, &m, &mut out);
        }
        if let Some(x) = txn.get_xml_fragment("x") {
            self.dump_xml(txn, &x, "xmlfrag", "", "", &mut out);
        }
        Value::Object(out)
    }

    fn dump_out<T: ReadTxn>(&self, txn: &T, o: &Out, out: &mut serde_json::Map<String, Value>) {
        match o {
            Out::YText(t) => self.dump_text(txn, t, "text", out),
            Out::YArray(a) => self.dump_array(txn, a, out),
            Out::YMap(m) => self.dump_map(txn, m, out),
            Out::YXmlText(t) => {
                let r: &TextRef = t.as_ref();
                self.dump_text(txn, r, "xmltext", out);
            }
            Out::YXmlElement(e) => {
                let r: &XmlFragmentRef = e.as_ref();
                let name = e.tag().to_string();
                let mut attrs: Vec<(String, String)> = e.attributes(txn).map(|(k, v)| (k.to_string(), v.to_string(txn))).collect();
                attrs.sort();
                let s = e.get_string(txn);
                let tok = token_of(e.as_ref());
                self.dump_xml(txn, r, "xmlelem", &name, &s, out);
                if let Some(Value::Object(rec)) = out.get_mut(&tok) {
                    rec.insert("attrs".into(), Value::Array(attrs.into_iter().map(|(k, v)| json!([k, v])).collect()));
                }
            }
            _ => {}
        }
    }

    fn dump_text<T: ReadTxn>(&self, txn: &T, t: &TextRef, kind: &str, out: &mut serde_json::Map<String, Value>) {
        let tok = token_of(t.as_ref());
        let s = t.get_string(txn);
        let str_tags: Vec<String> = s.chars().map(|c| c.to_string()).collect();
        let mut chunks = Vec::new();
        let mut nested: Vec<Out> = Vec::new();
        for d in t.diff(txn, YChange::identity) {
            let attrs = attrs_json(d.attributes.as_deref());
            match &d.insert {
                Out::Any(Any::String(s)) => {
                    let tags: Vec<String> = s.chars().map(|c| c.to_string()).collect();
                    chunks.push(json!({"e": false, "tags": tags, "attrs": attrs}));
                }
                other => {
                    chunks.push(json!({"e": true, "tags": [out_tag(other)], "attrs": attrs}));
                    if other.try_branch().is_some() {
                        nested.push(other.clone());
                    }
                }
            }
        }
        out.insert(tok, json!({"kind": kind, "len": t.len(txn), "str": str_tags, "diff": chunks}));
        for n in nested {
            self.dump_out(txn, &n, out);
        }
    }

    fn dump_array<T: ReadTxn>(&self, txn: &T, a: &ArrayRef, out: &mut serde_json::Map<String, Value>) {
        let tok = token_of(a.as_ref());
        let items: Vec<Out> = a.iter(txn).collect();
        let iter: Vec<String> = items.iter().map(out_tag).collect();
        let len = a.len(txn);
        let get: Vec<String> = (0..items.len() as u32 + 2).map(|i| a.get(txn, i).as_ref().map(out_tag).unwrap_or_default()).collect();
        // to_json: primitives by value, nested types must be structured and equal to the nested type's own to_json
        let mut json_tags = Vec::new();
        let mut jnest = true;
        if let Any::Array(js) = a.to_json(txn) {
            for (i, j) in js.iter().enumerate() {
                match items.get(i) {
                    Some(Out::Any(_)) | None => json_tags.push(val_tag(j)),
                    Some(o) => {
                        json_tags.push(out_tag(o));
                        if !nested_json_eq(txn, o, j) {
                            jnest = false;
                        }
                    }
                }
            }
        } else {
            jnest = false;
        }
        out.insert(tok, json!({"kind": "array", "len": len, "iter": iter, "get": get, "json": json_tags, "jnest": jnest}));
        for o in &items {
            self.dump_out(txn, o, out);
        }
    }

    fn dump_map<T: ReadTxn>(&self, txn: &T, m: &MapRef, out: &mut serde_json::Map<String, Value>) {
        let tok = token_of(m.as_ref());
        let mut entries: Vec<(String, Out)> = m.iter(txn).map(|(k, v)| (k.to_string(), v)).collect();
        entries.sort_by(|a, b| a.0.cmp(&b.0));
        let mut keys: Vec<String> = m.keys(txn).map(|k| k.to_string()).collect();
        keys.sort();
        let mut values: Vec<String> = m.values(txn).map(|v| v.last().map(out_tag).unwrap_or_default()).collect();
        values.sort();
        let universe = ["k1", "k2", "k3"];
        let has: Vec<Value> = universe.iter().map(|k| json!([k, m.contains_key(txn, k)])).collect();
        let get: Vec<Value> = universe.iter().map(|k| json!([k, m.get(txn, k).as_ref().map(out_tag).unwrap_or_default()])).collect();
        let mut jpairs: Vec<(String, String)> = Vec::new();
        let mut jnest = true;
        if let Any::Map(jm) = m.to_json(txn) {
            for (k, j) in jm.iter() {
                match entries.iter().find(|e| &e.0 == k) {
                    Some((_, Out::Any(_))) | None => jpairs.push((k.clone(), val_tag(j))),
                    Some((_, o)) => {
                        jpairs.push((k.clone(), out_tag(o)));
                        if !nested_json_eq(txn, o, j) {
                            jnest = false;
                        }
                    }
                }
            }
        } else {
            jnest = false;
        }
        jpairs.sort();
        out.insert(
            tok,
            json!({"kind": "map", "len": m.len(txn), "keys": keys, "iter": entries.iter().map(|(k, v)| json!([k, out_tag(v)])).collect::<Vec<_>>(),
                   "values": values, "has": has, "get": get, "json": jpairs.iter().map(|(k, v)| json!([k, v])).collect::<Vec<_>>(), "jnest": jnest}),
        );
        for (_, o) in &entries {
            self.dump_out(txn, o, out);
        }
    }

    fn dump_xml<T: ReadTxn>(&self, txn: &T, f: &XmlFragmentRef, kind: &str, name: &str, s: &str, out: &mut serde_json::Map<String, Value>) {
        let tok = token_of(f.as_ref());
        let kids: Vec<XmlOut> = f.children(txn).collect();
        let children: Vec<String> = kids.iter().map(xml_tag).collect();
        let len = f.len(txn);
        let get: Vec<String> = (0..kids.len() as u32 + 2).map(|i| f.get(txn, i).as_ref().map(xml_tag).unwrap_or_default()).collect();
        let first = f.first_child().as_ref().map(xml_tag).unwrap_or_default();
        // every child's own view of its neighbourhood
        let mut sibs = Vec::new();
        for k in &kids {
            let (parent, next, prev): (String, Vec<String>, Vec<String>) = match k {
                XmlOut::Element(e) => (
                    e.parent().as_ref().map(xml_tag).unwrap_or_default(),
                    e.siblings(txn).map(|x| xml_tag(&x)).collect(),
                    rev_sibs(e.siblings(txn)),
                ),
                XmlOut::Text(e) => (
                    e.parent().as_ref().map(xml_tag).unwrap_or_default(),
                    e.siblings(txn).map(|x| xml_tag(&x)).collect(),
                    rev_sibs(e.siblings(txn)),
                ),
                XmlOut::Fragment(_) => (String::new(), vec![], vec![]),
            };
            sibs.push(json!({"parent": parent, "next": next, "prev": prev}));
        }
        let succ: Vec<String> = f.successors(txn).map(|x| xml_tag(&x)).collect();
        let fstr = if kind == "xmlfrag" { f.get_string(txn) } else { s.to_string() };
        out.insert(
            tok,
            json!({"kind": kind, "name": name, "len": len, "children": children, "get": get, "first": first, "sibs": sibs, "succ": succ,
                   "str": fstr, "attrs": []}),
        );
        for k in &kids {
            let o = xml_to_out(k.clone());
            self.dump_out(txn, &o, out);
        }
    }
}

fn rev_sibs<'a, T: ReadTxn>(mut s: yrs::types::xml::Siblings<'a, T>) -> Vec<String> {
    let mut v = Vec::new();
    while let Some(x) = s.next_back() {
        v.push(xml_tag(&x));
    }
    v
}

fn xml_to_out(x: XmlOut) -> Out {
    match x {
        XmlOut::Element(e) => Out::YXmlElement(e),
        XmlOut::Fragment(f) => Out::YXmlFragment(f),
        XmlOut::Text(t) => Out::YXmlText(t),
    }
}

fn nested_json_eq<T: ReadTxn>(txn: &T, o: &Out, j: &Any) -> bool {
    match o {
        Out::YArray(a) => &a.to_json(txn) == j,
        Out::YMap(m) => &m.to_json(txn) == j,
        Out::YText(t) => matches!(j, Any::String(s) if s.as_ref() == t.get_string(txn)),
        _ => true,
    }
}

/// Runs every program of a schedule file; writes the trace.
pub fn run(schedules: &str, out: &str) -> std::io::Result<(usize, usize)> {
    let text = std::fs::read_to_string(schedules)?;
    let mut w = std::io::BufWriter::new(std::fs::File::create(out)?);
    let mut nb = 0usize;
    let mut nev = 0usize;
    std::panic::set_hook(Box::new(|_| {}));
    for line in text.lines() {
        if line.trim().is_empty() {
            continue;
        }
        let b: Value = serde_json::from_str(line).expect("schedule line");
        writeln!(w, "{}", json!({"k": "reset", "bid": b["bid"], "cfg": b["cfg"]}))?;
        let mut sx = Sx::new(&b["cfg"]);
        let calls = b["calls"].as_array().cloned().unwrap_or_default();
        let doc = sx.doc.clone();
        let mut i = 0;
        while i < calls.len() {
            // calls up to and including the next one with commit=true share a transaction
            let mut evs = Vec::new();
            let committed = catch_unwind(AssertUnwindSafe(|| {
                let mut txn = doc.transact_mut();
                loop {
                    let c = &calls[i];
                    let mut ev = sx.call(&mut txn, c);
                    // accessors are read inside the open transaction as well (reads must agree at any moment)
                    let d = catch_unwind(AssertUnwindSafe(|| sx.dump(&txn)));
                    ev["dump"] = match d {
                        Ok(v) => v,
                        Err(p) => {
                            ev["outcome"] = json!(format!("panic: dump: {}", panic_msg(&p)));
                            json!({})
                        }
                    };
                    evs.push(ev);
                    i += 1;
                    if c["commit"].as_bool().unwrap_or(true) || i >= calls.len() {
                        break;
                    }
                }
            }));
            if let Err(p) = committed {
                // a panic while committing: recorded as the outcome of the last call; the program stops here
                if let Some(last) = evs.last_mut() {
                    last["outcome"] = json!(format!("panic: commit: {}", panic_msg(&p)));
                }
                i = calls.len();
            }
            if evs.is_empty() {
                break;
            }
            // after commit (squash, gc): the state must read the same
            let after = {
                let txn = doc.transact();
                catch_unwind(AssertUnwindSafe(|| sx.dump(&txn))).unwrap_or(json!({}))
            };
            let last = evs.len() - 1;
            evs[last]["after"] = after;
            evs[last]["committed"] = json!(true);
            for mut e in evs {
                if e.get("committed").is_none() {
                    e["committed"] = json!(false);
                    e["after"] = json!({});
                }
                writeln!(w, "{}", e)?;
                nev += 1;
            }
        }
        nb += 1;
    }
    w.flush()?;
    Ok((nb, nev))
}
