//! Part 2 and 3 of the Wire check: representatives of the wire-type classes enumerated by TLC and the
//! Yjs fixtures. Builds the value, pushes it through the yrs encoders/decoders and records canonical
//! renderings (independent v1 decoder for updates, sorted renderings for everything else).

use super::{esc, fixtures, panic_msg};
use serde_json::{json, Value};
use std::collections::BTreeMap;
use std::panic::{catch_unwind, AssertUnwindSafe};
use yrs::block::ClientID;
use yrs::updates::decoder::{Decode, Decoder};
use yrs::updates::encoder::{Encode, Encoder};
use yrs::{Any, Doc, GetString, Options, ReadTxn, StateVector, Transact, Update};
use yx::codec::{self, Content, Id, Parent, Scope, TypeInfo, WBlock, WUpdate, Writer};

#[path = "wire_types.rs"]
mod types;

// ---------------------------------------------------------------------------------------------
// canonical renderings

fn num(f: f64) -> String {
    if f == 0.0 {
        "0".into()
    } else if f.is_nan() {
        "NaN".into()
    } else {
        format!("{:?}", f)
    }
}

/// Value produced by the independent decoder (codec::Reader::any) -> canonical text.
fn canon_wire_any(v: &Value) -> String {
    match v {
        Value::Null => "null".into(),
        Value::Bool(b) => b.to_string(),
        Value::Number(n) => num(n.as_f64().unwrap_or(f64::NAN)),
        Value::String(s) => format!("'{}'", esc(s)),
        Value::Array(a) => format!("[{}]", a.iter().map(canon_wire_any).collect::<Vec<_>>().join(",")),
        Value::Object(m) => {
            if let Some(Value::String(t)) = m.get("$") {
                match t.as_str() {
                    "undefined" => "undefined".into(),
                    "f32" => num(m["v"].as_f64().unwrap_or(f64::NAN)),
                    "f64" => match m["v"].as_str().unwrap_or("") {
                        "NaN" => "NaN".into(),
                        "inf" => "inf".into(),
                        "-inf" => "-inf".into(),
                        o => o.to_string(),
                    },
                    "big" => format!("big:{}", m["v"]),
                    "buf" => format!("buf:{}", m["v"]),
                    o => format!("?{}", o),
                }
            } else {
                let mut keys: Vec<&String> = m.keys().collect();
                keys.sort();
                format!("{{{}}}", keys.iter().map(|k| format!("'{}':{}", esc(k), canon_wire_any(&m[*k]))).collect::<Vec<_>>().join(","))
            }
        }
    }
}

/// JSON text (embed / format value / legacy JSON content in v1) -> canonical text; numbers by value.
fn canon_json_text(s: &str) -> String {
    match serde_json::from_str::<Value>(s) {
        Ok(v) => canon_wire_any(&v),
        Err(_) => format!("raw'{}'", esc(s)),
    }
}

pub fn canon_yrs_any(a: &Any) -> String {
    match a {
        Any::Null => "null".into(),
        Any::Undefined => "undefined".into(),
        Any::Bool(b) => b.to_string(),
        Any::Number(f) => {
            if f.is_infinite() {
                if *f > 0.0 { "inf".into() } else { "-inf".into() }
            } else {
                num(*f)
            }
        }
        Any::BigInt(i) => format!("big:{}", i),
        Any::String(s) => format!("'{}'", esc(s)),
        Any::Buffer(b) => format!("buf:{:?}", b.as_ref()).replace(' ', ""),
        Any::Array(v) => format!("[{}]", v.iter().map(canon_yrs_any).collect::<Vec<_>>().join(",")),
        Any::Map(m) => {
            let mut keys: Vec<&String> = m.keys().collect();
            keys.sort();
            format!("{{{}}}", keys.iter().map(|k| format!("'{}':{}", esc(k), canon_yrs_any(&m[*k]))).collect::<Vec<_>>().join(","))
        }
    }
}

fn ids(id: Option<Id>) -> String {
    match id {
        Some((c, k)) => format!("{}:{}", c, k),
        None => "-".into(),
    }
}
fn scope_s(s: &Scope) -> String {
    match s {
        Scope::Id(id) => format!("id {}:{}", id.0, id.1),
        Scope::Root(n) => format!("root '{}'", esc(n)),
        Scope::Same => "same".into(),
    }
}

fn kind_tag(c: &Content) -> &'static str {
    match c {
        Content::Gc => "gc",
        Content::Skip => "skip",
        Content::Deleted => "deleted",
        Content::Json(_) => "json",
        Content::Binary(_) => "bin",
        Content::Str(_) => "str",
        Content::Embed(_) => "embed",
        Content::Format(_, _) => "fmt",
        Content::Type(_) => "type",
        Content::Any(_) => "any",
        Content::Doc(_, _) => "doc",
    }
}

fn content_s(c: &Content) -> String {
    match c {
        Content::Gc | Content::Skip | Content::Deleted => String::new(),
        Content::Json(v) => format!("[{}]", v.iter().map(|s| canon_json_text(s)).collect::<Vec<_>>().join(";")),
        Content::Binary(b) => format!("{:?}", b).replace(' ', ""),
        Content::Str(s) => format!("'{}'", esc(s)),
        Content::Embed(s) => canon_json_text(s),
        Content::Format(k, v) => format!("'{}'={}", esc(k), canon_json_text(v)),
        Content::Type(t) => {
            let mut s = format!("tref={}", t.tref);
            if let Some(n) = &t.name {
                s.push_str(&format!(" name='{}'", esc(n)));
            }
            if let Some((flags, a, b)) = &t.weak {
                s.push_str(&format!(" weak flags={} start=({}) end=({})", flags, scope_s(a), scope_s(b)));
            }
            s
        }
        Content::Any(v) => format!("[{}]", v.iter().map(canon_wire_any).collect::<Vec<_>>().join(";")),
        Content::Doc(g, o) => {
            // the options that travel with meaning: gc (default true), autoLoad (default false), collectionId.
            // shouldLoad is receiver-local (reset by every decoder, Yjs does not send it), encoding is yrs-local.
            let gc = o.get("gc").and_then(|x| x.as_bool()).unwrap_or(true);
            let al = o.get("autoLoad").and_then(|x| x.as_bool()).unwrap_or(false);
            let cid = o.get("collectionId").and_then(|x| x.as_str()).unwrap_or("");
            format!("guid='{}' gc={} autoLoad={} collectionId='{}'", esc(g), gc, al, esc(cid))
        }
    }
}

fn merge_ranges(mut v: Vec<(u64, u32, u32)>) -> Vec<(u64, u64, u64)> {
    v.sort();
    let mut out: Vec<(u64, u64, u64)> = Vec::new();
    for (c, k, l) in v {
        let (s, e) = (k as u64, k as u64 + l as u64);
        match out.last_mut() {
            Some(last) if last.0 == c && s <= last.2 => last.2 = last.2.max(e),
            _ => out.push((c, s, e)),
        }
    }
    out
}

/// Canonical rendering of an update: one line per block (sorted by id, Skip blocks carry no
/// information and are left out), then the merged delete set.
pub fn canon_update(up: &WUpdate) -> Vec<String> {
    let mut bs: Vec<&WBlock> = up.blocks.iter().filter(|b| b.content != Content::Skip).collect();
    bs.sort_by_key(|b| b.id);
    let mut out: Vec<String> = bs
        .iter()
        .map(|b| {
            let p = match &b.parent {
                Parent::Root(n) => format!("root '{}'", esc(n)),
                Parent::Nested(id) => format!("nested {}:{}", id.0, id.1),
                Parent::Inherit => "-".into(),
            };
            format!("{}:{} len={} {} o={} ro={} p={} sub={} v={}", b.id.0, b.id.1, b.len, kind_tag(&b.content), ids(b.origin), ids(b.right_origin), p,
                    b.parent_sub.as_ref().map(|s| format!("'{}'", esc(s))).unwrap_or("-".into()), content_s(&b.content))
        })
        .collect();
    for (c, s, e) in merge_ranges(up.del.clone()) {
        out.push(format!("del {} [{},{})", c, s, e));
    }
    out
}

fn utf16_units(s: &str) -> Vec<String> {
    let mut out = Vec::new();
    for ch in s.chars() {
        out.push(format!("'{}'", esc(&ch.to_string())));
        if ch.len_utf16() == 2 {
            out.push("low-surrogate".into());
        }
    }
    out
}

/// Unit-level rendering of the blocks of one or more updates (how a document stores them must not matter:
/// splitting a block chains the origins, squashing undoes it). GC ranges are merged; delete sets are left out
/// (a document adds the deletions that integration itself causes, e.g. overwritten map entries).
pub fn canon_units(ups: &[&WUpdate]) -> Vec<String> {
    let mut units: BTreeMap<Id, String> = BTreeMap::new();
    let mut gcs: Vec<(u64, u32, u32)> = Vec::new();
    for up in ups {
        for b in &up.blocks {
            let vals: Vec<String> = match &b.content {
                Content::Skip => continue,
                Content::Gc => {
                    gcs.push((b.id.0, b.id.1, b.len));
                    continue;
                }
                Content::Deleted => (0..b.len.min(4096)).map(|_| String::new()).collect(),
                Content::Json(v) => v.iter().map(|s| canon_json_text(s)).collect(),
                Content::Str(st) => utf16_units(st),
                Content::Any(v) => v.iter().map(canon_wire_any).collect(),
                c => vec![content_s(c)],
            };
            for (i, v) in vals.into_iter().enumerate() {
                let i = i as u32;
                let id = (b.id.0, b.id.1 + i);
                let o = if i == 0 { b.origin } else { Some((b.id.0, b.id.1 + i - 1)) };
                let p = if i > 0 {
                    "-".to_string()
                } else {
                    match &b.parent {
                        Parent::Root(n) => format!("root '{}'", esc(n)),
                        Parent::Nested(x) => format!("nested {}:{}", x.0, x.1),
                        Parent::Inherit => "-".into(),
                    }
                };
                let sub = if i > 0 { "-".to_string() } else { b.parent_sub.as_ref().map(|s| format!("'{}'", esc(s))).unwrap_or("-".into()) };
                units.insert(id, format!("{}:{} {} o={} ro={} p={} sub={} v={}", id.0, id.1, kind_tag(&b.content), ids(o), ids(b.right_origin), p, sub, v));
            }
        }
    }
    let mut out: Vec<String> = units.into_values().collect();
    for (c, s, e) in merge_ranges(gcs) {
        out.push(format!("gc {} [{},{})", c, s, e));
    }
    out
}

pub fn res_ok(c: Vec<String>) -> Value {
    json!({"ok": true, "c": c, "msg": ""})
}
pub fn res_err(msg: &str) -> Value {
    json!({"ok": false, "c": [], "msg": esc(msg)})
}
fn canon_bytes(b: &[u8]) -> Value {
    match codec::decode_update_v1(b) {
        Ok(u) => res_ok(canon_update(&u)),
        Err(e) => res_err(&format!("independent decoder: {}", e.0)),
    }
}

/// Runs f, turning errors and panics of the library into data.
pub fn guard<T>(what: &str, f: impl FnOnce() -> Result<T, String>) -> Result<T, String> {
    match catch_unwind(AssertUnwindSafe(f)) {
        Ok(Ok(v)) => Ok(v),
        Ok(Err(e)) => Err(format!("{}: {}", what, e)),
        Err(p) => Err(format!("{}: panic: {}", what, panic_msg(&p))),
    }
}

// ---------------------------------------------------------------------------------------------
// independent v1 encoder with weak links (extension of codec::encode_update_v1)

fn ref_of(c: &Content) -> u8 {
    match c {
        Content::Gc => 0,
        Content::Deleted => 1,
        Content::Json(_) => 2,
        Content::Binary(_) => 3,
        Content::Str(_) => 4,
        Content::Embed(_) => 5,
        Content::Format(_, _) => 6,
        Content::Type(_) => 7,
        Content::Any(_) => 8,
        Content::Doc(_, _) => 9,
        Content::Skip => 10,
    }
}

pub fn encode_update_v1x(up: &WUpdate) -> Vec<u8> {
    let mut w = Writer::new();
    let mut groups: Vec<(u64, Vec<&WBlock>)> = Vec::new();
    for b in &up.blocks {
        match groups.last_mut() {
            Some((c, v)) if *c == b.id.0 => v.push(b),
            _ => groups.push((b.id.0, vec![b])),
        }
    }
    groups.sort_by(|a, b| b.0.cmp(&a.0)); // Yjs writes higher client ids first
    w.var(groups.len() as u64);
    for (client, blocks) in &groups {
        w.var(blocks.len() as u64);
        w.var(*client);
        w.var(blocks[0].id.1 as u64);
        for b in blocks {
            let refn = ref_of(&b.content);
            if refn == 0 || refn == 10 {
                w.u8(refn);
                w.var(b.len as u64);
                continue;
            }
            let mut info = refn;
            if b.origin.is_some() {
                info |= 0x80;
            }
            if b.right_origin.is_some() {
                info |= 0x40;
            }
            if b.parent_sub.is_some() {
                info |= 0x20;
            }
            w.u8(info);
            if let Some(o) = b.origin {
                w.id(o);
            }
            if let Some(o) = b.right_origin {
                w.id(o);
            }
            if info & 0xC0 == 0 {
                match &b.parent {
                    Parent::Root(n) => {
                        w.var(1);
                        w.string(n);
                    }
                    Parent::Nested(id) => {
                        w.var(0);
                        w.id(*id);
                    }
                    Parent::Inherit => panic!("parent required"),
                }
                if let Some(s) = &b.parent_sub {
                    w.string(s);
                }
            }
            match &b.content {
                Content::Deleted => w.var(b.len as u64),
                Content::Json(v) => {
                    w.var(v.len() as u64);
                    for s in v {
                        w.string(s);
                    }
                }
                Content::Binary(x) => w.bytes(x),
                Content::Str(s) | Content::Embed(s) => w.string(s),
                Content::Format(k, v) => {
                    w.string(k);
                    w.string(v);
                }
                Content::Type(t) => {
                    w.var(t.tref as u64);
                    if let Some(n) = &t.name {
                        w.string(n);
                    }
                    if let Some((flags, s, e)) = &t.weak {
                        w.u8(*flags);
                        for sc in [s, e] {
                            match sc {
                                Scope::Id(id) => w.id(*id),
                                Scope::Root(n) => w.string(n),
                                Scope::Same => {}
                            }
                        }
                    }
                }
                Content::Any(v) => {
                    w.var(v.len() as u64);
                    for x in v {
                        w.any(x);
                    }
                }
                Content::Doc(g, o) => {
                    w.string(g);
                    w.any(o);
                }
                _ => {}
            }
        }
    }
    let mut ds: BTreeMap<u64, Vec<(u32, u32)>> = BTreeMap::new();
    for (c, k, l) in &up.del {
        ds.entry(*c).or_default().push((*k, *l));
    }
    w.var(ds.len() as u64);
    for (c, ranges) in ds {
        w.var(c);
        w.var(ranges.len() as u64);
        for (k, l) in ranges {
            w.var(k as u64);
            w.var(l as u64);
        }
    }
    w.buf
}

// ---------------------------------------------------------------------------------------------
// effect on a document

fn new_doc() -> Doc {
    let mut o = Options::default();
    o.client_id = ClientID::new(77);
    o.skip_gc = true;
    Doc::with_options(o)
}

fn apply_all(doc: &Doc, ups: Vec<Update>) -> Result<(), String> {
    for u in ups {
        let mut txn = doc.transact_mut();
        txn.apply_update(u).map_err(|e| e.to_string())?;
    }
    Ok(())
}

/// Canonical dump: full state through the independent decoder, the block structure through hook H1,
/// the stash, and the public rendering of the named roots (map keys sorted).
pub fn dump_doc(doc: &Doc, roots: &[(String, String)]) -> Vec<String> {
    use yrs::types::ToJson;
    let mut out = Vec::new();
    enum R {
        M(yrs::MapRef),
        A(yrs::ArrayRef),
        T(yrs::TextRef),
        X(yrs::XmlFragmentRef),
    }
    let mut rs = Vec::new();
    for (n, k) in roots {
        rs.push((n.clone(), match k.as_str() {
            "map" => R::M(doc.get_or_insert_map(n.as_str())),
            "array" => R::A(doc.get_or_insert_array(n.as_str())),
            "text" => R::T(doc.get_or_insert_text(n.as_str())),
            _ => R::X(doc.get_or_insert_xml_fragment(n.as_str())),
        }));
    }
    let txn = doc.transact();
    let state = txn.encode_state_as_update_v1(&StateVector::default());
    match codec::decode_update_v1(&state) {
        Ok(u) => out.extend(canon_update(&u).into_iter().map(|s| format!("state {}", s))),
        Err(e) => out.push(format!("state undecodable: {}", e.0)),
    }
    for b in yrs::verif::blocks(&txn) {
        let mut s = format!("block {}:{} len={} {}", b.client, b.clock, b.len, b.kind);
        if let Some(i) = &b.item {
            s.push_str(&format!(" del={} left={} right={} parent={:?} sub={:?} ref={}", i.deleted, ids(i.left), ids(i.right), i.parent, i.parent_sub, i.content_ref));
        }
        out.push(esc(&s));
    }
    let st = txn.store();
    out.push(format!("pending update={} ds={}", st.pending_update().is_some(), st.pending_ds().is_some()));
    let mut sv: Vec<(u64, u32)> = txn.state_vector().iter().map(|(c, k)| (c.get(), *k)).collect();
    sv.sort();
    out.push(format!("sv {:?}", sv));
    for (n, r) in &rs {
        let s = match catch_unwind(AssertUnwindSafe(|| match r {
            R::M(m) => canon_yrs_any(&m.to_json(&txn)),
            R::A(a) => canon_yrs_any(&a.to_json(&txn)),
            R::T(t) => format!("'{}'", esc(&t.get_string(&txn))),
            R::X(x) => xml_children(&txn, x, 0),
        })) {
            Ok(s) => s,
            Err(p) => format!("panic: {}", esc(&panic_msg(&p))),
        };
        out.push(format!("public '{}' = {}", esc(n), s));
    }
    out
}

/// XML rendering with sorted attributes (get_string iterates a HashMap).
fn xml_children<T: ReadTxn, X: yrs::XmlFragment>(txn: &T, x: &X, depth: usize) -> String {
    use yrs::{Xml, XmlOut};
    if depth > 8 {
        return "...".into();
    }
    let mut out = Vec::new();
    for ch in x.children(txn) {
        out.push(match ch {
            XmlOut::Element(e) => {
                let mut attrs: Vec<String> = e.attributes(txn).map(|(k, v)| format!("{}='{}'", esc(k), esc(&v.to_string(txn)))).collect();
                attrs.sort();
                format!("<{} {}>{}</>", esc(e.tag()), attrs.join(" "), xml_children(txn, &e, depth + 1))
            }
            XmlOut::Fragment(f) => format!("<>{}</>", xml_children(txn, &f, depth + 1)),
            XmlOut::Text(t) => {
                let mut attrs: Vec<String> = t.attributes(txn).map(|(k, v)| format!("{}='{}'", esc(k), esc(&v.to_string(txn)))).collect();
                attrs.sort();
                format!("text({})'{}'", attrs.join(" "), esc(&t.get_string(txn)))
            }
        });
    }
    out.join("")
}

fn effect(what: &str, roots: &[(String, String)], mk: impl FnOnce() -> Result<Vec<Update>, String>) -> Value {
    match guard(what, || {
        let ups = mk()?;
        let doc = new_doc();
        apply_all(&doc, ups)?;
        Ok(dump_doc(&doc, roots))
    }) {
        Ok(d) => res_ok(d),
        Err(e) => res_err(&e),
    }
}

// ---------------------------------------------------------------------------------------------
// updates: v1 bytes -> the five recorded views

/// `payloads`: v1 (or v2 when `src_v2`) update bytes applied in order.
/// Byte-level notes (drift) are recorded only for foreign payloads (`foreign`): hand-made sources differ from
/// the library's choices (float width, map key order) by construction.
pub fn update_views(payloads: &[Vec<u8>], src_v2: bool, roots: &[(String, String)], foreign: bool) -> Value {
    let dec_src = |p: &[u8]| -> Result<Update, String> {
        if src_v2 { Update::decode_v2(p).map_err(|e| e.to_string()) } else { Update::decode_v1(p).map_err(|e| e.to_string()) }
    };
    let mut notes: Vec<String> = Vec::new();
    // x: what the payload says (independent decoder; v2 sources have no independent decoder and go through yrs once)
    let mut x_lines = Vec::new();
    let mut x_err = None;
    for p in payloads {
        let v1b = if src_v2 { guard("decode_v2(source)", || Ok(dec_src(p)?.encode_v1())) } else { Ok(p.clone()) };
        match v1b.and_then(|b| codec::decode_update_v1(&b).map_err(|e| format!("independent decoder: {}", e.0))) {
            Ok(u) => {
                x_lines.extend(canon_update(&u));
                x_lines.push("--".into());
            }
            Err(e) => {
                x_err = Some(e);
                break;
            }
        }
    }
    let x = match &x_err {
        None => res_ok(x_lines),
        Some(e) => res_err(e),
    };
    // re-encodings
    let mut b1s: Vec<Vec<u8>> = Vec::new(); // source -> yrs -> v1
    let mut b2s: Vec<Vec<u8>> = Vec::new(); // source -> yrs -> v2
    let mut b21s: Vec<Vec<u8>> = Vec::new(); // source -> yrs -> v2 -> yrs -> v1
    let (mut e1, mut e2, mut e21) = (None, None, None);
    for p in payloads {
        match guard("decode(source).encode_v1", || Ok(dec_src(p)?.encode_v1())) {
            Ok(b) => b1s.push(b),
            Err(e) => {
                e1 = Some(e);
                break;
            }
        }
    }
    for p in payloads {
        match guard("decode(source).encode_v2", || Ok(dec_src(p)?.encode_v2())) {
            Ok(b) => b2s.push(b),
            Err(e) => {
                e2 = Some(e);
                break;
            }
        }
    }
    if e2.is_none() {
        for b in &b2s {
            match guard("decode_v2(encode_v2).encode_v1", || Ok(Update::decode_v2(b).map_err(|e| e.to_string())?.encode_v1())) {
                Ok(b) => b21s.push(b),
                Err(e) => {
                    e21 = Some(e);
                    break;
                }
            }
            if let Ok(again) = guard("v2 again", || Ok(Update::decode_v2(b).map_err(|e| e.to_string())?.encode_v2())) {
                if &again != b && foreign {
                    notes.push("v2-reencoding-not-stable".into());
                }
            }
        }
    }
    let join = |bs: &[Vec<u8>]| -> Value {
        let mut lines = Vec::new();
        for b in bs {
            match codec::decode_update_v1(b) {
                Ok(u) => {
                    lines.extend(canon_update(&u));
                    lines.push("--".into());
                }
                Err(e) => return res_err(&format!("independent decoder on re-encoded bytes: {}", e.0)),
            }
        }
        res_ok(lines)
    };
    let v1 = match &e1 {
        None => join(&b1s),
        Some(e) => res_err(e),
    };
    let x12 = match (&e2, &e21) {
        (None, None) => join(&b21s),
        (Some(e), _) | (_, Some(e)) => res_err(e),
    };
    // byte-level stability against the source (drift only)
    if foreign && e1.is_none() && !src_v2 && b1s.iter().zip(payloads).any(|(a, b)| a != b) {
        notes.push("v1-bytes-differ-from-source".into());
    }
    if foreign && e2.is_none() && src_v2 && b2s.iter().zip(payloads).any(|(a, b)| a != b) {
        notes.push("v2-bytes-differ-from-source".into());
    }
    // effects
    let mut eff = Vec::new();
    if x_err.is_none() {
        eff.push(effect("apply source", roots, || payloads.iter().map(|p| dec_src(p)).collect()));
        if eff[0]["ok"] == json!(true) {
            eff.push(match &e1 {
                None => effect("apply re-encoded v1", roots, || b1s.iter().map(|b| Update::decode_v1(b).map_err(|e| e.to_string())).collect()),
                Some(e) => res_err(e),
            });
            eff.push(match &e2 {
                None => effect("apply re-encoded v2", roots, || b2s.iter().map(|b| Update::decode_v2(b).map_err(|e| e.to_string())).collect()),
                Some(e) => res_err(e),
            });
        }
    }
    // what a document that integrated the source puts on the wire again (full state, both encodings), unit level
    let mut xu = res_err("source undecodable");
    let mut su1 = res_err("not applicable");
    let mut su2 = res_err("not applicable");
    let mut pend = true;
    if x_err.is_none() {
        let srcs: Vec<WUpdate> = payloads.iter().filter_map(|p| {
            let b = if src_v2 { guard("x", || Ok(dec_src(p)?.encode_v1())).ok()? } else { p.clone() };
            codec::decode_update_v1(&b).ok()
        }).collect();
        xu = res_ok(canon_units(&srcs.iter().collect::<Vec<_>>()));
        let st = guard("state of a document", || {
            let doc = new_doc();
            apply_all(&doc, payloads.iter().map(|p| dec_src(p)).collect::<Result<Vec<_>, _>>()?)?;
            let txn = doc.transact();
            let pending = txn.store().pending_update().is_some();
            let s1 = txn.encode_state_as_update_v1(&StateVector::default());
            let s2 = txn.encode_state_as_update_v2(&StateVector::default());
            Ok((pending, s1, s2))
        });
        match st {
            Ok((pending, s1, s2)) => {
                pend = pending;
                su1 = match codec::decode_update_v1(&s1) {
                    Ok(u) => res_ok(canon_units(&[&u])),
                    Err(e) => res_err(&format!("independent decoder on encode_state_as_update_v1: {}", e.0)),
                };
                su2 = match guard("decode_v2(encode_state_as_update_v2)", || Ok(Update::decode_v2(&s2).map_err(|e| e.to_string())?.encode_v1())) {
                    Ok(b) => match codec::decode_update_v1(&b) {
                        Ok(u) => res_ok(canon_units(&[&u])),
                        Err(e) => res_err(&format!("independent decoder: {}", e.0)),
                    },
                    Err(e) => res_err(&e),
                };
            }
            Err(e) => {
                su1 = res_err(&e);
                su2 = res_err(&e);
                pend = false;
            }
        }
    }
    json!({"x": x, "v1": v1, "v2": x12.clone(), "x12": x12, "eff": eff, "notes": notes, "xu": xu, "su1": su1, "su2": su2, "pend": pend})
}

// ---------------------------------------------------------------------------------------------
// block scenarios

struct IdClass {
    base: (u64, u32),
    case: (u64, u32),
}
fn idclass(name: &str) -> IdClass {
    match name {
        "small" => IdClass { base: (1, 0), case: (2, 0) },
        "mid" => IdClass { base: (4294967295, 127), case: (3, 128) },
        "big" => IdClass { base: (4294967296, 1073741814), case: (9007199254740991, 1073741821) },
        _ => IdClass { base: (1, 1073741829), case: (2, 2147483600) }, // "huge": clocks >= 2^30 (below 2^31: Update::integrate computes offsets in i32)
    }
}

fn blk(id: Id, len: u32, origin: Option<Id>, right_origin: Option<Id>, parent: Parent, sub: Option<&str>, content: Content) -> WBlock {
    WBlock { id, len, origin, right_origin, parent, parent_sub: sub.map(|s| s.to_string()), content }
}

fn content_of(kind: &str, quoted: Id) -> (Content, u32) {
    match kind {
        "any1" => (Content::Any(vec![json!(true)]), 1),
        "any3" => (Content::Any(vec![json!(1), json!("s\u{e9}"), json!({"a": null, "b": [1.5]})]), 3),
        "bin0" => (Content::Binary(vec![]), 1),
        "bin3" => (Content::Binary(vec![1, 2, 3]), 1),
        "deleted1" => (Content::Deleted, 1),
        "deleted3" => (Content::Deleted, 3),
        "doc" => (Content::Doc("g-1".into(), json!({"gc": false, "autoLoad": true})), 1),
        "json1" => (Content::Json(vec!["{\"a\":1}".into()]), 1),
        "json3" => (Content::Json(vec!["1".into(), "\"s\"".into(), "null".into()]), 3),
        "embed" => (Content::Embed("{\"k\":\"v\"}".into()), 1),
        "format" => (Content::Format("bold".into(), "true".into()), 1),
        "str1" => (Content::Str("a".into()), 1),
        "str3" => (Content::Str("abc".into()), 3),
        "strx" => (Content::Str("a\u{1F600}".into()), 3),
        "tarray" => (Content::Type(TypeInfo { tref: 0, name: None, weak: None }), 1),
        "tmap" => (Content::Type(TypeInfo { tref: 1, name: None, weak: None }), 1),
        "ttext" => (Content::Type(TypeInfo { tref: 2, name: None, weak: None }), 1),
        "txmlelem" => (Content::Type(TypeInfo { tref: 3, name: Some("p".into()), weak: None }), 1),
        "txmlfrag" => (Content::Type(TypeInfo { tref: 4, name: None, weak: None }), 1),
        "txmlhook" => (Content::Type(TypeInfo { tref: 5, name: Some("h".into()), weak: None }), 1),
        "txmltext" => (Content::Type(TypeInfo { tref: 6, name: None, weak: None }), 1),
        "tweak" => (Content::Type(TypeInfo { tref: 7, name: None, weak: Some((0, Scope::Id(quoted), Scope::Same)) }), 1),
        o => panic!("content kind {}", o),
    }
}

fn gc_prefix(blocks: &mut Vec<WBlock>, client: u64, start: u32) {
    if start > 0 {
        blocks.push(blk((client, 0), start, None, None, Parent::Inherit, None, Content::Gc));
    }
}

/// A self-contained update around one block of the given class: base elements L, R written by another
/// client (inside the root "r" or inside a nested type), the case block between / before / after them.
fn block_scenario(case: &Value) -> (WUpdate, Vec<(String, String)>, Id) {
    let kind = case["kind"].as_str().unwrap();
    let (o, ro, sub) = (case["o"].as_bool().unwrap(), case["ro"].as_bool().unwrap(), case["sub"].as_bool().unwrap());
    let nested = case["par"] == json!("nested");
    let ic = idclass(case["idc"].as_str().unwrap());
    let textual = matches!(kind, "str1" | "str3" | "strx" | "format" | "embed");
    let mut blocks = Vec::new();
    let (bc, mut k) = ic.base;
    gc_prefix(&mut blocks, bc, k);
    let base_content = || if textual { Content::Str("L".into()) } else { Content::Any(vec![json!("L")]) };
    let key = if sub { Some("k") } else { None };
    let (roots, parent): (Vec<(String, String)>, Parent) = if nested {
        // root map "r", key "n" holds the nested container
        let tref = if sub { 1 } else if textual { 2 } else { 0 };
        blocks.push(blk((bc, k), 1, None, None, Parent::Root("r".into()), Some("n"), Content::Type(TypeInfo { tref, name: None, weak: None })));
        let p = Parent::Nested((bc, k));
        k += 1;
        (vec![("r".into(), "map".into())], p)
    } else {
        (vec![("r".into(), if sub { "map" } else if textual { "text" } else { "array" }.into())], Parent::Root("r".into()))
    };
    let l = (bc, k);
    let r = (bc, k + 1);
    blocks.push(blk(l, 1, None, None, parent.clone(), key, base_content()));
    blocks.push(blk(r, 1, Some(l), None, Parent::Inherit, key, base_content()));
    let (cc, ck) = ic.case;
    gc_prefix(&mut blocks, cc, ck);
    let (content, len) = content_of(kind, l);
    let cid = (cc, ck);
    let wire_parent = if o || ro { Parent::Inherit } else { parent };
    blocks.push(blk(cid, len, if o { Some(l) } else { None }, if ro { Some(r) } else { None }, wire_parent, key, content));
    (WUpdate { blocks, del: vec![] }, roots, cid)
}

fn range_scenario(case: &Value) -> (WUpdate, Vec<(String, String)>, Id) {
    let kind = case["kind"].as_str().unwrap();
    let n = case["n"].as_u64().unwrap() as u32;
    let pos = case["pos"].as_str().unwrap();
    let ic = idclass(case["idc"].as_str().unwrap());
    let (cc, mut k) = ic.case;
    let mut blocks = Vec::new();
    gc_prefix(&mut blocks, cc, k);
    let item = |k: u32, v: &str| blk((cc, k), 1, None, None, Parent::Root("r".into()), None, Content::Any(vec![json!(v)]));
    if pos != "lead" {
        blocks.push(item(k, "before"));
        k += 1;
    }
    let rid = (cc, k);
    blocks.push(blk(rid, n, None, None, Parent::Inherit, None, if kind == "gc" { Content::Gc } else { Content::Skip }));
    k += n;
    if pos != "tail" {
        blocks.push(item(k, "after"));
    }
    (WUpdate { blocks, del: vec![] }, vec![("r".into(), "array".into())], rid)
}

fn ds_scenario(case: &Value) -> (WUpdate, Vec<(String, String)>) {
    let blocks = vec![blk((1, 0), 8, None, None, Parent::Root("r".into()), None, Content::Str("abcdefgh".into())),
                      blk((2, 0), 200, None, None, Parent::Root("q".into()), None, Content::Str("z".repeat(200)))];
    let del = match case["shape"].as_str().unwrap() {
        "empty" => vec![],
        "one" => vec![(1, 0, 1)],
        "two" => vec![(1, 0, 2), (1, 5, 1)],
        "adjacent-clients" => vec![(1, 3, 1), (2, 0, 128)],
        "big" => vec![(1, 7, 1), (2, 127, 73)],
        _ => vec![(1, 2, 2), (9007199254740991, 2147483648, 2147483647)], // "pending": a client the document does not know
    };
    (WUpdate { blocks, del }, vec![("r".into(), "text".into()), ("q".into(), "text".into())])
}

fn feat_of(bytes: &[u8], id: Id) -> Value {
    match codec::decode_update_v1(bytes) {
        Ok(u) => match u.blocks.iter().find(|b| b.id == id) {
            Some(b) => json!({"found": true, "kind": kind_tag(&b.content), "o": b.origin.is_some(), "ro": b.right_origin.is_some(), "len": b.len,
                              "par": match &b.parent { Parent::Root(_) => "root", Parent::Nested(_) => "nested", Parent::Inherit => "" },
                              "sub": b.parent_sub.is_some()}),
            None => json!({"found": false, "kind": "", "o": false, "ro": false, "len": 0, "par": "", "sub": false}),
        },
        Err(_) => json!({"found": false, "kind": "", "o": false, "ro": false, "len": 0, "par": "", "sub": false}),
    }
}

pub fn run_case(case: &Value) -> Value {
    let k = case["k"].as_str().unwrap_or("");
    match k {
        "block" | "range" => {
            let (up, roots, id) = if k == "block" { block_scenario(case) } else { range_scenario(case) };
            let bytes = encode_update_v1x(&up);
            let mut ev = update_views(&[bytes.clone()], false, &roots, false);
            ev["k"] = json!("upd");
            ev["feat"] = feat_of(&bytes, id);
            ev["bytes"] = json!(bytes);
            ev
        }
        "ds" => {
            let (up, roots) = ds_scenario(case);
            let bytes = encode_update_v1x(&up);
            let mut ev = update_views(&[bytes.clone()], false, &roots, false);
            ev["k"] = json!("upd");
            ev["feat"] = json!({"found": true});
            ev["bytes"] = json!(bytes);
            ev
        }
        "yjs" => {
            let name = case["name"].as_str().unwrap();
            let enc = case["enc"].as_str().unwrap();
            if name == "state_vector" {
                return types::yjs_state_vector();
            }
            let f = fixtures::FIXTURES.iter().find(|f| f.name == name && f.enc == enc).expect("fixture");
            let payloads: Vec<Vec<u8>> = f.payloads.iter().map(|p| p.to_vec()).collect();
            let roots: Vec<(String, String)> = f.roots.iter().map(|(a, b)| (a.to_string(), b.to_string())).collect();
            let mut ev = update_views(&payloads, enc == "v2", &roots, true);
            ev["k"] = json!("yjs");
            ev
        }
        _ => types::run_value_case(case),
    }
}

#[allow(dead_code)]
fn _unused<E: Encoder, D: Decoder>(_: &Any, _: Option<&dyn Fn(&mut E)>, _: Option<&dyn Fn(&mut D)>)
where
    Update: Encode + Decode,
{
}
