//! Small shared helpers: deterministic PRNG, ndjson IO.
pub struct Rng(pub u64);
impl Rng {
    pub fn new(seed: u64) -> Self { Rng(seed.wrapping_mul(0x9E3779B97F4A7C15).wrapping_add(0x1234567)) }
    pub fn next(&mut self) -> u64 {
        self.0 = self.0.wrapping_add(0x9E3779B97F4A7C15);
        let mut z = self.0;
        z = (z ^ (z >> 30)).wrapping_mul(0xBF58476D1CE4E5B9);
        z = (z ^ (z >> 27)).wrapping_mul(0x94D049BB133111EB);
        z ^ (z >> 31)
    }
    pub fn below(&mut self, n: u64) -> u64 { if n == 0 { 0 } else { self.next() % n } }
    pub fn chance(&mut self, num: u64, den: u64) -> bool { self.below(den) < num }
}
