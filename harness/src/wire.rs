//! X stage of the Wire check (C09): drives the real lib0 v1/v2 encoders and decoders of yrs with
//! (1) the letter sequences enumerated by TLC for the column codecs, (2) representatives of the
//! wire-type classes enumerated by TLC, (3) payloads produced by Yjs; records what came back.
//! No verdicts here: every comparison is done by TLC on the recorded trace (spec/Trace_Wire.tla).

use serde_json::{json, Value};
use std::collections::HashMap;
use std::panic::{catch_unwind, AssertUnwindSafe};
use std::sync::Arc;
use yrs::block::ClientID;
use yrs::encoding::read::{Cursor, Error as RErr, Read};
use yrs::encoding::write::Write;
use yrs::updates::decoder::{Decode, Decoder, DecoderV1, DecoderV2};
use yrs::updates::encoder::{Encode, Encoder, EncoderV1, EncoderV2};
use yrs::{Any, ID};
use yx::codec::Reader;

#[path = "wire_cases.rs"]
pub mod cases;
#[path = "wire_fixtures.rs"]
pub mod fixtures;

pub fn panic_msg(p: &Box<dyn std::any::Any + Send>) -> String {
    if let Some(s) = p.downcast_ref::<&str>() {
        s.to_string()
    } else if let Some(s) = p.downcast_ref::<String>() {
        s.clone()
    } else {
        "?".into()
    }
}

/// ASCII-only rendering (the trace is read by TLC's JSON module).
pub fn esc(s: &str) -> String {
    let mut o = String::new();
    for c in s.chars() {
        if c.is_ascii() && !c.is_ascii_control() && c != '"' && c != '\\' {
            o.push(c);
        } else {
            o.push_str(&format!("<{:x}>", c as u32));
        }
    }
    o
}

// ---------------------------------------------------------------------------------------------
// part 1: column codecs

fn li(a: i64) -> usize {
    match a {
        0 => 0,
        1 => 1,
        2 => 2,
        5 => 3,
        _ => panic!("letter {}", a),
    }
}
const LETTERS: [i64; 4] = [0, 1, 2, 5];

#[derive(Clone, Copy)]
pub struct NumMap {
    pub name: &'static str,
    pub vals: [u64; 4],
    /// > 0: concrete = letter * lin (differences scale, token streams comparable)
    pub lin: u64,
}
impl NumMap {
    fn of(&self, a: i64) -> u64 {
        self.vals[li(a)]
    }
    fn inv(&self, v: u64) -> i64 {
        for (i, x) in self.vals.iter().enumerate() {
            if *x == v {
                return LETTERS[i];
            }
        }
        -1
    }
}
const M_ID: NumMap = NumMap { name: "id", vals: [0, 1, 2, 5], lin: 1 };
const C_BIG: NumMap = NumMap { name: "big", vals: [1, 4294967295, 9007199254740991, 4294967296], lin: 0 };
const K_EDGE: NumMap = NumMap { name: "edge", vals: [0, 31, 32, 8192], lin: 0 };
const K_EDGE2: NumMap = NumMap { name: "edge2", vals: [0, 127, 128, 1073741823], lin: 0 };
const K_WIDE: NumMap = NumMap { name: "wide", vals: [0, 536870912, 1073741824, 2684354560], lin: 536870912 };
const L_EDGE: NumMap = NumMap { name: "edge", vals: [63, 64, 8192, 4294967295], lin: 0 };
const B_HI: NumMap = NumMap { name: "hi", vals: [0, 127, 128, 255], lin: 0 };
const T_HI: NumMap = NumMap { name: "hi", vals: [63, 64, 128, 255], lin: 0 };
const V_BIG: NumMap = NumMap { name: "big", vals: [127, 128, 4294967296, 9007199254740991], lin: 0 };

const CHARS: [(char, i64); 6] = [('a', 1), ('\u{e9}', 2), ('\u{20ac}', 3), ('\u{1F600}', 4), ('b', 5), ('k', 6)];
fn abs_str(s: &str) -> Value {
    Value::Array(s.chars().map(|c| json!(CHARS.iter().find(|(x, _)| *x == c).map(|(_, n)| *n).unwrap_or(-1))).collect())
}
fn strmap(name: &str, a: i64) -> String {
    if name == "s1" {
        ["", "a", "\u{e9}\u{20ac}", "\u{1F600}"][li(a)].to_string()
    } else {
        let long = "k".repeat(130);
        ["ab", "a\u{1F600}b", "\u{1F600}\u{1F600}", long.as_str()][li(a)].to_string()
    }
}

pub struct Frame<'a> {
    pub bufs: Vec<&'a [u8]>,
    pub rest: &'a [u8],
}
/// lib0 v2 frame: feature byte, nine length-prefixed column buffers, rest.
pub fn parse_frame(b: &[u8]) -> Option<Frame<'_>> {
    let mut r = Reader::new(b);
    r.u8().ok()?;
    let mut bufs = Vec::new();
    for _ in 0..9 {
        bufs.push(r.buf().ok()?);
    }
    Some(Frame { bufs, rest: &b[r.pos..] })
}

fn tok_uint(buf: &[u8], inv: &dyn Fn(u64) -> i64) -> Value {
    let mut r = Reader::new(buf);
    let mut out = Vec::new();
    while !r.eof() {
        match r.var_i64() {
            Ok((v, neg)) => {
                if neg {
                    out.push(json!(["neg", inv(v.unsigned_abs())]));
                    match r.var() {
                        Ok(n) => out.push(json!(["cnt", n.min(1 << 30)])),
                        Err(_) => out.push(json!(["bad", 0])),
                    }
                } else {
                    out.push(json!(["int", inv(v as u64)]));
                }
            }
            Err(_) => {
                out.push(json!(["bad", 0]));
                break;
            }
        }
    }
    Value::Array(out)
}

fn tok_diff(buf: &[u8], scale: u64) -> Value {
    let mut r = Reader::new(buf);
    let mut out = Vec::new();
    while !r.eof() {
        match r.var_i64() {
            Ok((raw, _)) => {
                let flag = raw.rem_euclid(2);
                let d = (raw - flag) / 2;
                let sc = scale as i64;
                if d % sc != 0 || (d / sc).abs() > 1000 {
                    out.push(json!(["bad", 0]));
                } else {
                    out.push(json!(["dif", 2 * (d / sc) + flag]));
                }
                if flag == 1 {
                    match r.var() {
                        Ok(n) => out.push(json!(["cnt", n.min(1 << 30)])),
                        Err(_) => out.push(json!(["bad", 0])),
                    }
                }
            }
            Err(_) => {
                out.push(json!(["bad", 0]));
                break;
            }
        }
    }
    Value::Array(out)
}

fn tok_rle(buf: &[u8], inv: &dyn Fn(u64) -> i64) -> Value {
    let mut r = Reader::new(buf);
    let mut out = Vec::new();
    while !r.eof() {
        let v = r.u8().unwrap();
        out.push(json!(["val", inv(v as u64)]));
        if !r.eof() {
            match r.var() {
                Ok(n) => out.push(json!(["cnt", n.min(1 << 30)])),
                Err(_) => out.push(json!(["bad", 0])),
            }
        }
    }
    Value::Array(out)
}

fn tok_str(buf: &[u8]) -> Value {
    let mut r = Reader::new(buf);
    let cat = r.string().unwrap_or_else(|_| "?".into());
    let lens = tok_uint(&buf[r.pos.min(buf.len())..], &|v| v.min(1 << 30) as i64);
    json!({"cat": abs_str(&cat), "lens": lens})
}

fn tok_rest(buf: &[u8], inv: &dyn Fn(u64) -> i64) -> Value {
    let mut r = Reader::new(buf);
    let mut out = Vec::new();
    while !r.eof() {
        match r.var() {
            Ok(n) => out.push(json!(["u", inv(n)])),
            Err(_) => {
                out.push(json!(["bad", 0]));
                break;
            }
        }
    }
    Value::Array(out)
}

/// Runs `$w` on a fresh encoder of the chosen version, then `$r` on a decoder over the bytes.
/// Evaluates to (Result<T, String>, Option<bytes>, trailing bytes left in the rest stream).
macro_rules! round {
    ($enc:expr, |$e:ident| $w:block, |$d:ident| $r:block) => {{
        if $enc == "v1" {
            let bytes = catch_unwind(AssertUnwindSafe(|| {
                let mut $e = EncoderV1::new();
                $w;
                $e.to_vec()
            }));
            match bytes {
                Err(p) => (Err(format!("panic in encoder: {}", panic_msg(&p))), None, 0usize),
                Ok(b) => {
                    let res = catch_unwind(AssertUnwindSafe(|| {
                        let mut $d = DecoderV1::from(b.as_slice());
                        let v: Result<_, RErr> = (|| $r)();
                        let left = $d.read_to_end().map(|x| x.len()).unwrap_or(0);
                        (v, left)
                    }));
                    match res {
                        Err(p) => (Err(format!("panic in decoder: {}", panic_msg(&p))), Some(b), 0),
                        Ok((Err(e), _)) => (Err(format!("err: {}", e)), Some(b), 0),
                        Ok((Ok(v), left)) => (Ok(v), Some(b), left),
                    }
                }
            }
        } else {
            let bytes = catch_unwind(AssertUnwindSafe(|| {
                let mut $e = EncoderV2::new();
                $w;
                $e.to_vec()
            }));
            match bytes {
                Err(p) => (Err(format!("panic in encoder: {}", panic_msg(&p))), None, 0usize),
                Ok(b) => {
                    let res = catch_unwind(AssertUnwindSafe(|| {
                        let mut $d = match DecoderV2::new(Cursor::new(b.as_slice())) {
                            Ok(d) => d,
                            Err(e) => return (Err(e), 0),
                        };
                        let v: Result<_, RErr> = (|| $r)();
                        let left = $d.read_to_end().map(|x| x.len()).unwrap_or(0);
                        (v, left)
                    }));
                    match res {
                        Err(p) => (Err(format!("panic in decoder: {}", panic_msg(&p))), Some(b), 0),
                        Ok((Err(e), _)) => (Err(format!("err: {}", e)), Some(b), 0),
                        Ok((Ok(v), left)) => (Ok(v), Some(b), left),
                    }
                }
            }
        }
    }};
}
pub(crate) use round;

#[allow(clippy::too_many_arguments)]
fn entry(col: &str, enc: &str, map: &str, codec: &str, inp: Value, out: Result<Value, String>, tok: Option<Value>, conc: String, left: usize) -> Value {
    let (o, outcome) = match out {
        Ok(v) => (v, "ok".to_string()),
        Err(e) => (json!([]), esc(&e)),
    };
    // the concrete values are only kept for diagnosis of a mismatch
    let conc = if outcome == "ok" && o == inp { String::new() } else { conc };
    json!({"col": col, "enc": enc, "map": map, "codec": codec, "inp": inp, "out": o, "outcome": outcome,
           "hastok": tok.is_some(), "tok": tok.unwrap_or(json!([])), "conc": esc(&conc), "left": left as u64})
}

fn letters(s: &[i64]) -> Value {
    json!(s)
}

/// All column programs for one letter sequence.
pub fn run_col(s: &[i64]) -> Vec<Value> {
    let mut out = Vec::new();
    let n = s.len();
    let encs: &[&str] = if n <= 2 { &["v2", "v1"] } else { &["v2"] };
    for &enc in encs {
        let v2 = enc == "v2";
        // client column
        for m in [M_ID, C_BIG] {
            let (res, bytes, left) = round!(enc, |e| {
                for &a in s {
                    e.write_client(ClientID::new(m.of(a)));
                }
            }, |d| {
                let mut v = Vec::new();
                for _ in 0..n {
                    v.push(d.read_client()?.get());
                }
                Ok(v)
            });
            let conc = format!("{:?}", res);
            let tok = if v2 { bytes.as_deref().and_then(parse_frame).map(|f| tok_uint(f.bufs[1], &|v| m.inv(v))) } else { None };
            out.push(entry("client", enc, m.name, "uint", letters(s), res.map(|v| json!(v.iter().map(|x| m.inv(*x)).collect::<Vec<_>>())), tok, conc, left));
        }
        // left / right origin ids: client column + clock column
        for side in ["left", "right"] {
            for (cm, km) in [(M_ID, M_ID), (C_BIG, K_EDGE), (C_BIG, K_EDGE2), (M_ID, K_WIDE)] {
                let (res, bytes, left) = round!(enc, |e| {
                    for &a in s {
                        let id = ID::new(ClientID::new(cm.of(a)), km.of(a) as u32);
                        if side == "left" {
                            e.write_left_id(&id)
                        } else {
                            e.write_right_id(&id)
                        }
                    }
                }, |d| {
                    let mut v = Vec::new();
                    for _ in 0..n {
                        let id = if side == "left" { d.read_left_id()? } else { d.read_right_id()? };
                        v.push((id.client.get(), id.clock));
                    }
                    Ok(v)
                });
                let conc = format!("{:?}", res);
                let frame = if v2 { bytes.as_deref().and_then(parse_frame) } else { None };
                let ctok = frame.as_ref().map(|f| tok_uint(f.bufs[1], &|v| cm.inv(v)));
                let ktok = if km.lin > 0 { frame.as_ref().map(|f| tok_diff(f.bufs[if side == "left" { 2 } else { 3 }], km.lin)) } else { None };
                let mname = format!("{}/{}", cm.name, km.name);
                out.push(entry(&format!("{}.client", side), enc, &mname, "uint", letters(s),
                               res.clone().map(|v| json!(v.iter().map(|x| cm.inv(x.0)).collect::<Vec<_>>())), ctok, conc.clone(), left));
                out.push(entry(&format!("{}.clock", side), enc, &mname, "diff", letters(s),
                               res.map(|v| json!(v.iter().map(|x| km.inv(x.1 as u64)).collect::<Vec<_>>())), ktok, conc, left));
            }
        }
        // info (Rle)
        for m in [M_ID, B_HI] {
            let (res, bytes, left) = round!(enc, |e| {
                for &a in s {
                    e.write_info(m.of(a) as u8);
                }
            }, |d| {
                let mut v = Vec::new();
                for _ in 0..n {
                    v.push(d.read_info()? as u64);
                }
                Ok(v)
            });
            let conc = format!("{:?}", res);
            let tok = if v2 { bytes.as_deref().and_then(parse_frame).map(|f| tok_rle(f.bufs[4], &|v| m.inv(v))) } else { None };
            out.push(entry("info", enc, m.name, "rle", letters(s), res.map(|v| json!(v.iter().map(|x| m.inv(*x)).collect::<Vec<_>>())), tok, conc, left));
        }
        // parent info (Rle over 0/1)
        {
            let bits: Vec<i64> = s.iter().map(|a| a % 2).collect();
            let (res, bytes, left) = round!(enc, |e| {
                for &a in &bits {
                    e.write_parent_info(a == 1);
                }
            }, |d| {
                let mut v = Vec::new();
                for _ in 0..n {
                    v.push(if d.read_parent_info()? { 1i64 } else { 0 });
                }
                Ok(v)
            });
            let conc = format!("{:?}", res);
            let tok = if v2 { bytes.as_deref().and_then(parse_frame).map(|f| tok_rle(f.bufs[6], &|v| v as i64)) } else { None };
            out.push(entry("pinfo", enc, "bool", "rle", json!(bits), res.map(|v| json!(v)), tok, conc, left));
        }
        // type ref (UIntOptRle)
        for m in [M_ID, T_HI] {
            let (res, bytes, left) = round!(enc, |e| {
                for &a in s {
                    e.write_type_ref(m.of(a) as u8);
                }
            }, |d| {
                let mut v = Vec::new();
                for _ in 0..n {
                    v.push(d.read_type_ref()? as u64);
                }
                Ok(v)
            });
            let conc = format!("{:?}", res);
            let tok = if v2 { bytes.as_deref().and_then(parse_frame).map(|f| tok_uint(f.bufs[7], &|v| m.inv(v))) } else { None };
            out.push(entry("tref", enc, m.name, "uint", letters(s), res.map(|v| json!(v.iter().map(|x| m.inv(*x)).collect::<Vec<_>>())), tok, conc, left));
        }
        // len (UIntOptRle)
        for m in [M_ID, L_EDGE] {
            let (res, bytes, left) = round!(enc, |e| {
                for &a in s {
                    e.write_len(m.of(a) as u32);
                }
            }, |d| {
                let mut v = Vec::new();
                for _ in 0..n {
                    v.push(d.read_len()? as u64);
                }
                Ok(v)
            });
            let conc = format!("{:?}", res);
            let tok = if v2 { bytes.as_deref().and_then(parse_frame).map(|f| tok_uint(f.bufs[8], &|v| m.inv(v))) } else { None };
            out.push(entry("len", enc, m.name, "uint", letters(s), res.map(|v| json!(v.iter().map(|x| m.inv(*x)).collect::<Vec<_>>())), tok, conc, left));
        }
        // string table and key table
        for sm in ["s1", "s2"] {
            let strs: Vec<String> = s.iter().map(|&a| strmap(sm, a)).collect();
            let inp = Value::Array(strs.iter().map(|x| abs_str(x)).collect());
            let (res, bytes, left) = round!(enc, |e| {
                for x in &strs {
                    e.write_string(x);
                }
            }, |d| {
                let mut v = Vec::new();
                for _ in 0..n {
                    v.push(d.read_string()?.to_string());
                }
                Ok(v)
            });
            let conc = format!("{:?}", res.as_ref().map(|v| v.iter().map(|x| x.len()).collect::<Vec<_>>()));
            let tok = if v2 { bytes.as_deref().and_then(parse_frame).map(|f| tok_str(f.bufs[5])) } else { None };
            out.push(entry("str", enc, sm, "str", inp.clone(), res.map(|v| Value::Array(v.iter().map(|x| abs_str(x)).collect())), tok, conc, left));

            let (res, bytes, left) = round!(enc, |e| {
                for x in &strs {
                    e.write_key(x);
                }
            }, |d| {
                let mut v = Vec::new();
                for _ in 0..n {
                    v.push(d.read_key()?.to_string());
                }
                Ok(v)
            });
            let conc = format!("{:?}", res.as_ref().map(|v| v.iter().map(|x| x.len()).collect::<Vec<_>>()));
            let tok = if v2 {
                bytes.as_deref().and_then(parse_frame).map(|f| json!({"clock": tok_diff(f.bufs[0], 1), "str": tok_str(f.bufs[5])}))
            } else {
                None
            };
            out.push(entry("key", enc, sm, "key", inp, res.map(|v| Value::Array(v.iter().map(|x| abs_str(x)).collect())), tok, conc, left));
        }
        // delete-set clocks, two clients with a reset in between
        for (mname, mul) in [("id", 1u32), ("big", 1_000_000u32)] {
            let mut ranges: Vec<(u32, u32)> = Vec::new();
            let mut cur = 0u32;
            for &a in s {
                let a = a as u32;
                ranges.push((cur + a, a + 1));
                cur += a + a + 1;
            }
            let inp = json!(ranges.iter().map(|r| vec![r.0, r.1]).collect::<Vec<_>>());
            let (res, bytes, left) = round!(enc, |e| {
                for _ in 0..2 {
                    e.reset_ds_cur_val();
                    for r in &ranges {
                        e.write_ds_clock(r.0 * mul);
                        e.write_ds_len(r.1 * mul);
                    }
                }
            }, |d| {
                let mut v = Vec::new();
                for _ in 0..2 {
                    d.reset_ds_cur_val();
                    for _ in 0..n {
                        let c = d.read_ds_clock()?;
                        let l = d.read_ds_len()?;
                        v.push((c, l));
                    }
                }
                Ok(v)
            });
            let conc = format!("{:?}", res);
            let toks = if v2 && mul == 1 { bytes.as_deref().and_then(parse_frame).map(|f| tok_rest(f.rest, &|v| v.min(1 << 30) as i64)) } else { None };
            for (half, name) in [(0usize, "ds.a"), (1, "ds.b")] {
                let o = res.clone().map(|v| {
                    json!(v[half * n..(half + 1) * n].iter().map(|r| {
                        if r.0 % mul == 0 && r.1 % mul == 0 { vec![(r.0 / mul) as i64, (r.1 / mul) as i64] } else { vec![-1, -1] }
                    }).collect::<Vec<_>>())
                });
                let t = toks.as_ref().map(|t| {
                    let a = t.as_array().unwrap();
                    let lo = (half * 2 * n).min(a.len());
                    let hi = ((half + 1) * 2 * n).min(a.len());
                    Value::Array(a[lo..hi].to_vec())
                });
                out.push(entry(name, enc, mname, "ds", inp.clone(), o, t, conc.clone(), left));
            }
        }
        // rest stream: plain varints
        for m in [M_ID, V_BIG] {
            let (res, bytes, left) = round!(enc, |e| {
                for &a in s {
                    e.write_var(m.of(a));
                }
            }, |d| {
                let mut v = Vec::new();
                for _ in 0..n {
                    v.push(d.read_var::<u64>()?);
                }
                Ok(v)
            });
            let conc = format!("{:?}", res);
            let tok = if v2 { bytes.as_deref().and_then(parse_frame).map(|f| tok_rest(f.rest, &|v| m.inv(v))) } else { None };
            out.push(entry("var", enc, m.name, "raw", letters(s), res.map(|v| json!(v.iter().map(|x| m.inv(*x)).collect::<Vec<_>>())), tok, conc, left));
        }
        // rest stream: buffers (letter = length, every byte 7)
        {
            let (res, _bytes, left) = round!(enc, |e| {
                for &a in s {
                    e.write_buf(vec![7u8; a as usize]);
                }
            }, |d| {
                let mut v = Vec::new();
                for _ in 0..n {
                    v.push(d.read_buf()?.to_vec());
                }
                Ok(v)
            });
            let conc = format!("{:?}", res);
            out.push(entry("buf", enc, "len", "none", letters(s),
                           res.map(|v| json!(v.iter().map(|b| if b.iter().all(|x| *x == 7) { b.len() as i64 } else { -1 }).collect::<Vec<_>>())), None, conc, left));
        }
        // every column interleaved, as a block stream would
        {
            let (res, _bytes, left) = round!(enc, |e| {
                for &a in s {
                    let u = a as u64;
                    e.write_info(a as u8);
                    e.write_client(ClientID::new(u));
                    e.write_left_id(&ID::new(ClientID::new(u), a as u32));
                    e.write_right_id(&ID::new(ClientID::new(u + 1), a as u32 + 1));
                    e.write_parent_info(a % 2 == 1);
                    e.write_type_ref(a as u8);
                    e.write_len(a as u32);
                    e.write_string(&strmap("s1", a));
                    e.write_key(&strmap("s2", a));
                    e.write_var(a as u32);
                    e.write_any(&Any::Number(a as f64));
                }
            }, |d| {
                let mut v: Vec<i64> = Vec::new();
                for _ in 0..n {
                    v.push(d.read_info()? as i64);
                    v.push(d.read_client()?.get() as i64);
                    let l = d.read_left_id()?;
                    v.push(l.client.get() as i64);
                    v.push(l.clock as i64);
                    let r = d.read_right_id()?;
                    v.push(r.client.get() as i64 - 1);
                    v.push(r.clock as i64 - 1);
                    v.push(if d.read_parent_info()? { 1 } else { 0 });
                    v.push(d.read_type_ref()? as i64);
                    v.push(d.read_len()? as i64);
                    let st = d.read_string()?.to_string();
                    v.push(LETTERS.iter().copied().find(|&x| strmap("s1", x) == st).unwrap_or(-1));
                    let k = d.read_key()?.to_string();
                    v.push(LETTERS.iter().copied().find(|&x| strmap("s2", x) == k).unwrap_or(-1));
                    v.push(d.read_var::<u32>()? as i64);
                    v.push(match d.read_any()? {
                        Any::Number(f) => f as i64,
                        _ => -1,
                    });
                }
                Ok(v)
            });
            let mut inp = Vec::new();
            for &a in s {
                inp.extend_from_slice(&[a, a, a, a, a, a, a % 2, a, a, a, a, a, a]);
            }
            let conc = format!("{:?}", res);
            out.push(entry("all", enc, "id", "none", json!(inp), res.map(|v| json!(v)), None, conc, left));
        }
    }
    out
}

// ---------------------------------------------------------------------------------------------
// driver

pub fn fixture_names() -> Vec<Value> {
    let mut v: Vec<Value> = fixtures::FIXTURES.iter().map(|f| json!({"k": "yjs", "name": f.name, "enc": f.enc})).collect();
    v.push(json!({"k": "yjs", "name": "state_vector", "enc": "v1"}));
    v
}

/// Reads cases ({"cid":..,"case":{..}} per line), writes the trace. A reset line every `chunk` cases.
pub fn run(inp: &str, out: &str, chunk: usize) -> std::io::Result<(usize, usize)> {
    use std::io::{BufRead, Write as IoWrite};
    if std::env::var("WIRE_BACKTRACE").is_err() {
        std::panic::set_hook(Box::new(|_| {}));
    }
    let f = std::io::BufReader::new(std::fs::File::open(inp)?);
    let mut w = std::io::BufWriter::new(std::fs::File::create(out)?);
    let (mut nc, mut nev) = (0usize, 0usize);
    for line in f.lines() {
        let line = line?;
        if line.trim().is_empty() {
            continue;
        }
        let v: Value = serde_json::from_str(&line).map_err(|e| std::io::Error::new(std::io::ErrorKind::InvalidData, e))?;
        if nc % chunk == 0 {
            writeln!(w, "{}", json!({"bid": format!("chunk-{:06}", nc / chunk), "k": "reset"}))?;
        }
        nc += 1;
        let cid = v["cid"].as_str().unwrap_or("?").to_string();
        let case = &v["case"];
        let ev = match case["k"].as_str().unwrap_or("") {
            "col" => {
                let s: Vec<i64> = case["s"].as_array().map(|a| a.iter().map(|x| x.as_i64().unwrap()).collect()).unwrap_or_default();
                let cols = run_col(&s);
                nev += cols.len();
                json!({"k": "col", "cid": cid, "s": s, "cols": cols})
            }
            _ => {
                nev += 1;
                let r = catch_unwind(AssertUnwindSafe(|| cases::run_case(case)));
                match r {
                    Ok(mut ev) => {
                        ev["cid"] = json!(cid);
                        ev["case"] = case.clone();
                        ev
                    }
                    Err(p) => json!({"k": "broken", "cid": cid, "case": case.clone(), "msg": esc(&panic_msg(&p))}),
                }
            }
        };
        writeln!(w, "{}", ev)?;
    }
    w.flush()?;
    Ok((nc, nev))
}

#[allow(dead_code)]
fn _unused(_: HashMap<u8, u8>, _: Arc<u8>) {}
