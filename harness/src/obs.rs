//! Observation functions: implementation state -> spec state.
//!
//! * `structural` — element order incl. tombstones per container, tombstones, collected units,
//!   holes, list ends (hook H1, `yrs::verif`), plus an integrity report (H2, computed here).
//! * `public` — what the public read API shows: per container the visible element ids,
//!   recovered from unique value tags / nested branch ids.
//! * `pending` — stash summary through `Store::pending_update()/pending_ds()`.

use crate::codec::{self, Id};
use serde_json::{json, Map as JMap, Value};
use std::collections::{BTreeMap, HashMap};
use yrs::types::text::YChange;
use yrs::updates::encoder::Encode;
use yrs::types::xml::{XmlFragment, XmlOut};
use yrs::{Any, Array, ArrayRef, GetString, Map, MapRef, Out, ReadTxn, Text, TextRef, Xml, XmlElementRef, XmlFragmentRef, XmlTextRef};

pub fn idv(id: Id) -> Value {
    json!([id.0, id.1])
}
pub fn idsv(ids: &[Id]) -> Value {
    Value::Array(ids.iter().map(|i| idv(*i)).collect())
}

/// container key: "<root>|<sub>" or "<client>:<clock>|<sub>"
pub fn cont_key_root(name: &str, sub: &str) -> String {
    format!("{}|{}", name, sub)
}
pub fn cont_key_nested(id: Id, sub: &str) -> String {
    format!("{}:{}|{}", id.0, id.1, sub)
}

#[derive(Default, Debug, Clone)]
pub struct Structural {
    pub lst: BTreeMap<String, Vec<Id>>,
    pub dead: Vec<Id>,
    pub gone: Vec<Id>,
    /// listed items whose content was collected (ItemContent::Deleted)
    pub coll: Vec<Id>,
    pub holes: Vec<(u64, u32, u32)>,
    pub top: Vec<Id>,
    pub integrity: Vec<String>,
    /// per live/dead type element: cached (block_len, content_len)
    pub lens: BTreeMap<String, (u32, u32)>,
    pub keep: Vec<Id>,
    pub nblocks: usize,
}

pub fn structural<T: ReadTxn>(txn: &T) -> Structural {
    structural_from(yrs::verif::blocks(txn), yrs::verif::roots(txn), yrs::verif::skips(txn))
}

/// the same reconstruction from dumped data (used for traces recorded by hook H3)
pub fn structural_from(blocks: Vec<yrs::verif::BlockInfo>, roots: Vec<yrs::verif::RootInfo>, skip_ranges: Vec<(u64, u32, u32)>) -> Structural {
    use yrs::verif::BranchInfo;
    let mut s = Structural::default();
    s.nblocks = blocks.len();
    s.holes = skip_ranges;
    // index: (client) -> vec of (clock, len, idx)
    let mut by_client: HashMap<u64, Vec<(u32, u32, usize)>> = HashMap::new();
    for (i, b) in blocks.iter().enumerate() {
        by_client.entry(b.client).or_default().push((b.clock, b.len, i));
    }
    let mut problems = Vec::new();
    for (c, v) in by_client.iter() {
        let mut expect = v.first().map(|x| x.0).unwrap_or(0);
        if expect != 0 {
            problems.push(format!("client {} list does not start at 0", c));
        }
        for (k, l, _) in v {
            if *k != expect {
                problems.push(format!("client {} clock gap at {}", c, k));
            }
            expect = k + l;
        }
        s.top.push((*c, expect));
    }
    s.top.sort();
    let find = |id: Id| -> Option<usize> {
        let v = by_client.get(&id.0)?;
        let i = v.partition_point(|x| x.0 + x.1 <= id.1);
        if i < v.len() && v[i].0 <= id.1 {
            Some(v[i].2)
        } else {
            None
        }
    };
    let mut reached = vec![false; blocks.len()];
    let mut hole_blocks: Vec<(u64, u32, u32)> = Vec::new();
    for b in &blocks {
        match b.kind {
            "gc" => {
                for i in 0..b.len {
                    s.gone.push((b.client, b.clock + i));
                }
            }
            "skip" => hole_blocks.push((b.client, b.clock, b.clock + b.len)),
            _ => {
                let it = b.item.as_ref().unwrap();
                if it.deleted {
                    for i in 0..b.len {
                        s.dead.push((b.client, b.clock + i));
                    }
                }
                if it.content_ref == 1 {
                    for i in 0..b.len {
                        s.coll.push((b.client, b.clock + i));
                    }
                }
                if it.keep {
                    s.keep.push((b.client, b.clock));
                }
            }
        }
    }
    // holes registered == skip blocks (merged)
    {
        let mut a = merge_ranges(hole_blocks);
        let mut b = merge_ranges(s.holes.clone());
        a.sort();
        b.sort();
        if a != b {
            problems.push(format!("skips {:?} != skip blocks {:?}", b, a));
        }
    }
    // walk every branch
    let mut branches: Vec<(String, Option<Id>, &BranchInfo)> = Vec::new(); // (key prefix, type item id, info)
    for r in &roots {
        branches.push((r.name.clone(), None, &r.branch));
    }
    for b in &blocks {
        if let Some(it) = &b.item {
            if let Some(br) = &it.branch {
                branches.push((format!("{}:{}", b.client, b.clock), Some((b.client, b.clock)), br));
            }
        }
    }
    for (prefix, _tid, br) in branches {
        // sequence part
        let mut units = Vec::new();
        let mut cur = br.start;
        let mut prev_last: Option<Id> = None;
        let mut steps = 0usize;
        let mut blen = 0u32;
        while let Some(id) = cur {
            steps += 1;
            if steps > blocks.len() + 1 {
                problems.push(format!("cycle in {}", prefix));
                break;
            }
            let Some(bi) = find(id) else {
                problems.push(format!("dangling right {:?} in {}", id, prefix));
                break;
            };
            let b = &blocks[bi];
            let Some(it) = &b.item else {
                problems.push(format!("link to non-item {:?}", id));
                break;
            };
            if (b.client, b.clock) != id {
                problems.push(format!("right link into middle of block {:?}", id));
            }
            if reached[bi] {
                problems.push(format!("block {:?} reached twice", id));
                break;
            }
            reached[bi] = true;
            if it.left != prev_last {
                problems.push(format!("asymmetric left at {:?}: {:?} vs {:?}", id, it.left, prev_last));
            }
            if it.parent_sub.is_some() {
                problems.push(format!("keyed item {:?} in sequence of {}", id, prefix));
            }
            for i in 0..b.len {
                units.push((b.client, b.clock + i));
            }
            if !it.deleted && it.countable {
                blen += b.len;
            }
            prev_last = Some((b.client, b.clock + b.len - 1));
            cur = it.right;
        }
        if blen != br.block_len {
            problems.push(format!("block_len of {} cached {} != recomputed {}", prefix, br.block_len, blen));
        }
        s.lens.insert(prefix.clone(), (br.block_len, br.content_len));
        if !units.is_empty() {
            s.lst.insert(format!("{}|", prefix), units);
        }
        // map part
        for (key, last) in &br.map {
            let mut chain: Vec<Vec<Id>> = Vec::new();
            let mut cur = Some(*last);
            let mut next_first: Option<Id> = None;
            let mut steps = 0usize;
            let mut first = true;
            while let Some(id) = cur {
                steps += 1;
                if steps > blocks.len() + 1 {
                    problems.push(format!("cycle in {}|{}", prefix, key));
                    break;
                }
                let Some(bi) = find(id) else {
                    problems.push(format!("dangling map link {:?}", id));
                    break;
                };
                let b = &blocks[bi];
                let Some(it) = &b.item else {
                    problems.push(format!("map link to non-item {:?}", id));
                    break;
                };
                if reached[bi] {
                    problems.push(format!("block {:?} reached twice", id));
                    break;
                }
                reached[bi] = true;
                if first {
                    if it.right.is_some() {
                        problems.push(format!("map entry {}|{} is not right-most", prefix, key));
                    }
                    first = false;
                } else if it.right != next_first {
                    problems.push(format!("asymmetric right at {:?}", (b.client, b.clock)));
                }
                if it.parent_sub.as_deref() != Some(key.as_str()) {
                    problems.push(format!("item {:?} in chain of key {} has sub {:?}", (b.client, b.clock), key, it.parent_sub));
                }
                chain.push((0..b.len).map(|i| (b.client, b.clock + i)).collect());
                next_first = Some((b.client, b.clock));
                cur = it.left.map(|l| {
                    // left holds the last unit of the left block: map to block start
                    match find(l) {
                        Some(li) => (blocks[li].client, blocks[li].clock),
                        None => l,
                    }
                });
            }
            chain.reverse();
            let units: Vec<Id> = chain.into_iter().flatten().collect();
            s.lst.insert(format!("{}|{}", prefix, key), units);
        }
    }
    for (i, b) in blocks.iter().enumerate() {
        if b.kind == "item" && !reached[i] {
            // items whose parent branch is unreachable are reported; they still count as integrated
            problems.push(format!("item {}:{} not reachable from its parent", b.client, b.clock));
        }
    }
    s.dead.sort();
    s.gone.sort();
    s.integrity = problems;
    s
}

fn merge_ranges(mut v: Vec<(u64, u32, u32)>) -> Vec<(u64, u32, u32)> {
    v.sort();
    let mut out: Vec<(u64, u32, u32)> = Vec::new();
    for r in v {
        if let Some(l) = out.last_mut() {
            if l.0 == r.0 && l.2 >= r.1 {
                l.2 = l.2.max(r.2);
                continue;
            }
        }
        out.push(r);
    }
    out
}

impl Structural {
    pub fn to_json(&self) -> Value {
        let mut lst = JMap::new();
        for (k, v) in &self.lst {
            lst.insert(k.clone(), idsv(v));
        }
        json!({
            "lst": lst,
            "dead": idsv(&self.dead),
            "gone": idsv(&self.gone),
            "coll": idsv(&self.coll),
            "holes": self.holes.iter().map(|h| json!([h.0, h.1, h.2])).collect::<Vec<_>>(),
            "top": idsv(&self.top),
            "integrity": if self.integrity.is_empty() { json!("ok") } else { json!(self.integrity.join("; ")) },
        })
    }
}

// ---------------------------------------------------------------------------------------------
// value tags

/// Text of a primitive value as the independent decoder renders it (`serde_json::Value::to_string`).
pub fn any_tag(a: &Any) -> String {
    match a {
        Any::Null => "null".into(),
        Any::Undefined => "{\"$\":\"undefined\"}".into(),
        Any::Bool(b) => b.to_string(),
        Any::Number(f) => {
            if f.fract() == 0.0 && f.abs() < 9.0e15 {
                format!("{}", *f as i64)
            } else {
                serde_json::json!(f).to_string()
            }
        }
        Any::BigInt(i) => format!("{{\"$\":\"big\",\"v\":{}}}", i),
        Any::String(s) => serde_json::Value::String(s.to_string()).to_string(),
        other => {
            let mut s = String::new();
            other.to_json(&mut s);
            s
        }
    }
}

/// width of a decoded unit in UTF-8 bytes: the first UTF-16 unit of a character carries the whole character, the second
/// unit of a surrogate pair nothing; every other element counts 1 (as in every offset kind)
pub fn unit_w8(u: &codec::Unit) -> u32 {
    if u.kind == "str" {
        u.val.chars().next().map(|c| c.len_utf8() as u32).unwrap_or(0)
    } else {
        1
    }
}

#[derive(Default, Clone)]
pub struct Tags {
    pub by_tag: HashMap<String, Id>,
    /// character units: id -> width in UTF-8 bytes (`unit_w8`)
    pub w8: HashMap<Id, u32>,
}

impl Tags {
    /// registers the units of a decoded update (string units by character, any units by value text)
    pub fn register(&mut self, units: &[codec::Unit]) {
        for u in units {
            match u.kind {
                "str" => {
                    if !u.val.is_empty() {
                        self.by_tag.insert(format!("s:{}", u.val), u.id);
                    }
                    self.w8.insert(u.id, unit_w8(u));
                }
                "any" | "json" | "embed" => {
                    self.by_tag.insert(format!("v:{}", u.val), u.id);
                }
                "doc" => {
                    self.by_tag.insert(format!("d:{}", u.val), u.id);
                }
                _ => {}
            }
        }
    }
    pub fn of_char(&self, c: char) -> Id {
        self.by_tag.get(&format!("s:{}", c)).copied().unwrap_or((0, 0))
    }
    /// the element ids of a string read through the public API: one per UTF-16 unit
    pub fn of_str(&self, s: &str) -> Vec<Id> {
        let mut ids = Vec::new();
        for ch in s.chars() {
            let id = self.of_char(ch);
            ids.push(id);
            if ch.len_utf16() == 2 {
                ids.push((id.0, id.1 + 1));
            }
        }
        ids
    }
    pub fn of_any(&self, a: &Any) -> Id {
        self.by_tag.get(&format!("v:{}", any_tag(a))).copied().unwrap_or((0, 0))
    }
}

// ---------------------------------------------------------------------------------------------
// public-API view

pub struct PublicView {
    /// the document's offset kind when the caller knows it: a text's `len` is then compared with its content (C17)
    pub kind: Option<yrs::OffsetKind>,
    /// container key -> visible ids as read through the public API
    pub vis: BTreeMap<String, Vec<Id>>,
    /// accessor disagreements found while reading (C17)
    pub disagreements: Vec<String>,
    /// text container key -> chunks of `diff()`: (visible ids of the chunk, attributes sorted by key as (key, value text))
    pub rich: BTreeMap<String, Vec<(Vec<Id>, Vec<(String, String)>)>>,
}

fn branch_prefix(out: &Out) -> Option<(String, Id)> {
    let b = out.try_branch()?;
    match b.id() {
        yrs::BranchID::Nested(id) => {
            let i = (id.client.get(), id.clock);
            Some((format!("{}:{}", i.0, i.1), i))
        }
        yrs::BranchID::Root(_) => None,
    }
}

fn walk_value<T: ReadTxn>(txn: &T, out: &Out, tags: &Tags, pv: &mut PublicView, depth: usize) -> Id {
    if depth > 16 {
        pv.disagreements.push("nesting too deep".into());
        return (0, 0);
    }
    match out {
        Out::Any(a) => tags.of_any(a),
        Out::YText(t) => {
            let (p, id) = branch_prefix(out).unwrap_or(("?".into(), (0, 0)));
            walk_text(txn, t, &p, tags, pv, depth);
            id
        }
        Out::YArray(a) => {
            let (p, id) = branch_prefix(out).unwrap_or(("?".into(), (0, 0)));
            walk_array(txn, a, &p, tags, pv, depth);
            id
        }
        Out::YMap(m) => {
            let (p, id) = branch_prefix(out).unwrap_or(("?".into(), (0, 0)));
            walk_map(txn, m, &p, tags, pv, depth);
            id
        }
        Out::YXmlText(t) => {
            let (p, id) = branch_prefix(out).unwrap_or(("?".into(), (0, 0)));
            let tr: &TextRef = t.as_ref();
            walk_text(txn, tr, &p, tags, pv, depth);
            walk_xml_attrs(txn, t.attributes(txn).map(|(k, v)| (k.to_string(), v)).collect(), &p, tags, pv, depth);
            id
        }
        Out::YXmlElement(e) => {
            let (p, id) = branch_prefix(out).unwrap_or(("?".into(), (0, 0)));
            let f: &XmlFragmentRef = e.as_ref();
            walk_xml_children(txn, f, &p, tags, pv, depth);
            walk_xml_attrs(txn, e.attributes(txn).map(|(k, v)| (k.to_string(), v)).collect(), &p, tags, pv, depth);
            id
        }
        Out::YXmlFragment(f) => {
            let (p, id) = branch_prefix(out).unwrap_or(("?".into(), (0, 0)));
            walk_xml_children(txn, f, &p, tags, pv, depth);
            id
        }
        Out::YDoc(d) => tags.by_tag.get(&format!("d:{}", d.guid())).copied().unwrap_or((0, 0)),
        other => branch_prefix(other).map(|x| x.1).unwrap_or((0, 0)),
    }
}

fn xml_out(x: XmlOut) -> Out {
    match x {
        XmlOut::Element(e) => Out::YXmlElement(e),
        XmlOut::Fragment(f) => Out::YXmlFragment(f),
        XmlOut::Text(t) => Out::YXmlText(t),
    }
}

pub fn walk_xml_children<T: ReadTxn>(txn: &T, f: &XmlFragmentRef, prefix: &str, tags: &Tags, pv: &mut PublicView, depth: usize) {
    let mut ids = Vec::new();
    let mut n = 0u32;
    for c in f.children(txn) {
        ids.push(walk_value(txn, &xml_out(c), tags, pv, depth + 1));
        n += 1;
    }
    if f.len(txn) != n {
        pv.disagreements.push(format!("xml {}: len {} != children {}", prefix, f.len(txn), n));
    }
    for i in 0..n {
        match f.get(txn, i) {
            Some(c) => {
                let id = branch_prefix(&xml_out(c)).map(|x| x.1).unwrap_or((0, 0));
                if id != ids[i as usize] {
                    pv.disagreements.push(format!("xml {}: get({}) != child {}", prefix, i, i));
                }
            }
            None => pv.disagreements.push(format!("xml {}: get({}) is None", prefix, i)),
        }
    }
    if f.get(txn, n).is_some() {
        pv.disagreements.push(format!("xml {}: get(len) is Some", prefix));
    }
    pv.vis.insert(format!("{}|", prefix), ids);
}

fn walk_xml_attrs<T: ReadTxn>(txn: &T, mut attrs: Vec<(String, Out)>, prefix: &str, tags: &Tags, pv: &mut PublicView, depth: usize) {
    attrs.sort_by(|a, b| a.0.cmp(&b.0));
    for (k, v) in attrs {
        let id = walk_value(txn, &v, tags, pv, depth + 1);
        pv.vis.insert(format!("{}|{}", prefix, k), vec![id]);
    }
}

pub fn walk_text<T: ReadTxn>(txn: &T, t: &TextRef, prefix: &str, tags: &Tags, pv: &mut PublicView, depth: usize) {
    let mut ids = Vec::new();
    let mut concat = String::new();
    let mut others = 0u32;
    let mut chunks = Vec::new();
    for d in t.diff(txn, YChange::identity) {
        let from = ids.len();
        match &d.insert {
            Out::Any(Any::String(s)) => {
                concat.push_str(s);
                ids.extend(tags.of_str(s));
            }
            other => {
                others += 1;
                ids.push(walk_value(txn, other, tags, pv, depth + 1))
            }
        }
        let mut attrs: Vec<(String, String)> = match &d.attributes {
            Some(a) => a.iter().map(|(k, v)| (k.to_string(), any_tag(v))).collect(),
            None => Vec::new(),
        };
        attrs.sort();
        chunks.push((ids[from..].to_vec(), attrs));
    }
    pv.rich.insert(format!("{}|", prefix), chunks);
    let s = t.get_string(txn);
    if s != concat {
        pv.disagreements.push(format!("text {}: get_string {:?} != diff concat {:?}", prefix, s, concat));
    }
    // a text's length = length of its string in the document's offset kind + one per embedded element
    if let Some(kind) = pv.kind {
        let expect = others
            + match kind {
                yrs::OffsetKind::Bytes => s.len() as u32,
                yrs::OffsetKind::Utf16 => s.encode_utf16().count() as u32,
            };
        if t.len(txn) != expect {
            pv.disagreements.push(format!("text {}: len {} != {} (string {:?} + {} embedded)", prefix, t.len(txn), expect, s, others));
        }
    }
    pv.vis.insert(format!("{}|", prefix), ids);
}

pub fn walk_array<T: ReadTxn>(txn: &T, a: &ArrayRef, prefix: &str, tags: &Tags, pv: &mut PublicView, depth: usize) {
    let mut ids = Vec::new();
    let mut n = 0u32;
    for v in a.iter(txn) {
        ids.push(walk_value(txn, &v, tags, pv, depth + 1));
        n += 1;
    }
    if a.len(txn) != n {
        pv.disagreements.push(format!("array {}: len {} != iterated {}", prefix, a.len(txn), n));
    }
    pv.vis.insert(format!("{}|", prefix), ids);
}

pub fn walk_map<T: ReadTxn>(txn: &T, m: &MapRef, prefix: &str, tags: &Tags, pv: &mut PublicView, depth: usize) {
    let mut n = 0u32;
    let mut entries: Vec<(String, Out)> = m.iter(txn).map(|(k, v)| (k.to_string(), v)).collect();
    entries.sort_by(|a, b| a.0.cmp(&b.0));
    for (k, v) in entries {
        let id = walk_value(txn, &v, tags, pv, depth + 1);
        pv.vis.insert(format!("{}|{}", prefix, k), vec![id]);
        n += 1;
        match m.get(txn, &k) {
            Some(g) => {
                if g != v {
                    pv.disagreements.push(format!("map {}: get({}) != iterated", prefix, k));
                }
            }
            None => pv.disagreements.push(format!("map {}: get({}) is None but iterated", prefix, k)),
        }
    }
    if m.len(txn) != n {
        pv.disagreements.push(format!("map {}: len {} != iterated {}", prefix, m.len(txn), n));
    }
}

#[derive(Clone, Copy, Debug, PartialEq)]
pub enum RootKind {
    Text,
    Array,
    Map,
}

pub fn public<T: ReadTxn>(txn: &T, roots: &[(String, RootKind)], tags: &Tags) -> PublicView {
    public_in(txn, roots, tags, None)
}

pub fn public_in<T: ReadTxn>(txn: &T, roots: &[(String, RootKind)], tags: &Tags, kind: Option<yrs::OffsetKind>) -> PublicView {
    let mut pv = PublicView { kind, vis: BTreeMap::new(), disagreements: Vec::new(), rich: BTreeMap::new() };
    for (name, kind) in roots {
        match kind {
            RootKind::Text => {
                if let Some(t) = txn.get_text(name.as_str()) {
                    walk_text(txn, &t, name, tags, &mut pv, 0);
                }
            }
            RootKind::Array => {
                if let Some(a) = txn.get_array(name.as_str()) {
                    walk_array(txn, &a, name, tags, &mut pv, 0);
                }
            }
            RootKind::Map => {
                if let Some(m) = txn.get_map(name.as_str()) {
                    walk_map(txn, &m, name, tags, &mut pv, 0);
                }
            }
        }
    }
    // optional XML fragment root "x" (exists only in behaviours that asked for it)
    if let Some(x) = txn.get_xml_fragment("x") {
        walk_xml_children(txn, &x, "x", tags, &mut pv, 0);
    }
    pv
}

impl PublicView {
    pub fn to_json(&self) -> Value {
        let mut m = JMap::new();
        for (k, v) in &self.vis {
            m.insert(k.clone(), idsv(v));
        }
        Value::Object(m)
    }
    pub fn rich_json(&self) -> Value {
        let mut m = JMap::new();
        for (k, chunks) in &self.rich {
            let v: Vec<Value> = chunks.iter().map(|(ids, attrs)| json!([idsv(ids), attrs.iter().map(|(k, v)| json!([k, v])).collect::<Vec<_>>()])).collect();
            m.insert(k.clone(), Value::Array(v));
        }
        Value::Object(m)
    }
}

// ---------------------------------------------------------------------------------------------
// pending

pub struct Pending {
    pub missing_flag: bool,
    pub pend: Vec<Id>,
    pub pmiss: Vec<Id>,
    pub pds: Vec<Id>,
    pub sv: Vec<Id>,
}

pub fn pending<T: ReadTxn>(txn: &T) -> Pending {
    let store = txn.store();
    let mut pend = Vec::new();
    let mut pmiss = Vec::new();
    if let Some(p) = store.pending_update() {
        let bytes = p.update.encode_v1();
        match codec::decode_update_v1(&bytes) {
            Ok(u) => {
                for x in u.units() {
                    pend.push(x.id);
                }
            }
            Err(_) => pend.push((0, 0)),
        }
        for (c, k) in p.missing.iter() {
            pmiss.push((c.get(), *k));
        }
    }
    let mut pds = Vec::new();
    if let Some(ds) = store.pending_ds() {
        for (c, ranges) in ds.iter() {
            for r in ranges.iter() {
                for k in r.start..r.end {
                    pds.push((c.get(), k));
                }
            }
        }
    }
    let mut sv: Vec<Id> = txn.state_vector().iter().map(|(c, k)| (c.get(), *k)).collect();
    sv.sort();
    pend.sort();
    pmiss.sort();
    pds.sort();
    Pending { missing_flag: txn.has_missing_updates(), pend, pmiss, pds, sv }
}

/// Full observation record of one replica.
pub fn observe<T: ReadTxn>(txn: &T, roots: &[(String, RootKind)], tags: &Tags) -> Value {
    observe_full(txn, roots, tags, None, false)
}

/// `kind`: the offset kind of the observed document (lengths of texts are then part of the C17 comparison)
pub fn observe_in<T: ReadTxn>(txn: &T, roots: &[(String, RootKind)], tags: &Tags, kind: Option<yrs::OffsetKind>) -> Value {
    observe_full(txn, roots, tags, kind, false)
}

/// `rich`: add the field `rich` (attributed `diff()` chunks of every reachable text container)
pub fn observe_rich<T: ReadTxn>(txn: &T, roots: &[(String, RootKind)], tags: &Tags, rich: bool) -> Value {
    observe_full(txn, roots, tags, None, rich)
}

pub fn observe_full<T: ReadTxn>(txn: &T, roots: &[(String, RootKind)], tags: &Tags, kind: Option<yrs::OffsetKind>, rich: bool) -> Value {
    let s = structural(txn);
    let p = public_in(txn, roots, tags, kind);
    let q = pending(txn);
    let mut v = s.to_json();
    let o = v.as_object_mut().unwrap();
    o.insert("pub".into(), p.to_json());
    o.insert("c17".into(), if p.disagreements.is_empty() { json!("ok") } else { json!(p.disagreements.join("; ")) });
    if rich {
        o.insert("rich".into(), p.rich_json());
    }
    o.insert("missing".into(), json!(q.missing_flag));
    o.insert("pend".into(), idsv(&q.pend));
    o.insert("pmiss".into(), idsv(&q.pmiss));
    o.insert("pds".into(), idsv(&q.pds));
    o.insert("sv".into(), idsv(&q.sv));
    v
}
