CONSTANTS
  Authors = {1, 2}
  Obs = 8
  MaxOps = 3
  SeqRoots = {"a"}
  MapKeys = {"k1"}
  Nest = TRUE
  MaxDel = 2
  Merge = FALSE
  Script <- NoScript
  Dups = TRUE
SPECIFICATION Spec
INVARIANTS InvOnce InvPlaced InvBetween InvDepClosed InvNothingLost InvPending InvConverge InvPairOrder InvClosed 
CHECK_DEADLOCK FALSE
VIEW view
