------------------------------ MODULE MC_Wire ------------------------------
(***************************************************************************)
(* Bounded model over Wire.                                                *)
(*  Mode "codec":   the state is a sequence of letters; every sequence up  *)
(*     to MaxLen over Alphabet is reachable, C09_CodecRoundTrip is checked *)
(*     for each one (design check) and each one is printed as a schedule   *)
(*     for the harness (G stage).                                          *)
(*  Mode "grammar": one step picks a class combination of a wire type;     *)
(*     the header grammar is checked for block classes and every class is  *)
(*     printed (G stage).                                                  *)
(***************************************************************************)
EXTENDS Wire, Json

CONSTANTS Mode,       \* "codec" | "grammar"
          Alphabet,   \* letters (small naturals)
          MaxLen

VARIABLES seq, cs
vars == <<seq, cs>>

NoCase == [k |-> "none"]

Init == seq = <<>> /\ cs = NoCase

Next ==
  \/ /\ Mode = "codec" /\ Len(seq) < MaxLen
     /\ \E a \in Alphabet : seq' = Append(seq, a)
     /\ UNCHANGED cs
  \/ /\ Mode = "grammar" /\ cs = NoCase
     /\ \E c \in GrammarCases : cs' = c
     /\ UNCHANGED seq

Spec == Init /\ [][Next]_vars

InvCodecRoundTrip == Mode = "codec" => C09_CodecRoundTrip(seq)
InvGrammar == cs.k = "block" => C09_GrammarUnambiguous(cs)
(* every leaf class has a lib0 tag, every kind a reference number *)
InvTotal ==
  /\ cs.k = "any" => OuterTag(cs.outer, cs.leaf) \in 116..127
  /\ cs.k \in {"block", "range"} => RefOf(cs.kind) \in 0..10

PrintSchedules ==
  /\ Mode = "codec" => PrintT(<<"REPLAY", ToJson([k |-> "col", s |-> seq])>>)
  /\ Mode = "grammar" /\ cs # NoCase => PrintT(<<"REPLAY", ToJson(cs)>>)
=============================================================================
