SPECIFICATION Spec
INVARIANTS PrintSchedules
CHECK_DEADLOCK FALSE
CONSTANTS
  Kind = "set"
  Clients = {1, 2}
  U = 5
  AttrLists <- AttrsSet
  EmptyAt = {2}
  MaxOps = 3
  Pairs = FALSE
  FiMax = 0
