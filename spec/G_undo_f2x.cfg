CONSTANTS
  Kind = "x"
  MaxE = 2
  MaxUR = 3
  MaxF = 1
  UseStop = FALSE
  Flat = FALSE
  Pre = FALSE
  Shape = "any"
  MaxP = 1
  MaxW = 1
SPECIFICATION Spec
INVARIANTS InvExact InvRoundTrip InvNearest InvBounded PrintSchedules
CHECK_DEADLOCK FALSE
