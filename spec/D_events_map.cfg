CONSTANTS
  Authors = {1, 2}
  Obs = 8
  MaxOps = 3
  SeqRoots = {}
  MapKeys = {"k1", "k2"}
  Nest = FALSE
  MaxDel = 2
  Merge = FALSE
  Dups = TRUE
  Script <- NoScript
  AddedBy = "insert_set"
SPECIFICATION SpecE
INVARIANTS InvSeqScript InvKeyScript InvFires InvUntouchedEmpty
CHECK_DEADLOCK FALSE
VIEW viewE
