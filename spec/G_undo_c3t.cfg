CONSTANTS
  Kind = "t"
  MaxE = 3
  MaxUR = 3
  MaxF = 0
  UseStop = TRUE
  Flat = FALSE
  Pre = FALSE
  Shape = "any"
  MaxP = 1
  MaxW = 1
SPECIFICATION Spec
INVARIANTS InvExact InvRoundTrip InvNearest InvBounded PrintSchedules
CHECK_DEADLOCK FALSE
