----------------------------- MODULE Awareness -----------------------------
(***************************************************************************)
(* Presence registers of y-sync (yrs/src/sync/awareness.rs), C18.          *)
(* Constant-level module: operators only, shared by MC_Awareness (design   *)
(* check + schedule generation) and Trace_Awareness (validation of traces  *)
(* recorded from the real `Awareness`).                                    *)
(*                                                                         *)
(* A register is a function  client id -> [clock : Nat, data : STRING]     *)
(* whose domain is the set of clients the peer has an entry for; data is a *)
(* value or Null ("null": state removed / client offline).  An update is a *)
(* set of entries [client, clock, data] with at most one entry per client  *)
(* (the wire form of `AwarenessUpdate`: a map client -> (clock, json), the *)
(* json text `null` standing for a removed state).                         *)
(***************************************************************************)
EXTENDS Naturals, FiniteSets, Sequences, TLC

Null == "null"

EmptyReg == [c \in {} |-> [clock |-> 0, data |-> Null]]
Ent(k, d) == [clock |-> k, data |-> d]
Put(reg, c, e) == [x \in DOMAIN reg \cup {c} |-> IF x = c THEN e ELSE reg[x]]
Live(reg, c) == c \in DOMAIN reg /\ reg[c].data # Null

---------------------------------------------------------------------------
(* Local operations                                                        *)

(* Awareness::set_local_state / set_local_state_raw: occupied -> clock+1,  *)
(* vacant -> clock 1                                                       *)
SetLocal(reg, me, v) ==
  IF me \in DOMAIN reg THEN Put(reg, me, Ent(reg[me].clock + 1, v))
  ELSE Put(reg, me, Ent(1, v))

(* Awareness::remove_state(c): occupied -> data removed, clock+1 (also when *)
(* the data is already removed); vacant -> a removed entry with clock 1.   *)
(* Called by a third party when it considers client c timed out.           *)
RemoveState(reg, c) ==
  IF c \in DOMAIN reg THEN Put(reg, c, Ent(reg[c].clock + 1, Null))
  ELSE Put(reg, c, Ent(1, Null))

(* Awareness::clean_local_state = remove_state(own client id)              *)
CleanLocal(reg, me) == RemoveState(reg, me)

(* Awareness::update_with_clients(cs): requires cs \subseteq DOMAIN reg    *)
(* (otherwise Error::ClientNotFound)                                       *)
MakeUpdate(reg, cs) == {[client |-> c, clock |-> reg[c].clock, data |-> reg[c].data] : c \in cs}
(* Awareness::update(): the entries whose state is not removed             *)
LiveClients(reg) == {c \in DOMAIN reg : reg[c].data # Null}
FullUpdate(reg) == MakeUpdate(reg, LiveClients(reg))

WellFormedUpdate(u) == \A e1, e2 \in u : e1.client = e2.client => e1 = e2
ClientsOf(u) == {e.client : e \in u}

---------------------------------------------------------------------------
(* Awareness::apply_update_internal, one entry e for a peer whose own      *)
(* client id is `me`.  Case by case:                                       *)
(*  vacant                       -> inserted as received (also a removed   *)
(*                                  entry)                                 *)
(*  occupied, e.clock < s.clock  -> ignored                                *)
(*  occupied, e.clock = s.clock  -> ignored, unless e is a removal and s   *)
(*                                  is live ("is_removed"): then as below  *)
(*  accepted removal, foreign client or own state already removed          *)
(*                               -> data removed, clock := e.clock         *)
(*  accepted removal of the OWN live state                                 *)
(*                               -> data kept, clock := e.clock + 1 (the   *)
(*                                  owner re-asserts itself)               *)
(*  accepted value (e.clock > s.clock)                                     *)
(*                               -> data := e.data, clock := e.clock       *)
Accepts(s, e) == s.clock < e.clock \/ (s.clock = e.clock /\ e.data = Null /\ s.data # Null)

Merge(reg, me, e) ==
  IF e.client \notin DOMAIN reg THEN Ent(e.clock, e.data)
  ELSE LET s == reg[e.client]
       IN IF ~Accepts(s, e) THEN s
          ELSE IF e.data = Null
               THEN IF e.client = me /\ s.data # Null THEN Ent(e.clock + 1, s.data)
                    ELSE Ent(e.clock, Null)
               ELSE Ent(e.clock, e.data)

Apply(reg, me, u) ==
  [c \in DOMAIN reg \cup ClientsOf(u) |->
     IF c \in ClientsOf(u) THEN Merge(reg, me, CHOOSE e \in u : e.client = c) ELSE reg[c]]

---------------------------------------------------------------------------
(* Property-level predicates (C18).  reg -> reg2 is one step of a peer     *)
(* whose own client id is `me`.                                            *)

(* a client's clock never goes backwards (and no entry disappears)         *)
C18_ClockMonotone(reg, reg2) ==
  \A c \in DOMAIN reg : c \in DOMAIN reg2 /\ reg2[c].clock >= reg[c].clock

(* an entry with a lower clock never replaces one with a higher clock      *)
C18_NoLowerReplaces(reg, reg2, u) ==
  \A e \in u : (e.client \in DOMAIN reg /\ e.clock < reg[e.client].clock)
                  => (e.client \in DOMAIN reg2 /\ reg2[e.client] = reg[e.client])

(* a remote message never erases (or alters) the peer's own live state     *)
C18_OwnStateKept(reg, reg2, me) ==
  Live(reg, me) => (me \in DOMAIN reg2 /\ reg2[me].data = reg[me].data)

(* ... and the owner re-asserts itself: after a removal of its live state  *)
(* that it did not ignore, its clock is above the removal's clock          *)
C18_OwnerReasserts(reg, reg2, me, u) ==
  \A e \in u : (e.client = me /\ e.data = Null /\ Live(reg, me) /\ e.clock >= reg[me].clock)
                  => (me \in DOMAIN reg2 /\ reg2[me].clock > e.clock)

(* applying an update a second time (at once or at any later time) changes *)
(* nothing                                                                 *)
C18_Idempotent(reg, me, u) == Apply(reg, me, u) = reg
C18_IdempotentNow(reg, me, u) == Apply(Apply(reg, me, u), me, u) = Apply(reg, me, u)

(* Property-level STEP relations: what C18 demands of one step reg -> r2 of a peer (own id `me`),   *)
(* leaving to the implementation by how much a clock advances and whether an equal-clock removal    *)
(* is accepted.  The functions SetLocal / RemoveState / Apply above are the implementation-level    *)
(* prediction (a mismatch with them alone is DRIFT `awareness-clock-policy`).                        *)
OthersKept(reg, r2, cs) == DOMAIN r2 = DOMAIN reg \cup cs /\ \A c \in DOMAIN reg \ cs : r2[c] = reg[c]
C18_SetStep(reg, me, v, r2) ==
  OthersKept(reg, r2, {me}) /\ r2[me].data = v /\ (me \in DOMAIN reg => r2[me].clock > reg[me].clock)
C18_RemoveStep(reg, c, r2) ==
  OthersKept(reg, r2, {c}) /\ r2[c].data = Null /\ (c \in DOMAIN reg => r2[c].clock >= reg[c].clock)
MergeOK(reg, me, e, x) ==
  IF e.client \notin DOMAIN reg THEN x = Ent(e.clock, e.data)
  ELSE LET s == reg[e.client]
           removal == IF e.client = me /\ s.data # Null THEN x.data = s.data /\ x.clock > e.clock
                      ELSE x = Ent(e.clock, Null)
       IN CASE e.clock < s.clock -> x = s
            [] e.clock > s.clock -> IF e.data = Null THEN removal ELSE x = Ent(e.clock, e.data)
            [] OTHER -> x = s \/ (e.data = Null /\ s.data # Null /\ removal)
C18_ApplyStep(reg, me, u, r2) ==
  OthersKept(reg, r2, ClientsOf(u)) /\ \A e \in u : MergeOK(reg, me, e, r2[e.client])

(* order-insensitivity: `seen` = pairs <<set of updates applied, register>> *)
(* observed so far on observer peers; a peer that has applied the same set  *)
(* (in whatever order, with whatever repetitions) holds the same register   *)
C18_OrderInsensitive(seen, applied, reg) == \A x \in seen : x[1] = applied => x[2] = reg

(* the last-writer-wins reading: per client the register holds the maximum  *)
(* of the applied entries in the order  clock, then removed-above-value     *)
EntLeq(a, b) == a.clock < b.clock \/ (a.clock = b.clock /\ (b.data = Null \/ a.data = b.data))
C18_IsMaximum(reg, entries) ==
  /\ DOMAIN reg = {e.client : e \in entries}
  /\ \A e \in entries : EntLeq(Ent(e.clock, e.data), reg[e.client])
  /\ \A c \in DOMAIN reg : \E e \in entries : e.client = c /\ Ent(e.clock, e.data) = reg[c]
=============================================================================
