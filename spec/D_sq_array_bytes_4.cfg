CONSTANTS
  Family = "array"
  Unit = "bytes"
  MaxOps = 4
  Shape <- NoShape
SPECIFICATION Spec
INVARIANTS InvWellFormed InvUniqueTags
CHECK_DEADLOCK FALSE
