---------------------------- MODULE Trace_Sticky ----------------------------
(***************************************************************************)
(* V stage for C14: the Yata trace actions plus                            *)
(*   sticky  -- replica r created sticky indexes through the public API    *)
(*              (IndexedSequence::sticky_index) at recorded gaps of one    *)
(*              container; each went through the binary and the JSON       *)
(*              serialization;                                             *)
(*   resolve -- StickyIndex::get_offset of live handles on replica r.      *)
(* H is the handle table: handle name -> Sticky record (anchor bound from  *)
(* the log, then checked against the property).                            *)
(***************************************************************************)
EXTENDS Trace_Yata, Sticky

VARIABLE H
varsX == <<vars, H>>

HandleOf(m) == [cont |-> Ev.cont, assoc |-> m.assoc, anchor |-> m.anchor, par |-> Ev.par]

(* the scope the implementation stored identifies what the spec's record says:                *)
(* an element anchor <=> IndexScope::Relative; otherwise the container itself (root by name,   *)
(* nested type by the id of its type element)                                                  *)
ScopeAgrees(m) ==
  /\ m.assoc_api = m.assoc
  /\ IF m.anchor # None THEN m.scope = "relative"
     ELSE IF Ev.par = None THEN m.scope = "root" /\ Ev.cont = m.sname \o "|"
     ELSE m.scope = "nested" /\ m.sid = Ev.par

StickyMake ==
  /\ Ev.k = "sticky" /\ ~failed
  /\ LET r   == Ev.r
         R   == S[r]
         ms  == Ev.made
         n   == Len(Visible(E, R, Ev.cont))
         J   == 1..Len(ms)
         C   == {j \in J : ms[j].created}
         chk == << <<"C14_NoFailure", Ev.outcome # "panic" /\ \A j \in J : ms[j].out \in {"ok", "none"}>>,
                   <<"C14_Created", Ev.outcome = "skip" \/ (Ev.len = n /\ \A j \in J : C14_Created(n, ms[j].i, ms[j].assoc, ms[j].created))>>,
                   <<"C14_AnchorRight", \A j \in C : ScopeAgrees(ms[j]) /\ C14_AnchorRight(E, R, HandleOf(ms[j]), ms[j].i)>>,
                   <<"C14_RoundTrip", \A j \in C : ms[j].rtb /\ ms[j].rtj>> >>
         dr  == (IF \E j \in C : ~AnchorByRule(E, R, HandleOf(ms[j]), ms[j].i) THEN {"sticky-anchor-rule"} ELSE {})
                \cup (IF \E j \in C : AnchorOnFirstHalf(E, HandleOf(ms[j])) THEN {"sticky-anchor-first-half-of-pair"} ELSE {})
                \* (the executor never asks for a position between the halves of a surrogate pair: a caller error)
                \cup (IF \E j \in J : ms[j].i <= n /\ ~OnCharBoundary(E, Visible(E, R, Ev.cont), ms[j].i) THEN {"sticky-asked-inside-pair"} ELSE {})
                \cup (IF \E j \in J \ C : ms[j].i = n /\ ms[j].assoc = "after" THEN {"sticky-after-end-not-created"} ELSE {})
                \cup (IF \E j \in C : ms[j].i > n THEN {"sticky-created-beyond-end"} ELSE {})
                \cup (IF ObsRep(Ev.obs, R.dlv, R.ddel) # R THEN {"sticky-changed-state"} ELSE {})
     IN /\ Record(Failing(chk), dr)
        /\ H' = [h \in DOMAIN H \cup {ms[j].h : j \in C} |->
                   IF \E j \in C : ms[j].h = h THEN HandleOf(ms[CHOOSE j \in C : ms[j].h = h]) ELSE H[h]]
        /\ cnt' = [cnt EXCEPT !.ev = @ + 1, !.checks = @ + Len(chk) * Len(ms)]
  /\ UNCHANGED <<ln0, bid, E, XD, U, SEEN, S, cfg>>

StickyResolve ==
  /\ Ev.k = "resolve" /\ ~failed
  /\ LET r   == Ev.r
         R   == S[r]
         rs  == Ev.res
         J   == 1..Len(rs)
         K   == {j \in J : rs[j].h \in DOMAIN H}
         chk == << <<"C14_NoFailure", \A j \in J : rs[j].out = "ok">>,
                   <<"C14_ResolveExact",
                        /\ K = J
                        /\ (Ev.all => {rs[j].h : j \in J} = DOMAIN H)
                        /\ \A j \in K : C14_ResolveExact(E, R, H[rs[j].h], rs[j].found, rs[j].cont, rs[j].idx)>> >>
         dr  == (IF \E j \in K : rs[j].found /\ ~KnowsAnchor(R, H[rs[j].h]) THEN {"sticky-resolved-unknown-anchor"} ELSE {})
                \cup (IF \E j \in K : rs[j].found /\ rs[j].assoc # H[rs[j].h].assoc THEN {"sticky-offset-assoc"} ELSE {})
                \cup (IF "obs" \in DOMAIN Ev /\ ObsRep(Ev.obs, R.dlv, R.ddel) # R THEN {"sticky-changed-state"} ELSE {})
     IN /\ Record(Failing(chk), dr)
        /\ cnt' = [cnt EXCEPT !.ev = @ + 1, !.checks = @ + Len(chk) * Len(rs)]
  /\ UNCHANGED <<ln0, bid, E, XD, U, SEEN, S, cfg, H>>

TNextX ==
  /\ l <= Len(Rec)
  /\ l' = l + 1
  /\ \/ (Reset /\ H' = EmptyFn)
     \/ (Skip /\ UNCHANGED H)
     \/ (Local /\ UNCHANGED H)
     \/ (Deliver /\ UNCHANGED H)
     \/ (SvOfUpdate /\ UNCHANGED H)
     \/ (Sync /\ UNCHANGED H)
     \/ (Nondet /\ UNCHANGED H)
     \/ (Crash /\ UNCHANGED H)
     \/ StickyMake
     \/ StickyResolve

TSpecX == TInit /\ H = EmptyFn /\ [][TNextX]_varsX
=============================================================================
