SPECIFICATION Spec
INVARIANTS PrintSchedules
CHECK_DEADLOCK FALSE
CONSTANTS
  Kind = "map"
  Clients = {1}
  U = 3
  AttrLists <- AttrsMap
  EmptyAt = {1}
  MaxOps = 4
  Pairs = FALSE
  FiMax = 0
