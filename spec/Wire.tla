------------------------------- MODULE Wire -------------------------------
(***************************************************************************)
(* C09 -- wire formats.                                                    *)
(*                                                                         *)
(* Part 1: the column codecs of lib0 v2 (UIntOptRle, IntDiffOptRle, Rle,   *)
(* the string table, the key table and the delete-set clock stream) as     *)
(* small state machines over ideal integers, transcribed from              *)
(* yrs/src/updates/encoder.rs and decoder.rs.  A codec turns a sequence of *)
(* values into an abstract token stream (<<"int", v>>, <<"neg", v>>,       *)
(* <<"cnt", n>>, <<"dif", d>>, <<"val", b>>, <<"u", n>>); the decoder is   *)
(* the reader state machine over such a stream.                            *)
(*                                                                         *)
(* Part 2: the grammar of the wire types as a data model: symbolic classes *)
(* of blocks, delete sets, state vectors, snapshots, id maps, sticky       *)
(* indexes, sync messages, awareness updates and Any values, the header    *)
(* fields a block class puts on the wire and what a reader recovers.       *)
(*                                                                         *)
(* Integers are ideal: the 31/32/53-bit limits of an implementation are    *)
(* not part of the meaning (a value that does not survive is a defect of   *)
(* the implementation, see DESIGN.md section 8, F10).                      *)
(***************************************************************************)
EXTENDS Integers, Sequences, FiniteSets, TLC

Rep(v, n) == [i \in 1..n |-> v]

(***************************************************************************)
(* UIntOptRle: a value written once is a positive varint, a run of n >= 2  *)
(* equal values is the negated value (sign bit, "-0" included) followed by *)
(* n - 2.  Encoder state: last value s, run length count.                  *)
(***************************************************************************)
UInit == [s |-> 0, count |-> 0, out |-> <<>>]
UFlush(st) ==
  IF st.count = 0 THEN st.out
  ELSE IF st.count = 1 THEN Append(st.out, <<"int", st.s>>)
  ELSE st.out \o << <<"neg", st.s>>, <<"cnt", st.count - 2>> >>
UWrite(st, v) ==
  IF st.s = v THEN [st EXCEPT !.count = @ + 1]
  ELSE [s |-> v, count |-> 1, out |-> UFlush(st)]
RECURSIVE UFold(_, _, _)
UFold(st, seq, i) == IF i > Len(seq) THEN st ELSE UFold(UWrite(st, seq[i]), seq, i + 1)
UEncode(seq) == UFlush(UFold(UInit, seq, 1))

(* reader: [t = tokens, pos, s, count]; a read returns <<value, reader'>> *)
URdInit(t) == [t |-> t, pos |-> 1, s |-> 0, count |-> 0, bad |-> FALSE]
URead(rd) ==
  IF rd.count > 0 THEN <<rd.s, [rd EXCEPT !.count = @ - 1]>>
  ELSE IF rd.pos > Len(rd.t) THEN <<-1, [rd EXCEPT !.bad = TRUE]>>
  ELSE LET tk == rd.t[rd.pos] IN
       IF tk[1] = "int" THEN <<tk[2], [rd EXCEPT !.s = tk[2], !.count = 0, !.pos = @ + 1]>>
       ELSE IF tk[1] = "neg" /\ rd.pos + 1 <= Len(rd.t) /\ rd.t[rd.pos + 1][1] = "cnt"
         THEN <<tk[2], [rd EXCEPT !.s = tk[2], !.count = rd.t[rd.pos + 1][2] + 1, !.pos = @ + 2]>>
       ELSE <<-1, [rd EXCEPT !.bad = TRUE]>>
RECURSIVE UReadN(_, _)
UReadN(rd, n) ==   \* <<values, reader'>>
  IF n = 0 THEN <<<<>>, rd>>
  ELSE LET r == URead(rd) rest == UReadN(r[2], n - 1) IN <<<<r[1]>> \o rest[1], rest[2]>>
UDone(rd) == ~rd.bad /\ rd.pos = Len(rd.t) + 1 /\ rd.count = 0
UDecode(t, n) == UReadN(URdInit(t), n)[1]
URoundTrip(seq) == LET r == UReadN(URdInit(UEncode(seq)), Len(seq)) IN r[1] = seq /\ UDone(r[2])

(***************************************************************************)
(* IntDiffOptRle: runs of equal *differences*.  Flush writes               *)
(* diff * 2 + hasCount as a signed varint, then count - 2 if hasCount.     *)
(***************************************************************************)
DInit == [last |-> 0, count |-> 0, diff |-> 0, out |-> <<>>]
DFlush(st) ==
  IF st.count = 0 THEN st.out
  ELSE IF st.count = 1 THEN Append(st.out, <<"dif", st.diff * 2>>)
  ELSE st.out \o << <<"dif", st.diff * 2 + 1>>, <<"cnt", st.count - 2>> >>
DWrite(st, v) ==
  LET d == v - st.last IN
  IF st.diff = d THEN [st EXCEPT !.last = v, !.count = @ + 1]
  ELSE [last |-> v, count |-> 1, diff |-> d, out |-> DFlush(st)]
RECURSIVE DFold(_, _, _)
DFold(st, seq, i) == IF i > Len(seq) THEN st ELSE DFold(DWrite(st, seq[i]), seq, i + 1)
DEncode(seq) == DFlush(DFold(DInit, seq, 1))

DRdInit(t) == [t |-> t, pos |-> 1, last |-> 0, count |-> 0, diff |-> 0, bad |-> FALSE]
DRead(rd) ==
  IF rd.count > 0 THEN <<rd.last + rd.diff, [rd EXCEPT !.last = @ + rd.diff, !.count = @ - 1]>>
  ELSE IF rd.pos > Len(rd.t) \/ rd.t[rd.pos][1] # "dif" THEN <<-1, [rd EXCEPT !.bad = TRUE]>>
  ELSE LET raw == rd.t[rd.pos][2]
           has == raw % 2
           d   == (raw - has) \div 2
       IN IF has = 0
          THEN <<rd.last + d, [rd EXCEPT !.last = @ + d, !.diff = d, !.count = 0, !.pos = @ + 1]>>
          ELSE IF rd.pos + 1 <= Len(rd.t) /\ rd.t[rd.pos + 1][1] = "cnt"
          THEN <<rd.last + d, [rd EXCEPT !.last = @ + d, !.diff = d,
                                         !.count = rd.t[rd.pos + 1][2] + 1, !.pos = @ + 2]>>
          ELSE <<-1, [rd EXCEPT !.bad = TRUE]>>
RECURSIVE DReadN(_, _)
DReadN(rd, n) ==
  IF n = 0 THEN <<<<>>, rd>>
  ELSE LET r == DRead(rd) rest == DReadN(r[2], n - 1) IN <<<<r[1]>> \o rest[1], rest[2]>>
DDone(rd) == ~rd.bad /\ rd.pos = Len(rd.t) + 1 /\ rd.count = 0
DDecode(t, n) == DReadN(DRdInit(t), n)[1]
DRoundTrip(seq) == LET r == DReadN(DRdInit(DEncode(seq)), Len(seq)) IN r[1] = seq /\ DDone(r[2])

(***************************************************************************)
(* Rle (bytes): value, then run length - 1 when the next run starts; the   *)
(* last run has no count (the reader repeats it for ever).                 *)
(***************************************************************************)
None == -1
RInit == [last |-> None, count |-> 0, out |-> <<>>]
RWrite(st, v) ==
  IF st.last = v THEN [st EXCEPT !.count = @ + 1]
  ELSE [last |-> v, count |-> 1,
        out |-> (IF st.count > 0 THEN Append(st.out, <<"cnt", st.count - 1>>) ELSE st.out) \o << <<"val", v>> >>]
RECURSIVE RFold(_, _, _)
RFold(st, seq, i) == IF i > Len(seq) THEN st ELSE RFold(RWrite(st, seq[i]), seq, i + 1)
REncode(seq) == RFold(RInit, seq, 1).out

RRdInit(t) == [t |-> t, pos |-> 1, last |-> 0, count |-> 0, bad |-> FALSE]
RRead(rd) ==
  IF rd.count # 0 THEN <<rd.last, [rd EXCEPT !.count = @ - 1]>>   \* count < 0: last run, for ever
  ELSE IF rd.pos > Len(rd.t) \/ rd.t[rd.pos][1] # "val" THEN <<-1, [rd EXCEPT !.bad = TRUE]>>
  ELSE LET v == rd.t[rd.pos][2] IN
       IF rd.pos + 1 <= Len(rd.t)
       THEN <<v, [rd EXCEPT !.last = v, !.count = rd.t[rd.pos + 1][2], !.pos = @ + 2]>>
       ELSE <<v, [rd EXCEPT !.last = v, !.count = -2, !.pos = @ + 1]>>
RECURSIVE RReadN(_, _)
RReadN(rd, n) ==
  IF n = 0 THEN <<<<>>, rd>>
  ELSE LET r == RRead(rd) rest == RReadN(r[2], n - 1) IN <<<<r[1]>> \o rest[1], rest[2]>>
RDone(rd) == ~rd.bad /\ rd.pos = Len(rd.t) + 1
RDecode(t, n) == RReadN(RRdInit(t), n)[1]
RRoundTrip(seq) == LET r == RReadN(RRdInit(REncode(seq)), Len(seq)) IN r[1] = seq /\ RDone(r[2])

(***************************************************************************)
(* String table: all strings concatenated + UIntOptRle of their UTF-16     *)
(* lengths.  A string is a sequence of abstract characters; character 4 is *)
(* an astral one (two UTF-16 units, four UTF-8 bytes).                     *)
(***************************************************************************)
W16(c) == IF c = 4 THEN 2 ELSE 1
RECURSIVE Len16(_)
Len16(s) == IF s = <<>> THEN 0 ELSE W16(Head(s)) + Len16(Tail(s))
RECURSIVE Concat(_)
Concat(ss) == IF ss = <<>> THEN <<>> ELSE Head(ss) \o Concat(Tail(ss))
SEncode(ss) == [cat |-> Concat(ss), lens |-> UEncode([i \in 1..Len(ss) |-> Len16(ss[i])])]

(* read_str: take characters until the announced number of UTF-16 units is used up *)
RECURSIVE TakeUnits(_, _, _)
TakeUnits(cat, pos, remaining) ==   \* number of characters taken
  IF remaining <= 0 \/ pos > Len(cat) THEN 0
  ELSE 1 + TakeUnits(cat, pos + 1, remaining - W16(cat[pos]))
SRdInit(e) == [cat |-> e.cat, pos |-> 1, lens |-> URdInit(e.lens)]
SRead(rd) ==
  LET r == URead(rd.lens)
      n == TakeUnits(rd.cat, rd.pos, r[1])
  IN <<SubSeq(rd.cat, rd.pos, rd.pos + n - 1), [rd EXCEPT !.pos = @ + n, !.lens = r[2]]>>
RECURSIVE SReadN(_, _)
SReadN(rd, n) ==
  IF n = 0 THEN <<<<>>, rd>>
  ELSE LET r == SRead(rd) rest == SReadN(r[2], n - 1) IN <<<<r[1]>> \o rest[1], rest[2]>>
SDone(rd) == UDone(rd.lens) /\ rd.pos = Len(rd.cat) + 1
SRoundTrip(ss) == LET r == SReadN(SRdInit(SEncode(ss)), Len(ss)) IN r[1] = ss /\ SDone(r[2])

(***************************************************************************)
(* Key table (write_key / read_key).  As in Yjs the writer never fills its *)
(* table: every key gets the next sequence number in the key-clock column  *)
(* (IntDiffOptRle) and its text in the string table; the reader looks the  *)
(* number up in the keys read so far and otherwise reads a new string.     *)
(***************************************************************************)
KEncode(keys) == [clock |-> DEncode([i \in 1..Len(keys) |-> i - 1]), str |-> SEncode(keys)]
RECURSIVE KReadN(_, _, _, _)
KReadN(drd, srd, known, n) ==
  IF n = 0 THEN <<<<>>, drd, srd>>
  ELSE LET c == DRead(drd) IN
       IF c[1] >= 0 /\ c[1] < Len(known)
       THEN LET rest == KReadN(c[2], srd, known, n - 1) IN <<<<known[c[1] + 1]>> \o rest[1], rest[2], rest[3]>>
       ELSE LET s == SRead(srd)
                rest == KReadN(c[2], s[2], Append(known, s[1]), n - 1)
            IN <<<<s[1]>> \o rest[1], rest[2], rest[3]>>
KRoundTrip(keys) ==
  LET e == KEncode(keys)
      r == KReadN(DRdInit(e.clock), SRdInit(e.str), <<>>, Len(keys))
  IN r[1] = keys /\ DDone(r[2]) /\ SDone(r[3])

(***************************************************************************)
(* Delete-set clocks of one client in v2: clock as difference to the end   *)
(* of the previous range, length - 1.  ranges = <<<<clock, len>>, ...>>    *)
(* ascending and disjoint.                                                 *)
(***************************************************************************)
RECURSIVE DsEnc(_, _, _)
DsEnc(rs, i, cur) ==
  IF i > Len(rs) THEN <<>>
  ELSE << <<"u", rs[i][1] - cur>>, <<"u", rs[i][2] - 1>> >> \o DsEnc(rs, i + 1, rs[i][1] + rs[i][2])
DsEncode(rs) == DsEnc(rs, 1, 0)
RECURSIVE DsDec(_, _, _)
DsDec(t, pos, cur) ==
  IF pos + 1 > Len(t) THEN <<>>
  ELSE LET clock == cur + t[pos][2]
           len   == t[pos + 1][2] + 1
       IN <<<<clock, len>>>> \o DsDec(t, pos + 2, clock + len)
DsDecode(t) == DsDec(t, 1, 0)
DsRoundTrip(rs) == DsDecode(DsEncode(rs)) = rs

(* the value sequences a letter sequence stands for *)
StrOf(a) == CASE a = 0 -> <<>> [] a = 1 -> <<1>> [] a = 2 -> <<2, 3>> [] a = 5 -> <<4>> [] OTHER -> <<1, 4, a>>
Strs(s) == [i \in 1..Len(s) |-> StrOf(s[i])]
RECURSIVE RangesFrom(_, _, _)
RangesFrom(s, i, cur) ==   \* letter a: gap a after the previous range, length a + 1
  IF i > Len(s) THEN <<>>
  ELSE <<<<cur + s[i], s[i] + 1>>>> \o RangesFrom(s, i + 1, cur + s[i] + s[i] + 1)
Ranges(s) == RangesFrom(s, 1, 0)

C09_CodecRoundTrip(s) ==
  /\ URoundTrip(s)
  /\ DRoundTrip(s)
  /\ RRoundTrip(s)
  /\ SRoundTrip(Strs(s))
  /\ KRoundTrip(Strs(s))
  /\ DsRoundTrip(Ranges(s))

(* what column codec a harness column goes through, and the tokens it must produce *)
TokensOf(codec, inp) ==
  CASE codec = "uint" -> UEncode(inp)
    [] codec = "diff" -> DEncode(inp)
    [] codec = "rle"  -> REncode(inp)
    [] codec = "str"  -> SEncode(inp)
    [] codec = "key"  -> KEncode(inp)
    [] codec = "ds"   -> DsEncode(inp)
    [] OTHER -> <<>>

---------------------------------------------------------------------------
(***************************************************************************)
(* Part 2: grammar.                                                        *)
(***************************************************************************)
ItemKinds == {"any1", "any3", "bin0", "bin3", "deleted1", "deleted3", "doc", "json1", "json3", "embed",
              "format", "str1", "str3", "strx", "tarray", "tmap", "ttext", "txmlelem", "txmlfrag",
              "txmlhook", "txmltext", "tweak"}
RangeKinds == {"gc", "skip"}
IdClasses == {"small", "mid", "big", "huge"}

(* content reference number of the info byte (low 5 bits) *)
RefOf(kind) ==
  CASE kind = "gc" -> 0
    [] kind \in {"deleted1", "deleted3"} -> 1
    [] kind \in {"json1", "json3"} -> 2
    [] kind \in {"bin0", "bin3"} -> 3
    [] kind \in {"str1", "str3", "strx"} -> 4
    [] kind = "embed" -> 5
    [] kind = "format" -> 6
    [] kind \in {"tarray", "tmap", "ttext", "txmlelem", "txmlfrag", "txmlhook", "txmltext", "tweak"} -> 7
    [] kind \in {"any1", "any3"} -> 8
    [] kind = "doc" -> 9
    [] kind = "skip" -> 10
(* tag under which the independent decoder reports the content *)
TagOfKind(kind) ==
  CASE kind = "gc" -> "gc" [] kind = "skip" -> "skip"
    [] kind \in {"deleted1", "deleted3"} -> "deleted"
    [] kind \in {"json1", "json3"} -> "json"
    [] kind \in {"bin0", "bin3"} -> "bin"
    [] kind \in {"str1", "str3", "strx"} -> "str"
    [] kind = "embed" -> "embed" [] kind = "format" -> "fmt"
    [] kind \in {"any1", "any3"} -> "any" [] kind = "doc" -> "doc"
    [] OTHER -> "type"
(* clock length of the block *)
LenOfKind(kind) ==
  CASE kind \in {"any3", "deleted3", "json3", "str3"} -> 3
    [] kind = "strx" -> 3        \* "a" + one astral character
    [] OTHER -> 1

BlockCases == [k : {"block"}, kind : ItemKinds, o : BOOLEAN, ro : BOOLEAN, par : {"root", "nested"},
               sub : BOOLEAN, idc : IdClasses]
RangeCases == [k : {"range"}, kind : RangeKinds, n : {1, 5}, pos : {"lead", "mid", "tail"}, idc : IdClasses]

(* header fields a block class puts on the wire (both encodings share the grammar), and the  *)
(* reader: the info byte alone decides which fields follow                                   *)
Info(c) == [ref |-> RefOf(c.kind), o |-> c.o, ro |-> c.ro, sub |-> c.sub]
EmitHeader(c) ==
  << <<"info", Info(c)>> >>
  \o (IF c.o THEN << <<"left">> >> ELSE <<>>)
  \o (IF c.ro THEN << <<"right">> >> ELSE <<>>)
  \o (IF ~c.o /\ ~c.ro
      THEN << <<"pinfo", c.par = "root">> >> \o (IF c.par = "root" THEN << <<"pname">> >> ELSE << <<"pid">> >>)
           \o (IF c.sub THEN << <<"psub">> >> ELSE <<>>)
      ELSE <<>>)
(* what a reader recovers from the header: parent and key travel only when there is no origin *)
Projection(c) ==
  [kind |-> TagOfKind(c.kind), o |-> c.o, ro |-> c.ro, len |-> LenOfKind(c.kind),
   par |-> IF ~c.o /\ ~c.ro THEN c.par ELSE "",
   sub |-> ~c.o /\ ~c.ro /\ c.sub]
ParseHeader(f) ==
  LET info == f[1][2]
      np   == ~info.o /\ ~info.ro
      ix   == 2 + (IF info.o THEN 1 ELSE 0) + (IF info.ro THEN 1 ELSE 0)
  IN [ref |-> info.ref, o |-> info.o, ro |-> info.ro,
      par |-> IF np THEN (IF f[ix][2] THEN "root" ELSE "nested") ELSE "",
      sub |-> np /\ info.sub,
      used |-> IF np THEN ix + 1 + (IF info.sub THEN 1 ELSE 0) ELSE ix - 1]
C09_GrammarUnambiguous(c) ==
  LET f == EmitHeader(c)
      p == ParseHeader(f)
      q == Projection(c)
  IN /\ p.used = Len(f)
     /\ p.ref = RefOf(c.kind) /\ p.o = q.o /\ p.ro = q.ro /\ p.par = q.par /\ p.sub = q.sub

DsShapes == {"empty", "one", "two", "adjacent-clients", "big", "pending"}
SvShapes == {"empty", "one", "two", "big", "zero"}
IdMapShapes == {"empty", "one", "shared", "twoattrs", "twoclients", "samename", "noattrs"}
StickyScopes == {"relative", "nested", "root"}
MsgTags == {"sync1", "sync2", "update", "auth-ok", "auth-denied", "awq", "awareness",
            "custom4", "custom127", "custom128", "custom255"}
AwShapes == {"empty", "one", "two", "nullstate", "big"}
AnyLeaves == {"null", "undefined", "true", "false", "int0", "int-small", "int-63", "int-64", "int-neg", "int-large",
              "int-large-neg", "f32", "f64", "negzero", "nan", "inf", "bigint", "bigint-neg", "str-empty", "str-ascii",
              "str-2byte", "str-3byte", "str-4byte", "buf-empty", "buf"}
AnyOuter == {"leaf", "arr", "map", "arrarr", "arrmap", "maparr", "mapmap", "empty-arr", "empty-map"}
(* lib0 type tag of a leaf class (first byte of its encoding) *)
AnyTag(leaf) ==
  CASE leaf = "undefined" -> 127 [] leaf = "null" -> 126
    [] leaf \in {"int0", "int-small", "int-63", "int-64", "int-neg", "int-large", "int-large-neg", "negzero"} -> 125
    [] leaf = "f32" -> 124
    [] leaf \in {"f64", "nan"} -> 123
    [] leaf = "inf" -> 124          \* infinity is exact in f32
    [] leaf \in {"bigint", "bigint-neg"} -> 122
    [] leaf = "false" -> 121 [] leaf = "true" -> 120
    [] leaf \in {"str-empty", "str-ascii", "str-2byte", "str-3byte", "str-4byte"} -> 119
    [] leaf \in {"buf-empty", "buf"} -> 116
OuterTag(outer, leaf) ==
  CASE outer = "leaf" -> AnyTag(leaf)
    [] outer \in {"arr", "arrarr", "arrmap", "empty-arr"} -> 117
    [] OTHER -> 118

OtherCases ==
  [k : {"ds"}, shape : DsShapes]
  \cup [k : {"sv"}, shape : SvShapes]
  \cup [k : {"snap"}, ds : DsShapes \ {"pending"}, sv : SvShapes]
  \cup [k : {"idmap"}, shape : IdMapShapes]
  \cup [k : {"sticky"}, scope : StickyScopes, assoc : {"before", "after"}, idc : {"small", "big"}]
  \cup [k : {"msg"}, tag : MsgTags]
  \cup [k : {"aw"}, shape : AwShapes]
  \cup [k : {"any"}, outer : AnyOuter \ {"empty-arr", "empty-map"}, leaf : AnyLeaves]
  \cup [k : {"any"}, outer : {"empty-arr", "empty-map"}, leaf : {"null"}]

GrammarCases == BlockCases \cup RangeCases \cup OtherCases

(* a round trip is judged on canonical renderings recorded by the harness: the independent  *)
(* decoder's view for updates, a sorted rendering for everything else                        *)
Same(a, b) == a = b /\ a # "" /\ a # <<>>
=============================================================================
