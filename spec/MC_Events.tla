----------------------------- MODULE MC_Events -----------------------------
(***************************************************************************)
(* Design model of C11: the way the library derives an edit script from    *)
(* the item list of a type and the transaction's insert / delete sets      *)
(* (types/mod.rs event_change_set, event_keys; transaction.rs              *)
(* add_changed_type), transcribed over the Yata state and checked against  *)
(* Apply of Events.tla in EVERY transition of the MC_Yata design model     *)
(* (local operations, causal syncs, deliveries in every order, merged,     *)
(* duplicated).  `prev` holds the replica states before the last step.     *)
(*                                                                         *)
(* AddedBy selects how "this item was added by the current transaction"    *)
(* is decided where the code consults before_state:                        *)
(*   "insert_set"   - membership in the transaction's insert set           *)
(*   "before_state" - clock >= skip-aware state vector at transaction      *)
(*                    start (what event_keys / add_changed_type do on the  *)
(*                    examined tree; TLC finds the counterexample: an item *)
(*                    integrated beyond a gap by an earlier transaction)   *)
(***************************************************************************)
EXTENDS MC_Yata, Events

CONSTANT AddedBy
VARIABLE prev
varsE == <<vars, prev>>
viewE == <<view, prev>>

InitE == Init /\ prev = S
NextE == Next /\ prev' = S
SpecE == InitE /\ [][NextE]_varsE

InsertSet(R, R2) == Have(R2) \ Have(R)
DeleteSet(R, R2) == (R2.dead \cup R2.gone) \ (R.dead \cup R.gone)
(* the test used where the code compares with before_state *)
ItemAdded(R, R2, x) ==
  IF AddedBy = "insert_set" THEN x \in InsertSet(R, R2)
  ELSE x[2] >= FirstGap(Have(R), x[1], 0)

(* event_change_set: one pass over the item list, tombstones included *)
RECURSIVE WalkSeq(_, _, _, _, _)
WalkSeq(s, i, add, del, dead) ==
  IF i > Len(s) THEN <<>>
  ELSE LET x  == s[i]
           op == IF x \in dead
                 THEN (IF x \in del /\ x \notin add THEN << <<"del", 1, <<>> >> >> ELSE <<>>)
                 ELSE IF x \in add THEN << <<"ins", 0, <<x>> >> >> ELSE << <<"ret", 1, <<>> >> >>
       IN op \o WalkSeq(s, i + 1, add, del, dead)

(* event_keys for one key: s = the key's item chain, right-most last *)
KeyScriptOf(R, R2, k, s) ==
  LET n    == Len(s)
      item == s[n]
      add  == InsertSet(R, R2)
      del  == DeleteSet(R, R2)
      cand == {j \in 1..(n - 1) : s[j] \notin add}
      pj   == IF cand = {} THEN 0 ELSE CHOOSE j \in cand : \A q \in cand : q <= j
  IN IF ItemAdded(R, R2, item)
     THEN IF item \in del
          THEN (IF pj # 0 /\ s[pj] \in del THEN << <<k, "rem", s[pj], None>> >> ELSE <<>>)
          ELSE (IF pj # 0 /\ s[pj] \in del THEN << <<k, "upd", s[pj], item>> >> ELSE << <<k, "ins", None, item>> >>)
     ELSE IF item \in del THEN << <<k, "rem", item, None>> >> ELSE <<>>

InvSeqScript ==
  \A r \in Reps : \A c \in DOMAIN S[r].lst :
     ~Keyed(E, S[r].lst[c]) =>
        LET R  == prev[r]
            R2 == S[r]
            sc == WalkSeq(R2.lst[c], 1, InsertSet(R, R2), DeleteSet(R, R2), R2.dead)
            before == Visible(E, R, c)
        IN /\ Fits(E, sc, before, "elem")
           /\ ApplySeq(E, sc, before, "elem") = Visible(E, R2, c)

InvKeyScript ==
  \A r \in Reps : \A c \in DOMAIN S[r].lst :
     Keyed(E, S[r].lst[c]) =>
        LET R  == prev[r]
            R2 == S[r]
            k  == E[R2.lst[c][1]].sub
            ks == KeyScriptOf(R, R2, k, R2.lst[c])
            before == Visible(E, R, c)
        IN /\ KeyExact(ks, k, before, Visible(E, R2, c))
           /\ KeyOld(ks, k, before)

(* add_changed_type: a nested type that the observer could read before and after the            *)
(* transaction and whose content changed is registered as changed (so its event is fired)      *)
InvFires ==
  \A r \in Reps : \A p \in Units(S[r].lst) :
     LET R  == prev[r]
         R2 == S[r]
         T  == <<p, "">>
     IN (E[p].kind = "type" /\ Reachable(E, R, p, 8) /\ Reachable(E, R2, p, 8) /\ Changed(E, R, R2, T)) =>
           /\ Touched(E, R, R2, T)
           /\ ~ItemAdded(R, R2, p) /\ p \notin R2.dead
(* ... and a type in which nothing was integrated or deleted has an empty script *)
InvUntouchedEmpty ==
  \A r \in Reps : \A c \in DOMAIN S[r].lst :
     LET R  == prev[r]
         R2 == S[r]
         T  == OwnerOf(E, R2.lst[c][1])
     IN ~Touched(E, R, R2, T) => Visible(E, R, c) = Visible(E, R2, c)
=============================================================================
