CONSTANTS
  MaxLen = 6
  Keys = {"b", "i"}
  Vals = {"x", "y", "null"}
SPECIFICATION Spec
INVARIANTS InvTextInvisible InvTextIdempotent InvContextless InvGapAnywhere InvCleanupFmt
CHECK_DEADLOCK FALSE
