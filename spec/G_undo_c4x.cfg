CONSTANTS
  Kind = "x"
  MaxE = 4
  MaxUR = 3
  MaxF = 0
  UseStop = TRUE
  Flat = FALSE
  Pre = FALSE
SPECIFICATION Spec
INVARIANTS InvExact InvRoundTrip InvNearest InvBounded PrintSchedules
CHECK_DEADLOCK FALSE
