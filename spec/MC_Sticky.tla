----------------------------- MODULE MC_Sticky -----------------------------
(***************************************************************************)
(* Design model for C14: the producer / consumer model of MC_Yata plus a   *)
(* set H of sticky indexes that authors may create at any gap of any       *)
(* reachable sequence at any moment of the author phase.  Checked in every *)
(* reachable state (every replica, every prefix of every delivery order):  *)
(* the abstract meaning of Sticky.tla is coherent -- an index created at   *)
(* gap i designates gap i, the designated gap separates the same elements  *)
(* on every replica, equals the independent "number of visible elements    *)
(* left of it" characterisation, lies within the collection and is the     *)
(* same on replicas that received the same updates.                        *)
(***************************************************************************)
EXTENDS MC_Yata, Sticky

CONSTANT MaxSticky

VARIABLE H     \* set of sticky records
varsS == <<vars, H>>
viewS == <<view, H>>

Make(r) ==
  /\ phase = "A" /\ Cardinality(H) < MaxSticky
  /\ \E cn \in SeqConts(r) : \E assoc \in {"after", "before"} :
       LET c == ContKey(cn, "")
           v == Visible(E, S[r], c)
       IN \E i \in 0..Len(v) : H' = H \cup {Sticky(c, cn[2], v, i, assoc)}
  /\ UNCHANGED vars

NextS == (Next /\ UNCHANGED H) \/ (\E r \in Authors : Make(r))
SpecS == Init /\ H = {} /\ [][NextS]_varsS

(* an index created now at any gap of any reachable sequence designates that gap *)
InvGapAtCreation ==
  \A r \in Authors : \A cn \in SeqConts(r) : \A assoc \in {"after", "before"} :
    LET c == ContKey(cn, "")
        v == Visible(E, S[r], c)
    IN \A i \in 0..Len(v) :
         LET h == Sticky(c, cn[2], v, i, assoc)
         IN C14_AnchorRight(E, S[r], h, i) /\ Resolvable(E, S[r], h)

InvInRange ==
  \A h \in H : \A r \in Reps :
    Resolvable(E, S[r], h) => ExpectedIndex(E, S[r], h) \in 0..Len(Visible(E, S[r], h.cont))

(* "after all visible elements that precede it and before all that follow it": the designated gap  *)
(* number is the number of visible elements on its left (the live anchor of a left-associated      *)
(* index is on the left)                                                                           *)
InvGapMeaning ==
  \A h \in H : \A r \in Reps :
    (h.anchor # None /\ Resolvable(E, S[r], h)) =>
      LET R == S[r]
          v == Visible(E, R, h.cont)
          k == ExpectedIndex(E, R, h)
      IN \A j \in 1..Len(v) :
           IF v[j] = h.anchor THEN (j <= k) = (h.assoc = "before")
           ELSE (j <= k) = LeftOfGap(R, h, v[j])

InvSameGap == \A h \in H : \A a, b \in Reps : C14_SameGap(S[a], S[b], h)

InvStickyConverge ==
  \A h \in H : \A a, b \in Reps :
    (SameInput(XD, S[a], S[b]) /\ Settled(S[a]) /\ Settled(S[b]) /\ Resolvable(E, S[a], h) /\ Resolvable(E, S[b], h))
      => ExpectedIndex(E, S[a], h) = ExpectedIndex(E, S[b], h)

(* a replica that knows the anchor keeps knowing it: checked as a step property *)
StickyStable ==
  [][\A h \in H : \A r \in Reps : KnowsAnchor(S[r], h) => KnowsAnchor(S'[r], h) \/ h.anchor \in S'[r].gone]_varsS
=============================================================================
