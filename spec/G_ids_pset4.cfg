SPECIFICATION Spec
INVARIANTS PrintSchedules
CHECK_DEADLOCK FALSE
VIEW view
CONSTANTS
  Kind = "set"
  Clients = {1, 2}
  U = 3
  AttrLists <- AttrsSet
  EmptyAt = {}
  MaxOps = 4
  Pairs = TRUE
  FiMax = 0
