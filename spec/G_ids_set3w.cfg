SPECIFICATION Spec
INVARIANTS PrintSchedules
CHECK_DEADLOCK FALSE
CONSTANTS
  Kind = "set"
  Clients = {1, 2}
  U = 7
  AttrLists <- AttrsSet
  EmptyAt = {3}
  MaxOps = 3
  Pairs = FALSE
  FiMax = 0
