---------------------------- MODULE MC_Snapshot ----------------------------
(***************************************************************************)
(* Design model for C13 over the reachable author-phase states of MC_Yata:  *)
(* an author may take a snapshot at any moment (at most MaxSnaps per        *)
(* behaviour); whatever is edited, synchronised or deleted afterwards, the  *)
(* replica rebuilt from "units below the snapshot clocks + the snapshot's   *)
(* deletions" must show the content the author saw when the snapshot was    *)
(* taken (InvRestore), with the same element order incl. tombstones         *)
(* (InvRestoreStruct).  Decides the design question "do a state map and a   *)
(* delete set suffice" for sequences, map entries and nested values.        *)
(***************************************************************************)
EXTENDS MC_Yata, Snapshot

CONSTANT MaxSnaps
VARIABLE snaps
varsS == <<vars, snaps>>
viewS == <<view, snaps>>

TakeSnap(r) ==
  /\ phase = "A" /\ Cardinality(snaps) < MaxSnaps
  /\ snaps' = snaps \cup {[r |-> r, snap |-> TakeSnapshot(S[r]), view |-> ViewAt(E, S[r]), lst |-> S[r].lst]}
  /\ UNCHANGED vars

InitS == Init /\ snaps = {}
NextS == (Next /\ UNCHANGED snaps) \/ (\E r \in Authors : TakeSnap(r))
SpecS == InitS /\ [][NextS]_varsS

(* only the author phase matters (observers are not snapshotted): stop exploring at the phase switch *)
OnlyA == phase = "A"

InvRepresentable == \A r \in Authors : Representable(S[r])
InvRestore ==
  \A s \in snaps : ViewAt(E, RestoreModel(E, S[s.r], s.snap)) = s.view
InvRestoreStruct ==
  \A s \in snaps :
    LET M == RestoreModel(E, S[s.r], s.snap)
    IN /\ DOMAIN M.lst = DOMAIN s.lst
       /\ \A c \in DOMAIN s.lst : M.lst[c] = s.lst[c]
       /\ M.dead = s.snap.ds
(* the continuation never changes what lies below the cut *)
InvStableBelow ==
  \A s \in snaps : \A c \in DOMAIN s.lst :
    Restrict(Lst(S[s.r].lst, c), {x \in Units(S[s.r].lst) : Below(s.snap.sv, x)}) = s.lst[c]
=============================================================================
