----------------------------- MODULE Snapshot -----------------------------
(***************************************************************************)
(* C13 -- snapshots.  Constant-level operators on top of Yata:             *)
(*   TakeSnapshot(R)        what a snapshot of replica R is (logical time:  *)
(*                          state map + every deletion seen),               *)
(*   ViewAt(E, R)           the content the public API shows (per reachable *)
(*                          container the visible element ids),             *)
(*   RestoreModel(E, R, sn) the replica obtained from an EMPTY replica by    *)
(*                          integrating exactly the units of R that lie      *)
(*                          below the snapshot clocks, with the snapshot's   *)
(*                          deletions -- the abstract meaning of            *)
(*                          encode_state_from_snapshot + apply_update,      *)
(* and the property predicates C13_*.                                       *)
(* A state map is a set of <<client, clock>> pairs without zero entries     *)
(* (the shape of SVOf).                                                     *)
(***************************************************************************)
EXTENDS Yata

Below(sv, x) == \E e \in sv : e[1] = x[1] /\ x[2] < e[2]

TakeSnapshot(R) == [sv |-> SVOf(Have(R)), ds |-> R.dead \cup R.gone]

(* A state map can describe the integrated set only if no unit lies beyond a gap (a replica that   *)
(* integrated content out of order holds units its own state vector does not cover).               *)
Representable(R) == \A x \in Have(R) : Below(SVOf(Have(R)), x)

ViewAt(E, R) ==
  [c \in {d \in DOMAIN R.lst : ContReachable(E, R, d) /\ Visible(E, R, d) # <<>>} |-> Visible(E, R, c)]

RestoreModel(E, R, sn) ==
  LET keep == {x \in Units(R.lst) : Below(sn.sv, x)}
      gone == {x \in R.gone : Below(sn.sv, x)}
      L    == IntegrateSet(E, <<>>, gone, keep)
  IN [lst |-> L, dead |-> ExpectedDead(E, L, gone, sn.ds), gone |-> gone, pend |-> {}, pds |-> {},
      dlv |-> keep \cup gone, ddel |-> sn.ds]

---------------------------------------------------------------------------
(* Property predicates.                                                     *)

(* the snapshot value the implementation produced (state map sm, delete set ds as unit ids) *)
C13_SnapshotExact(R, sm, ds) == sm = TakeSnapshot(R).sv /\ ds = TakeSnapshot(R).ds

(* a snapshot survives its own encode / decode: same state map, same deletions *)
C13_RoundTrip(sm, ds, decoded, sm2, ds2) == decoded /\ sm2 = sm /\ ds2 = ds

(* view: ViewAt at Take time; pub: container -> visible ids as read from the fresh document through  *)
(* the public API; settled: nothing stashed in the fresh document; sound: integrity + accessors ok   *)
C13_RestoreExact(view, pub, settled, sound) ==
  /\ \A c \in DOMAIN view : c \in DOMAIN pub /\ pub[c] = view[c]
  /\ \A c \in DOMAIN pub : pub[c] # <<>> => c \in DOMAIN view
  /\ settled
  /\ sound

(* a document that collects garbage must refuse, never hand out data *)
C13_RefusedOnGc(oc) == oc = "refused"
=============================================================================
