SPECIFICATION Spec
INVARIANTS PrintSchedules
CHECK_DEADLOCK FALSE
CONSTANTS
  Kind = "map"
  Clients = {1}
  U = 6
  AttrLists <- AttrsMap
  EmptyAt = {3}
  MaxOps = 3
  Pairs = FALSE
  FiMax = 0
