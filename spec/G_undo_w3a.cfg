CONSTANTS
  Kind = "a"
  MaxE = 3
  MaxUR = 0
  MaxF = 0
  UseStop = FALSE
  Flat = FALSE
  Pre = TRUE
  Shape = "wiggle"
  MaxP = 2
  MaxW = 3
SPECIFICATION Spec
INVARIANTS InvExact InvRoundTrip InvNearest InvBounded InvWord PrintSchedules
CHECK_DEADLOCK FALSE
