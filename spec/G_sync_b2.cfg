CONSTANTS
  Third = {3}
  Kinds = {"inse", "del"}
  MaxEd = 1
  MaxEd3 = 2
  MaxTotal = 3
  MaxPre = 2
  MaxQ = 0
SPECIFICATION Spec
INVARIANTS PrintSchedules
CHECK_DEADLOCK FALSE
