CONSTANTS
  Family = "xml"
  Unit = "bytes"
  MaxOps = 5
  Shape <- ShapeXml5
SPECIFICATION Spec
INVARIANTS InvWellFormed InvUniqueTags PrintSchedules
CHECK_DEADLOCK FALSE
