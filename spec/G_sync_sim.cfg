CONSTANTS
  Third = {3}
  Kinds = {"insf", "inse", "set", "del"}
  MaxEd = 2
  MaxEd3 = 2
  MaxTotal = 6
  MaxPre = 4
  MaxQ = 1
SPECIFICATION Spec
INVARIANTS PrintSchedules
CHECK_DEADLOCK FALSE
