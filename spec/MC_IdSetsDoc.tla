---------------------------- MODULE MC_IdSetsDoc ----------------------------
(***************************************************************************)
(* Document family of C16: "delete sets computed from a document contain   *)
(* exactly the ids of its deleted content".  Two replicas edit one text    *)
(* in turn (the pen is handed over together with the whole state, so all   *)
(* edits are causally ordered and the element list is the sequential one). *)
(* State: the element list with tombstones and the set of deleted ids.     *)
(* An `emb` call inserts an embedded map with one entry: the element and   *)
(* its child (the next clock) die together, and with garbage collection on *)
(* the child becomes a collected (GC) unit -- delete sets must cover it.   *)
(* G prints every schedule of MaxOps calls; X executes it on real Docs and *)
(* records snapshot().delete_set, the delete set of the encoded state and  *)
(* the transaction's delete set; V compares them with the dead units.      *)
(***************************************************************************)
EXTENDS IdSets, Json, TLC

CONSTANTS MaxOps,    \* calls per schedule
          MaxLen     \* an insertion / deletion covers 1..MaxLen elements

VARIABLES lst, dead, emb, pen, clk, n, hist
vars == <<lst, dead, emb, pen, clk, n, hist>>
view == <<lst, dead, emb, pen, clk, n>>

Vis == SelectSeq(lst, LAMBDA x : x \notin dead)
PosOf(x) == CHOOSE j \in 1..Len(lst) : lst[j] = x
Other(r) == IF r = 1 THEN 2 ELSE 1
Kid(x) == <<x[1], x[2] + 1>>

Init == lst = <<>> /\ dead = {} /\ emb = {} /\ pen = 1 /\ clk = [c \in {1, 2} |-> 0] /\ n = 0 /\ hist = <<>>

InsertAfter(i, new) ==
  LET at == IF i = 0 THEN 0 ELSE PosOf(Vis[i])
  IN lst' = SubSeq(lst, 1, at) \o new \o SubSeq(lst, at + 1, Len(lst))
(* insert k fresh elements after the i-th visible element *)
DocIns(i, k) ==
  /\ InsertAfter(i, [j \in 1..k |-> <<pen, clk[pen] + j - 1>>])
  /\ clk' = [clk EXCEPT ![pen] = @ + k]
  /\ hist' = Append(hist, [a |-> "ins", r |-> pen, i |-> i, n |-> k])
  /\ UNCHANGED <<dead, emb, pen>>
(* insert an embedded map holding one entry (two clocks: the element, then its child) *)
DocEmb(i) ==
  /\ InsertAfter(i, <<<<pen, clk[pen]>>>>)
  /\ emb' = emb \cup {<<pen, clk[pen]>>}
  /\ clk' = [clk EXCEPT ![pen] = @ + 2]
  /\ hist' = Append(hist, [a |-> "emb", r |-> pen, i |-> i, n |-> 1])
  /\ UNCHANGED <<dead, pen>>
(* delete the visible elements i+1 .. i+k (a deleted embedded map takes its child along) *)
DocDel(i, k) ==
  LET gone == {Vis[j] : j \in (i + 1)..(i + k)}
  IN /\ dead' = dead \cup gone \cup {Kid(x) : x \in gone \cap emb}
     /\ hist' = Append(hist, [a |-> "del", r |-> pen, i |-> i, n |-> k])
     /\ UNCHANGED <<lst, emb, pen, clk>>
Pass ==
  /\ pen' = Other(pen)
  /\ hist' = Append(hist, [a |-> "pass", r |-> Other(pen)])
  /\ UNCHANGED <<lst, dead, emb, clk>>

Next ==
  /\ n < MaxOps /\ n' = n + 1
  /\ \/ \E i \in 0..Len(Vis), k \in 1..MaxLen : DocIns(i, k)
     \/ \E i \in 0..Len(Vis) : DocEmb(i)
     \/ \E i \in 0..Len(Vis), k \in 1..MaxLen : i + k <= Len(Vis) /\ DocDel(i, k)
     \/ n > 0 /\ n < MaxOps - 1 /\ hist[Len(hist)].a # "pass" /\ Pass
Spec == Init /\ [][Next]_vars

(* design: the canonical representation of the dead ids is an exact delete set *)
DeadVal == [p \in dead |-> {}]
InvDoc ==
  /\ dead \subseteq ToSet(lst) \cup {Kid(x) : x \in emb}
  /\ \A i, j \in 1..Len(lst) : i # j => lst[i] # lst[j]
  /\ \A x \in emb : Kid(x) \notin ToSet(lst) /\ (x \in dead <=> Kid(x) \in dead)
  /\ CanonLaws(DeadVal)
  /\ ADeleteSetExact(Canon(DeadVal), dead)

PrintSchedules == n = MaxOps => PrintT(<<"REPLAY", ToJson([h |-> hist])>>)
=============================================================================
