--------------------------- MODULE MC_SyncProto ---------------------------
(***************************************************************************)
(* Bounded model of the y-sync handshake between peers 1 and 2 (C18).      *)
(* Prior divergence: before either peer connects, the peers and an offline *)
(* third author edit, and single updates reach a peer out of band in any   *)
(* order (so a peer may connect with stashed updates).  Then each peer     *)
(* connects (Protocol::start: SyncStep1 + its awareness states in one      *)
(* frame, and from then on forwards its transactions as Update messages)   *)
(* and handles the frames of its inbox in FIFO order; the two directions   *)
(* interleave freely and local edits continue during the handshake.        *)
(* Assumption stated by the model: a peer reads its inbox only once it has *)
(* connected itself (a connection is symmetric).                           *)
(*  - design check: all invariants in all states (history hidden by VIEW); *)
(*  - G stage: every complete behaviour is printed as a schedule for X.    *)
(***************************************************************************)
EXTENDS SyncProto, Json

CONSTANTS Third,      \* {} or {3}: offline author of prior edits
          Kinds,      \* subset of {"insf", "inse", "set", "del"}
          MaxEd,      \* edits per peer
          MaxEd3,     \* edits of the third author
          MaxTotal,   \* edits in total
          MaxPre,     \* out-of-band deliveries before the connection
          MaxQ        \* AwarenessQuery messages a connected peer may send

AW == INSTANCE Awareness

VARIABLES E,      \* id -> [deps, kind]
          doc,    \* peer -> [D, X]
          reg,    \* peer -> awareness register
          conn,   \* peer -> connected
          chan,   \* <<from, to>> -> sequence of frames (a frame = sequence of messages)
          edits,  \* sequence of [by, ins, del]: one update per local edit
          pre,    \* out-of-band deliveries done: set of <<edit index, peer>>
          nq,     \* number of AwarenessQuery messages sent
          hist
vars == <<E, doc, reg, conn, chan, edits, pre, nq, hist>>
view == <<E, doc, reg, conn, chan, edits, pre, nq>>

Peers == {1, 2}
Authors == Peers \cup Third
Other(p) == 3 - p
Range(s) == {s[i] : i \in 1..Len(s)}

NEd(p) == Cardinality({i \in 1..Len(edits) : edits[i].by = p})
NextId(p) == <<p, Cardinality({x \in DOMAIN E : x[1] = p})>>
(* a third author edits on a replica of its own: it has exactly its own units *)
Delivered(p) == IF p \in Peers THEN doc[p].D ELSE {x \in DOMAIN E : x[1] = p}
Deleted(p) == IF p \in Peers THEN doc[p].X
              ELSE UNION {edits[i].del : i \in {j \in 1..Len(edits) : edits[j].by = p}}
Integrated(p) == Closure(E, Delivered(p))
NoneConnected == ~conn[1] /\ ~conn[2]

Send(ch, f, t, frames) == [ch EXCEPT ![<<f, t>>] = @ \o frames]

Edit(p, kind, x) ==
  LET id  == NextId(p)
      ins == IF kind = "del" THEN {} ELSE {id}
      del == IF kind = "del" THEN {x} ELSE {}
      el  == [deps |-> Integrated(p), kind |-> IF kind = "set" THEN "map" ELSE "txt"]
      m   == [t |-> "update", ins |-> ins, del |-> del]
  IN /\ NEd(p) < (IF p \in Peers THEN MaxEd ELSE MaxEd3) /\ Len(edits) < MaxTotal
     /\ p \in Third => NoneConnected
     /\ kind = "del" => (x \in Integrated(p) \ Deleted(p) /\ E[x].kind = "txt")
     /\ E' = IF kind = "del" THEN E ELSE [y \in DOMAIN E \cup {id} |-> IF y = id THEN el ELSE E[y]]
     /\ doc' = IF p \in Peers THEN [doc EXCEPT ![p] = ApplyPayload(@, m)] ELSE doc
     /\ edits' = Append(edits, [by |-> p, ins |-> ins, del |-> del])
     /\ chan' = IF p \in Peers /\ conn[p] THEN Send(chan, p, Other(p), << <<m>> >>) ELSE chan
     /\ hist' = Append(hist, IF kind = "del" THEN [a |-> "edit", p |-> p, kind |-> kind, x |-> x]
                             ELSE [a |-> "edit", p |-> p, kind |-> kind])
     /\ UNCHANGED <<reg, conn, pre, nq>>

(* out of band, before the connection: one update reaches a peer on its own *)
PreDeliver(i, t) ==
  /\ NoneConnected /\ Cardinality(pre) < MaxPre
  /\ edits[i].by # t /\ <<i, t>> \notin pre
  /\ doc' = [doc EXCEPT ![t] = ApplyPayload(@, edits[i])]
  /\ pre' = pre \cup {<<i, t>>}
  /\ hist' = Append(hist, [a |-> "pre", u |-> i, t |-> t])
  /\ UNCHANGED <<E, reg, conn, chan, edits, nq>>

Connect(p) ==
  /\ ~conn[p]
  /\ conn' = [conn EXCEPT ![p] = TRUE]
  /\ chan' = Send(chan, p, Other(p),
                  << << [t |-> "step1", sv |-> SVOf(Integrated(p))],
                        [t |-> "aw", entries |-> AW!FullUpdate(reg[p])] >> >>)
  /\ hist' = Append(hist, [a |-> "connect", p |-> p])
  /\ UNCHANGED <<E, doc, reg, edits, pre, nq>>

(* a connected peer asks for the other side's awareness states *)
Query(p) ==
  /\ conn[p] /\ nq < MaxQ
  /\ nq' = nq + 1
  /\ chan' = Send(chan, p, Other(p), << <<[t |-> "query"]>> >>)
  /\ hist' = Append(hist, [a |-> "query", p |-> p])
  /\ UNCHANGED <<E, doc, reg, conn, edits, pre>>

(* Protocol::handle on one frame: every message in order, replies collected *)
RECURSIVE HandleAll(_, _, _, _)
HandleAll(p, ms, s, out) ==   \* s = [doc, reg]
  IF ms = <<>> THEN [s |-> s, out |-> out]
  ELSE LET m == Head(ms)
       IN CASE m.t = "step1" -> HandleAll(p, Tail(ms), s, Append(out, <<MinStep2(s.doc, m.sv)>>))
            [] m.t \in {"step2", "update"} ->
                 HandleAll(p, Tail(ms), [s EXCEPT !.doc = ApplyPayload(@, m)], out)
            [] m.t = "aw" -> HandleAll(p, Tail(ms), [s EXCEPT !.reg = AW!Apply(@, p, m.entries)], out)
            [] m.t = "query" -> HandleAll(p, Tail(ms), s,
                                          Append(out, <<[t |-> "aw", entries |-> AW!FullUpdate(s.reg)]>>))

Handle(p) ==
  LET q == Other(p)
  IN /\ conn[p] /\ chan[<<q, p>>] # <<>>
     /\ LET r == HandleAll(p, Head(chan[<<q, p>>]), [doc |-> doc[p], reg |-> reg[p]], <<>>)
        IN /\ doc' = [doc EXCEPT ![p] = r.s.doc]
           /\ reg' = [reg EXCEPT ![p] = r.s.reg]
           /\ chan' = [chan EXCEPT ![<<q, p>>] = Tail(@), ![<<p, q>>] = @ \o r.out]
     /\ hist' = Append(hist, [a |-> "handle", p |-> p])
     /\ UNCHANGED <<E, conn, edits, pre, nq>>

Targets(p) == {x \in Integrated(p) \ Deleted(p) : E[x].kind = "txt"}

Next ==
  \/ \E p \in Authors : \E kind \in Kinds \ {"del"} : Edit(p, kind, <<0, 0>>)
  \/ "del" \in Kinds /\ \E p \in Authors : \E x \in Targets(p) : Edit(p, "del", x)
  \/ \E i \in 1..Len(edits) : \E t \in Peers : PreDeliver(i, t)
  \/ \E p \in Peers : Connect(p)
  \/ \E p \in Peers : Query(p)
  \/ \E p \in Peers : Handle(p)

Init ==
  /\ E = [x \in {} |-> 0]
  /\ doc = [p \in Peers |-> EmptyDoc]
  /\ reg = [p \in Peers |-> AW!SetLocal(AW!EmptyReg, p, "s")]
  /\ conn = [p \in Peers |-> FALSE]
  /\ chan = [c \in {<<1, 2>>, <<2, 1>>} |-> <<>>]
  /\ edits = <<>> /\ pre = {} /\ nq = 0 /\ hist = <<>>

Spec == Init /\ [][Next]_vars

Quiescent == conn[1] /\ conn[2] /\ chan[<<1, 2>>] = <<>> /\ chan[<<2, 1>>] = <<>>
Done == Quiescent /\ Len(edits) = MaxTotal
PrintSchedules == Done => PrintT(<<"REPLAY", ToJson(hist)>>)

---------------------------------------------------------------------------
(* Invariants (design check) *)
InFlight == UNION {UNION {Range(chan[c][i]) : i \in 1..Len(chan[c])} : c \in DOMAIN chan}

InvQuiescentEqual ==
  Quiescent => /\ C18_QuiescentEqual(doc[1], doc[2], doc[1].X \cap Integrated(1), doc[2].X \cap Integrated(2))
               /\ doc[1].X = doc[2].X
               /\ Integrated(1) = Integrated(2)
               /\ reg[1] = reg[2]
(* whatever the peers hold was authored by somebody; nothing is invented *)
InvSound == \A p \in Peers : doc[p].D \subseteq DOMAIN E
(* a peer's own edits are integrated at once *)
InvOwn == \A p \in Peers : {x \in DOMAIN E : x[1] = p} \subseteq Integrated(p)
(* at quiescence everything either peer ever had is integrated on both sides as soon as the
   union is dependency-closed *)
InvNothingStashed ==
  (Quiescent /\ DepClosed(E, doc[1].D)) => (Integrated(1) = doc[1].D /\ Integrated(2) = doc[2].D)
InvRoundTrip == \A m \in InFlight : LegalMessage(m) /\ C18_MessageRoundTrip(m)
=============================================================================
