------------------------------ MODULE MC_Rich ------------------------------
(***************************************************************************)
(* Design check of the clean-up transcription in Rich.tla: over ALL lists  *)
(* of a text container up to MaxLen items -- live / tombstoned characters, *)
(* live marks of every key x value, tombstoned marks -- every pass of the  *)
(* automatic formatting clean-up (whole-type pass, contextless pass for    *)
(* every deleted unit, the dispatch of TransactionMut::cleanup_fmt for     *)
(* every delete set) leaves Render unchanged and is idempotent.            *)
(* One state = one list; the next-state relation appends one item.         *)
(***************************************************************************)
EXTENDS Rich

CONSTANTS MaxLen, Keys, Vals    \* Vals contains "null"

VARIABLE items                  \* sequence of [k : "chr"|"fmt", dead : BOOLEAN, fk, fv]

Item == [k : {"chr"}, dead : BOOLEAN, fk : {""}, fv : {""}]
        \cup [k : {"fmt"}, dead : {FALSE}, fk : Keys, fv : Vals]
        \cup [k : {"fmt"}, dead : {TRUE}, fk : {""}, fv : {""}]     \* a tombstoned mark has no meaning: one representative

Init == items = <<>>
Next == Len(items) < MaxLen /\ \E it \in Item : items' = Append(items, it)
Spec == Init /\ [][Next]_items

Ids  == {<<1, i>> : i \in 1..Len(items)}
Lst0 == [i \in 1..Len(items) |-> <<1, i>>]
El   == [x \in Ids |-> [kind |-> IF items[x[2]].k = "fmt" THEN "fmt" ELSE "str", fk |-> items[x[2]].fk, fv |-> items[x[2]].fv]]
Dead == {x \in Ids : items[x[2]].dead}

Invisible(cl) == Render(El, Lst0, Dead \cup cl) = Render(El, Lst0, Dead)
OnlyLiveMarks(cl) == \A x \in cl : LiveMark(El, Dead, x)

(* whole-type pass *)
InvTextInvisible  == LET cl == CleanText(El, Lst0, Dead) IN OnlyLiveMarks(cl) /\ Invisible(cl)
InvTextIdempotent == CleanText(El, Lst0, Dead \cup CleanText(El, Lst0, Dead)) = {}
(* contextless pass at every tombstoned character *)
InvContextless ==
  \A i \in 1..Len(items) : (items[i].dead /\ items[i].k = "chr") =>
     LET cl == CleanContextless(El, Lst0, Dead, i)
     IN OnlyLiveMarks(cl) /\ Invisible(cl) /\ CleanContextless(El, Lst0, Dead \cup cl, i) = {}
(* the gap pass with the attributes really in force at its start is invisible at EVERY gap (the pass the library *)
(* reaches only for the head gap)                                                                                *)
ElX == [x \in Ids \cup {<<0, 0>>} |-> IF x = <<0, 0>> THEN [kind |-> "str", fk |-> "", fv |-> ""] ELSE El[x]]
AttrsAt(i) == LET r == RenderFrom(ElX, SubSeq(Lst0, 1, i - 1) \o << <<0, 0>> >>, Dead, 1, {}) IN r[Len(r)][2]
InvGapAnywhere ==
  \A i \in 1..Len(items) : (i = 1 \/ LiveUnit(El, Dead, Lst0[i - 1])) =>
     LET cl == CleanGap(El, Lst0, Dead, i, AttrsAt(i))
     IN OnlyLiveMarks(cl) /\ Invisible(cl) /\ CleanGap(El, Lst0, Dead \cup cl, i, AttrsAt(i)) = {}
(* the dispatch: every delete set of the transaction (tombstones it made), with / without an inserted live mark *)
InvCleanupFmt ==
  \A del \in SUBSET Dead : \A w \in BOOLEAN :
     LET ins == IF w THEN {x \in Ids : LiveMark(El, Dead, x)} ELSE {}
         cl  == CleanupFmt(El, Lst0, Dead, ins, del)
     IN OnlyLiveMarks(cl) /\ Invisible(cl)

(* NOT an invariant (run by hand, see notes/rich-design-section.md): the stronger reading.  After the clean-up, one *)
(* more live mark is deleted by somebody else (a format call that had not seen the cleaned marks): what was cleaned   *)
(* is no longer invisible.  TLC's counterexample is the design-level form of finding F20.                             *)
StrongInvisible ==
  LET cl == CleanText(El, Lst0, Dead)
  IN \A m \in {x \in Ids : LiveMark(El, Dead \cup cl, x)} :
        Render(El, Lst0, Dead \cup cl \cup {m}) = Render(El, Lst0, Dead \cup {m})
=============================================================================
