----------------------------- MODULE MC_Quote -----------------------------
(***************************************************************************)
(* Design check for C20: on every reachable state of the replicated-       *)
(* document model (MC_Yata: authors edit and sync, an observer receives    *)
(* the updates in every order) the abstract meaning of a quotation         *)
(* (Quote!QSeq: the not-deleted elements between the two boundary          *)
(* elements in the replica's list) is well defined independently of the    *)
(* replica:                                                                *)
(*  - replicas that received the same input dereference EVERY candidate    *)
(*    quotation (all boundary pairs, all inclusive/exclusive flags,        *)
(*    unbounded ends) to the same sequence;                                *)
(*  - whether an element lies inside a range is a matter of list order     *)
(*    only, so two replicas that both hold the boundaries and the element  *)
(*    agree on it at every intermediate moment, not only at quiescence.    *)
(* This is what allows the trace specification to predict `unquote` on a   *)
(* replica from that replica's own list.                                   *)
(***************************************************************************)
EXTENDS MC_Yata, Quote

InvQuoteConverge  == \A a, b \in Reps : a < b => QuoteConverge(E, XD, S[a], S[b])
InvQuoteOrderOnly == \A a, b \in Reps : a < b => QuoteOrderOnly(S[a], S[b])
(* a quotation whose boundaries a replica holds never contains a deleted element and is a subsequence of the list *)
InvQuoteVisibleOnly ==
  \A r \in Reps : \A c \in DOMAIN S[r].lst : ~Keyed(E, S[r].lst[c]) =>
     \A q \in Candidates(E, S[r], c) :
        LET qs == QSeq(E, S[r], q)
        IN Range(qs) \cap S[r].dead = {} /\ qs = Restrict(Visible(E, S[r], c), Range(qs))
=============================================================================
