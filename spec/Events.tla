------------------------------- MODULE Events -------------------------------
(***************************************************************************)
(* C11 -- change events are exact edit scripts.                            *)
(*                                                                         *)
(* Constant-level operators over the Yata state: E (element table), a      *)
(* replica state R before and R2 after one committed transaction, and the  *)
(* record `c` of what the observers of that replica received during the    *)
(* transaction (recorded by harness/src/ext/events.rs):                    *)
(*   c.sh : one record per ROOT type, shallow observer                     *)
(*          [root, kind ("seq"|"map"), unit, fired, script, kscript,       *)
(*           seq, keys]                                                    *)
(*   c.dp : one record per type known to the deep observers (every root,   *)
(*          every reachable nested type)                                   *)
(*          [own (id of the type element, None for a root), root (whose    *)
(*           deep observer), kind, unit, n (events for this type in the    *)
(*           transaction), fresh (first seen in this step), script,        *)
(*           kscript, path, seq, keys]                                     *)
(*   c.deepfired : root -> number of deep-observer calls                   *)
(* script  = <<op, ...>>, op = <<"ret"|"del"|"ins"|"attr", n, ids>>        *)
(*           (text delta / array change list; n counts in `unit`:          *)
(*           "bytes" | "utf16" = the document's offset kind for a text,    *)
(*           "elem" for an array)                                          *)
(* kscript = <<<<key, "ins"|"upd"|"rem", old id, new id>>, ...>>           *)
(* seq / keys = the observer's SHADOW copy, changed only by applying the   *)
(*           received scripts (keys : key -> <<id>>).                      *)
(* A type is identified by T = <<id of its type element, "">> or           *)
(* <<None, root name>>.  The executor's roots are text "t", array "a",     *)
(* map "m".                                                                *)
(***************************************************************************)
EXTENDS Yata

RootName(e) == IF e.sub # "" THEN "m" ELSE IF e.cont = "t|" THEN "t" ELSE "a"
OwnerOf(E, x) == IF E[x].par # None THEN <<E[x].par, "">> ELSE <<None, RootName(E[x])>>
ShT(d) == <<None, d.root>>
DpT(d) == IF d.own = None THEN <<None, d.root>> ELSE <<d.own, "">>

ContsOf(E, L, T) == {c \in DOMAIN L : Len(L[c]) > 0 /\ OwnerOf(E, L[c][1]) = T}
KeysOfType(E, R, T) == {E[R.lst[c][1]].sub : c \in ContsOf(E, R.lst, T)} \ {""}
(* content of the sequence part of T / of key k of T, as the public API shows it *)
KeyVal(E, R, T, k) ==
  LET cs == {c \in ContsOf(E, R.lst, T) : E[R.lst[c][1]].sub = k}
  IN IF cs = {} THEN <<>> ELSE Visible(E, R, CHOOSE c \in cs : TRUE)
SeqContent(E, R, T) == KeyVal(E, R, T, "")

TypeReachable(E, R, T) == T[1] = None \/ Reachable(E, R, T[1], 8)

RECURSIVE RootOfType(_, _, _)
RootOfType(E, p, fuel) ==
  IF fuel = 0 \/ p \notin DOMAIN E THEN ""
  ELSE IF E[p].par = None THEN RootName(E[p]) ELSE RootOfType(E, E[p].par, fuel - 1)

(* path from the root to the type element p: map keys and visible indexes (Branch::path) *)
RECURSIVE PathTo(_, _, _, _)
PathTo(E, R, p, fuel) ==
  IF p = None \/ fuel = 0 \/ p \notin DOMAIN E THEN <<>>
  ELSE PathTo(E, R, E[p].par, fuel - 1) \o
       << IF E[p].sub # "" THEN <<E[p].sub, 0>>
          ELSE <<"", IndexOf(Visible(E, R, E[p].cont), p) - 1>> >>

---------------------------------------------------------------------------
(* Apply(script, value): standard delta / change-list semantics.           *)
(* Retain / delete lengths count in the observed type's unit `u`:          *)
(* "bytes" | "utf16" for a text (the document's offset kind: a character   *)
(* of 1|2 elements is 1..4 bytes or 1|2 UTF-16 units long, WidthIn of      *)
(* Yata.tla), "elem" for arrays.  A length must end on a character         *)
(* boundary of the content it runs over.                                   *)
(* number of elements of v behind gap pos covered by n units; Len(v) + 1 = none *)
Span(E, v, pos, n, u) ==
  LET w0 == WidthOfSeq(E, v, pos, u)
      K  == {k \in 0..(Len(v) - pos) : OnCharBoundary(E, v, pos + k) /\ WidthOfSeq(E, v, pos + k, u) - w0 = n}
  IN IF K = {} THEN Len(v) + 1 ELSE CHOOSE k \in K : \A j \in K : k <= j

(* <<the script fits the value it is applied to, the resulting value>> *)
RECURSIVE RunScript(_, _, _, _, _)
RunScript(E, ops, v, pos, u) ==
  IF ops = <<>> THEN <<TRUE, v>>
  ELSE LET op == ops[1]
       IN CASE op[1] \in {"ret", "del"} ->
                 LET k == Span(E, v, pos, op[2], u)
                 IN IF k > Len(v) THEN <<FALSE, v>>
                    ELSE IF op[1] = "ret" THEN RunScript(E, Tail(ops), v, pos + k, u)
                    ELSE RunScript(E, Tail(ops), SubSeq(v, 1, pos) \o SubSeq(v, pos + k + 1, Len(v)), pos, u)
            [] op[1] = "ins" ->
                 RunScript(E, Tail(ops), SubSeq(v, 1, pos) \o op[3] \o SubSeq(v, pos + 1, Len(v)), pos + Len(op[3]), u)
            [] OTHER -> <<FALSE, v>>      \* attributes although nothing was ever formatted
Fits(E, ops, v, u) == RunScript(E, ops, v, 0, u)[1]
ApplySeq(E, ops, v, u) == RunScript(E, ops, v, 0, u)[2]

KeyEntries(ks, k) == {i \in 1..Len(ks) : ks[i][1] = k}
ScriptKeys(ks) == {ks[i][1] : i \in 1..Len(ks)}
(* the key changes turn `before` into `after` *)
KeyExact(ks, k, before, after) ==
  LET es == KeyEntries(ks, k)
  IN IF es = {} THEN before = after
     ELSE /\ Cardinality(es) = 1
          /\ LET e == ks[CHOOSE i \in es : TRUE]
             IN CASE e[2] = "ins" -> after = <<e[4]>>
                  [] e[2] = "upd" -> after = <<e[4]>>
                  [] e[2] = "rem" -> after = <<>>
                  [] OTHER -> FALSE
(* the reported old value is what the key held before *)
KeyOld(ks, k, before) ==
  \A i \in KeyEntries(ks, k) :
     LET e == ks[i]
     IN CASE e[2] = "ins" -> before = <<>>
          [] e[2] = "upd" -> before = <<e[3]>>
          [] e[2] = "rem" -> before = <<e[3]>>
          [] OTHER -> FALSE

---------------------------------------------------------------------------
(* the shadow copy equals the content readable after the transaction *)
ShadowExact(E, R2, d, T) ==
  IF d.kind = "seq"
  THEN d.seq = SeqContent(E, R2, T) /\ KeysOfType(E, R2, T) = {}
  ELSE /\ \A k \in KeysOfType(E, R2, T) \cup DOMAIN d.keys :
            (IF k \in DOMAIN d.keys THEN d.keys[k] ELSE <<>>) = KeyVal(E, R2, T, k)
       /\ SeqContent(E, R2, T) = <<>>

C11_EventExact(E, R2, c) ==
  /\ \A i \in 1..Len(c.sh) : ShadowExact(E, R2, c.sh[i], ShT(c.sh[i]))
  /\ \A i \in 1..Len(c.dp) : TypeReachable(E, R2, DpT(c.dp[i])) => ShadowExact(E, R2, c.dp[i], DpT(c.dp[i]))
  (* every reachable type with content is observed *)
  /\ \A cn \in DOMAIN R2.lst :
       (ContReachable(E, R2, cn) /\ Visible(E, R2, cn) # <<>>) =>
          LET T == OwnerOf(E, R2.lst[cn][1])
          IN /\ \E i \in 1..Len(c.dp) : DpT(c.dp[i]) = T
             /\ T[1] = None => \E i \in 1..Len(c.sh) : ShT(c.sh[i]) = T

(* the script of this transaction, applied to the content before it, yields the content after it *)
ScriptExactFor(E, R, R2, d, T) ==
  IF d.kind = "seq"
  THEN LET before == SeqContent(E, R, T)
           run == RunScript(E, d.script, before, 0, d.unit)
       IN run[1] /\ run[2] = SeqContent(E, R2, T)
  ELSE \A k \in KeysOfType(E, R, T) \cup KeysOfType(E, R2, T) \cup ScriptKeys(d.kscript) :
          KeyExact(d.kscript, k, KeyVal(E, R, T, k), KeyVal(E, R2, T, k))

Tracked(E, R, R2, d) == ~d.fresh /\ TypeReachable(E, R, DpT(d)) /\ TypeReachable(E, R2, DpT(d))

C11_ScriptExact(E, R, R2, c) ==
  /\ \A i \in 1..Len(c.sh) : ScriptExactFor(E, R, R2, c.sh[i], ShT(c.sh[i]))
  /\ \A i \in 1..Len(c.dp) : Tracked(E, R, R2, c.dp[i]) => ScriptExactFor(E, R, R2, c.dp[i], DpT(c.dp[i]))

OldFor(E, R, d, T) ==
  d.kind = "map" => \A k \in ScriptKeys(d.kscript) : KeyOld(d.kscript, k, KeyVal(E, R, T, k))
C11_OldValues(E, R, R2, c) ==
  /\ c.oldok
  /\ \A i \in 1..Len(c.sh) : OldFor(E, R, c.sh[i], ShT(c.sh[i]))
  /\ \A i \in 1..Len(c.dp) : Tracked(E, R, R2, c.dp[i]) => OldFor(E, R, c.dp[i], DpT(c.dp[i]))

C11_AtMostOnce(c) ==
  /\ \A i \in 1..Len(c.sh) : c.sh[i].fired <= 1
  /\ \A i \in 1..Len(c.dp) : c.dp[i].n <= 1
  /\ \A rt \in DOMAIN c.deepfired : c.deepfired[rt] <= 1

(* the transaction integrated or deleted an element of T *)
Touched(E, R, R2, T) ==
  \E x \in DOMAIN E :
     /\ OwnerOf(E, x) = T
     /\ \/ x \in Have(R2) \ Have(R)
        \/ x \in (R2.dead \cup R2.gone) \ (R.dead \cup R.gone)

(* weaker reading (DESIGN.md section 5 (b)): a type in which the transaction neither integrated *)
(* nor deleted an element fires nothing; a net-zero transaction may fire with an empty script   *)
C11_NoEventIfUntouched(E, R, R2, c) ==
  /\ \A i \in 1..Len(c.sh) : c.sh[i].fired > 0 => Touched(E, R, R2, ShT(c.sh[i]))
  /\ \A i \in 1..Len(c.dp) : c.dp[i].n > 0 => Touched(E, R, R2, DpT(c.dp[i]))
  /\ \A rt \in DOMAIN c.deepfired :
       c.deepfired[rt] > 0 => \E i \in 1..Len(c.dp) : c.dp[i].root = rt /\ c.dp[i].n > 0

Changed(E, R, R2, T) ==
  \E k \in KeysOfType(E, R, T) \cup KeysOfType(E, R2, T) \cup {""} : KeyVal(E, R, T, k) # KeyVal(E, R2, T, k)

C11_FiresOnChange(E, R, R2, c) ==
  /\ \A i \in 1..Len(c.sh) :
       Changed(E, R, R2, ShT(c.sh[i])) =>
          /\ c.sh[i].fired >= 1
          /\ c.sh[i].root \in DOMAIN c.deepfired /\ c.deepfired[c.sh[i].root] >= 1
  /\ \A i \in 1..Len(c.dp) :
       (Tracked(E, R, R2, c.dp[i]) /\ Changed(E, R, R2, DpT(c.dp[i]))) =>
          /\ c.dp[i].n >= 1
          /\ c.dp[i].root \in DOMAIN c.deepfired /\ c.deepfired[c.dp[i].root] >= 1

C11_DeepPaths(E, R, R2, c) ==
  /\ c.pathok /\ c.routeok
  /\ \A i \in 1..Len(c.dp) :
       LET d == c.dp[i]
       IN /\ (d.n > 0 /\ TypeReachable(E, R2, DpT(d))) => d.path = PathTo(E, R2, d.own, 8)
          /\ (d.own # None /\ d.own \in DOMAIN E) => d.root = RootOfType(E, d.own, 8)
          /\ d.fresh => ~TypeReachable(E, R, DpT(d))

C11_ScriptApplies(c) == c.applyok
=============================================================================
