-------------------------- MODULE Trace_Awareness --------------------------
(***************************************************************************)
(* V stage for the awareness half of C18: validates traces recorded from   *)
(* real `yrs::sync::Awareness` instances (harness/src/aware.rs) against    *)
(* the Awareness specification.  One total trace action per event kind; a  *)
(* failed predicate is added to `viol` and the rest of that behaviour is   *)
(* skipped up to the next `reset` event.                                   *)
(***************************************************************************)
EXTENDS Awareness, Json, IOUtils

Rec == ndJsonDeserialize(IOEnv.TRACE)

VARIABLES l,       \* next trace line
          bid,     \* id of the current behaviour
          st,      \* peer -> register (specification state)
          obsv,    \* observer peers of the behaviour
          upd,     \* updates in emission order (sets of entries)
          got,     \* peer -> set of indexes of updates it has applied
          seen,    \* pairs <<set of updates applied, register>> recorded on observers
          failed, viol, drift, cnt
vars == <<l, bid, st, obsv, upd, got, seen, failed, viol, drift, cnt>>

Ev == Rec[l]
Range(s) == {s[i] : i \in 1..Len(s)}
EmptyFn == [x \in {} |-> 0]

(* recorded register (array of {c, k, d, t}) -> register *)
RecReg(r) == [c \in {r[i].c : i \in 1..Len(r)} |->
                LET e == r[CHOOSE i \in 1..Len(r) : r[i].c = c] IN Ent(e.k, e.d)]
RecEntries(r) == {[client |-> r[i].c, clock |-> r[i].k, data |-> r[i].d] : i \in 1..Len(r)}
NoDupClients(r) == \A i, j \in 1..Len(r) : r[i].c = r[j].c => i = j

(* the three read paths agree with the specification register reg2 *)
RegisterExact(reg2, me) ==
  /\ NoDupClients(Ev.reg) /\ NoDupClients(Ev.acc)
  /\ RecReg(Ev.reg) = reg2                      \* Awareness::iter
  /\ RecReg(Ev.acc) = reg2                      \* Awareness::meta + Awareness::state
  /\ Ev.own = (IF Live(reg2, me) THEN reg2[me].data ELSE Null)     \* local_state
  /\ Ev.ownraw = Ev.own                                            \* local_state_raw
  /\ Ev.cid = me

(* the read paths agree with each other (the register they show is adopted as the successor state) *)
ReadsAgree(me) ==
  LET r == RecReg(Ev.reg) IN
  /\ NoDupClients(Ev.reg) /\ NoDupClients(Ev.acc)
  /\ RecReg(Ev.acc) = r                         \* Awareness::meta + Awareness::state  vs  Awareness::iter
  /\ Ev.own = (IF Live(r, me) THEN r[me].data ELSE Null)     \* local_state
  /\ Ev.ownraw = Ev.own                                      \* local_state_raw
  /\ Ev.cid = me

Failing(chk) == {chk[i][1] : i \in {j \in 1..Len(chk) : ~chk[j][2]}}
Record(chk) ==
  /\ viol' = viol \cup {<<bid, p, l>> : p \in Failing(chk)}
  /\ failed' = (failed \/ Failing(chk) # {})
  /\ cnt' = [cnt EXCEPT !.ev = @ + 1, !.checks = @ + Len(chk)]

---------------------------------------------------------------------------
Reset ==
  /\ Ev.k = "reset"
  /\ bid' = Ev.bid
  /\ LET ps == {Ev.cfg.peers[i].id : i \in 1..Len(Ev.cfg.peers)}
     IN /\ st' = [p \in ps |-> EmptyReg]
        /\ got' = [p \in ps |-> {}]
        /\ obsv' = {Ev.cfg.peers[i].id : i \in {j \in 1..Len(Ev.cfg.peers) : Ev.cfg.peers[j].role = "obs"}}
  /\ upd' = <<>> /\ seen' = {}
  /\ failed' = FALSE
  /\ cnt' = [cnt EXCEPT !.beh = @ + 1]
  /\ UNCHANGED <<viol, drift>>

Skip ==
  /\ Ev.k # "reset" /\ failed
  /\ UNCHANGED <<bid, st, obsv, upd, got, seen, failed, viol, drift, cnt>>

(* local operation: the recorded register is the specification's successor *)
(* reg2 = the specification's own successor (implementation-level prediction: DRIFT when the recorded register differs *)
(* from it but satisfies the property-level step relation `stepok`); the RECORDED register is adopted                  *)
LocalOp(p, reg2, stepok) ==
  LET rec2 == RecReg(Ev.reg)
      wf   == NoDupClients(Ev.reg)
      chk == << <<"C18_NoFailure", Ev.outcome = "ok">>,
                <<"C18_ReadsAgree", ReadsAgree(p)>>,
                <<"C18_LocalStep", wf /\ stepok>>,
                <<"C18_ClockMonotone", wf /\ C18_ClockMonotone(st[p], rec2)>> >>
  IN /\ Record(chk)
     /\ st' = [st EXCEPT ![p] = IF wf THEN rec2 ELSE reg2]
     /\ drift' = IF wf /\ rec2 # reg2 THEN drift \cup {<<bid, "awareness-clock-policy", l>>} ELSE drift
     /\ UNCHANGED <<bid, obsv, upd, got, seen>>

Set   == Ev.k = "set"   /\ ~failed /\ LocalOp(Ev.p, SetLocal(st[Ev.p], Ev.p, Ev.v), C18_SetStep(st[Ev.p], Ev.p, Ev.v, RecReg(Ev.reg)))
Clean == Ev.k = "clean" /\ ~failed /\ LocalOp(Ev.p, CleanLocal(st[Ev.p], Ev.p), C18_RemoveStep(st[Ev.p], Ev.p, RecReg(Ev.reg)))
Rem   == Ev.k = "rem"   /\ ~failed /\ LocalOp(Ev.p, RemoveState(st[Ev.p], Ev.c), C18_RemoveStep(st[Ev.p], Ev.c, RecReg(Ev.reg)))

(* an update is cut: every entry is the register's entry for that client, unchanged by   *)
(* the wire.  A subset update carries exactly the requested clients; a full update        *)
(* (Awareness::update) must carry at least every live client -- that it carries nothing   *)
(* else is the implementation's documented choice, bound from the log (drift otherwise).  *)
MkUpd ==
  /\ Ev.k = "upd" /\ ~failed
  /\ LET p    == Ev.p
         cs   == Range(Ev.cs)
         made == RecEntries(Ev.made)
         csA  == ClientsOf(made)
         faithful == NoDupClients(Ev.made) /\ csA \subseteq DOMAIN st[p] /\ made = MakeUpdate(st[p], csA)
         scope == IF Ev.how = "full" THEN LiveClients(st[p]) \subseteq csA ELSE csA = cs
         chk == << <<"C18_NoFailure", Ev.outcome = "ok">>,
                   <<"C18_UpdateExact", faithful /\ scope>>,
                   <<"C18_MessageRoundTrip", Ev.rt /\ NoDupClients(Ev.wire) /\ RecEntries(Ev.wire) = made>>,
                   <<"C18_RegisterExact", RegisterExact(st[p], p)>> >>
     IN /\ Record(chk)
        /\ drift' = IF faithful /\ Ev.how = "full" /\ csA # LiveClients(st[p])
                    THEN drift \cup {<<bid, "full-update-not-live-only", l>>} ELSE drift
        /\ upd' = Append(upd, IF faithful THEN made ELSE {})
  /\ UNCHANGED <<bid, st, obsv, got, seen>>

(* a peer applies an update received as bytes *)
App ==
  /\ Ev.k = "app" /\ ~failed
  /\ LET p    == Ev.p
         u    == upd[Ev.u]
         reg  == st[p]
         reg2 == Apply(reg, p, u)
         rec2 == RecReg(Ev.reg)
         wf   == NoDupClients(Ev.reg)
         app2 == {upd[i] : i \in got[p] \cup {Ev.u}}
         isObs == p \in obsv
         chk == << <<"C18_NoFailure", Ev.outcome = "ok">>,
                   <<"C18_ClockMonotone", wf /\ C18_ClockMonotone(reg, rec2)>>,
                   <<"C18_NoLowerReplaces", wf /\ C18_NoLowerReplaces(reg, rec2, u)>>,
                   <<"C18_OwnStateKept", wf /\ C18_OwnStateKept(reg, rec2, p) /\ C18_OwnerReasserts(reg, rec2, p, u)>>,
                   <<"C18_Idempotent", wf /\ (u \in {upd[i] : i \in got[p]} => rec2 = reg)>>,
                   <<"C18_OrderInsensitive", wf /\ (isObs => C18_OrderInsensitive(seen, app2, rec2))>>,
                   <<"C18_LastWriterWins", wf /\ (isObs => C18_IsMaximum(rec2, UNION app2))>>,
                   <<"C18_ReadsAgree", ReadsAgree(p)>>,
                   <<"C18_ApplyStep", wf /\ C18_ApplyStep(reg, p, u, rec2)>> >>
     IN /\ Record(chk)
        /\ st' = [st EXCEPT ![p] = IF wf THEN rec2 ELSE reg2]
        /\ drift' = IF wf /\ rec2 # reg2 THEN drift \cup {<<bid, "awareness-clock-policy", l>>} ELSE drift
        /\ got' = [got EXCEPT ![p] = @ \cup {Ev.u}]
        /\ seen' = IF isObs /\ wf THEN seen \cup {<<app2, rec2>>} ELSE seen
  /\ UNCHANGED <<bid, obsv, upd>>

TInit == /\ l = 1 /\ bid = "" /\ st = EmptyFn /\ obsv = {} /\ upd = <<>> /\ got = EmptyFn /\ seen = {}
         /\ failed = FALSE /\ viol = {} /\ drift = {} /\ cnt = [beh |-> 0, ev |-> 0, checks |-> 0]

TNext == /\ l <= Len(Rec)
         /\ l' = l + 1
         /\ (Reset \/ Skip \/ Set \/ Clean \/ Rem \/ MkUpd \/ App)

TSpec == TInit /\ [][TNext]_vars

Verdict == l = Len(Rec) + 1 =>
             PrintT(<<"VERDICT", ToJson([viol |-> viol, drift |-> drift, cnt |-> cnt, lines |-> Len(Rec)])>>)
Consumed == TLCGet("stats").diameter = Len(Rec) + 1
=============================================================================
