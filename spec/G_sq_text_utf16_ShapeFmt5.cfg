CONSTANTS
  Family = "text"
  Unit = "utf16"
  MaxOps = 5
  Shape <- ShapeFmt5
SPECIFICATION Spec
INVARIANTS InvWellFormed InvUniqueTags PrintSchedules
CHECK_DEADLOCK FALSE
