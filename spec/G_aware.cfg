CONSTANTS
  Owners = {1, 2}
  Setters = {1, 2}
  Obs = {9}
  Val = {"a", "b"}
  FirstVal = "a"
  MaxClock = 3
  MaxUpd = 2
  MaxSteps = 5
  Dups = TRUE
SPECIFICATION Spec
INVARIANTS PrintSchedules
CHECK_DEADLOCK FALSE
