------------------------------- MODULE Undo -------------------------------
(***************************************************************************)
(* C12 -- undo / redo are inverses of the captured local changes and touch  *)
(* nothing else.  Constant-level module (operators only), shared by the     *)
(* generator / design model MC_Undo and the trace specification Trace_Undo. *)
(*                                                                         *)
(* Abstract undo manager.  A *view* is the content (by VALUE, not by        *)
(* element id: redo re-creates elements under new ids) of the tracked root  *)
(* types including everything nested in them.  The manager is               *)
(*   [ust, rst : Seq([v : View, ok : BOOLEAN]),  last : Nat]                *)
(* ust[i] = one captured step still to be undone, v = the view at the       *)
(* boundary BEFORE that step (what undoing it must restore);                *)
(* rst[i] = one undone step, v = the view before it was undone (what        *)
(* redoing it must restore).  ok = no other origin (untracked local origin, *)
(* remote update) has edited a tracked type since that boundary was taken:  *)
(* only then does the property determine the outcome (INVERSE LAW);         *)
(* otherwise only the ISOLATION predicates apply (the position of           *)
(* re-created elements among foreign ones is implementation freedom).       *)
(* last = clock of the last captured transaction (0 = capturing stopped),   *)
(* used only for the implementation-level prediction of step grouping.      *)
(***************************************************************************)
EXTENDS Yata

EmptyMgr == [ust |-> <<>>, rst |-> <<>>, last |-> 0]
Entry(v, ok) == [v |-> v, ok |-> ok]
Invalidate(st) == [i \in 1..Len(st) |-> Entry(st[i].v, FALSE)]

(* view of the tracked types: uv = root name -> content, scope = set of tracked root names *)
ViewOf(uv, scope) == [x \in scope |-> uv[x]]

---------------------------------------------------------------------------
(* Capture: a transaction of the tracked origin that changed a tracked type *)
(* either extends the current step or opens a new one whose boundary is the *)
(* view before the transaction; whatever could be redone is forgotten.      *)
(* Whether it extends is the manager's grouping rule (clock gap < timeout,  *)
(* no stop / undo in between) -- bound from the log by V, predicted here.   *)
PredictExtend(M, now, timeout) == M.last > 0 /\ now - M.last < timeout /\ Len(M.ust) > 0
Capture(M, vBefore, extend, now) ==
  [ust |-> IF extend /\ Len(M.ust) > 0 THEN M.ust ELSE Append(M.ust, Entry(vBefore, TRUE)),
   rst |-> <<>>, last |-> now]
Stop(M) == [M EXCEPT !.last = 0]
(* another origin edited a tracked type: no recorded boundary is exact any more *)
ForeignEdit(M) == [ust |-> Invalidate(M.ust), rst |-> Invalidate(M.rst), last |-> M.last]

---------------------------------------------------------------------------
(* One undo (st = ust) or redo (st = rst) call in a state whose view is cur. *)
RECURSIVE ValidFrom(_, _)
ValidFrom(st, i) == IF i >= 1 /\ st[i].ok THEN ValidFrom(st, i - 1) ELSE i + 1
TopValid(st) == ValidFrom(st, Len(st))         \* entries TopValid(st)..Len(st) are exact
(* exact steps, from the top, whose boundary differs from the current content *)
Differing(st, cur) == {i \in TopValid(st)..Len(st) : st[i].v # cur}
Target(st, cur) == CHOOSE i \in Differing(st, cur) : \A j \in Differing(st, cur) : j <= i
(* the property determines the outcome: a step with a visible effect is found among the exact   *)
(* entries, or every entry is exact (then nothing visible can be reverted)                      *)
Determined(st, cur) == Differing(st, cur) # {} \/ TopValid(st) = 1
ExpectRet(st, cur) == Differing(st, cur) # {}
ExpectView(st, cur) == IF Differing(st, cur) # {} THEN st[Target(st, cur)].v ELSE cur

(* INVERSE LAW.  after = view after the call, ret = value returned, nA = entries left on the    *)
(* popped stack (so the call consumed the k = Len(st) - nA top entries).                        *)
(* Inverse: undoing (redoing) the last k steps restores the content recorded at the boundary   *)
(* before (after) those k steps -- for the k the manager actually consumed, provided all of     *)
(* them are exact; OneStep: the content is exactly that of the nearest boundary that differs -- *)
(* one call reverts one step, passing over steps that changed nothing visible; ReturnValue:     *)
(* TRUE iff such a step existed.                                                                *)
C12_Inverse(st, cur, after, nA) ==
  (nA < Len(st) /\ nA + 1 >= TopValid(st)) => after = st[nA + 1].v
C12_OneStep(st, cur, after) == Determined(st, cur) => after = ExpectView(st, cur)
C12_ReturnValue(st, cur, ret) == Determined(st, cur) => ret = ExpectRet(st, cur)

(* manager after the call.  Where the outcome is not determined the number of entries left on   *)
(* the popped stack (nA) and the return value are bound from the log.                           *)
PopApply(M, undo, cur, ret, nA) ==
  LET st  == IF undo THEN M.ust ELSE M.rst
      ot  == IF undo THEN M.rst ELSE M.ust
      det == Determined(st, cur)
      hit == ExpectRet(st, cur)
      st2 == IF det THEN (IF hit THEN SubSeq(st, 1, Target(st, cur) - 1) ELSE <<>>)
             ELSE SubSeq(st, 1, IF nA < Len(st) THEN nA ELSE Len(st))
      ot2 == IF det THEN (IF hit THEN Append(ot, Entry(cur, TRUE)) ELSE ot)
             ELSE (IF ret THEN Append(ot, Entry(cur, FALSE)) ELSE ot)
      did == IF det THEN hit ELSE ret
  IN [ust |-> IF undo THEN st2 ELSE ot2, rst |-> IF undo THEN ot2 ELSE st2,
      last |-> IF undo /\ did THEN 0 ELSE M.last]

(* the abstract stacks mirror the manager's stacks entry by entry; if the lengths ever disagree  *)
(* (implementation-level: reported as drift) nothing recorded so far is relied upon any more    *)
ShapeOk(M, us, rs) == Len(M.ust) = us /\ Len(M.rst) = rs
Fit(st, n, cur) == IF Len(st) = n THEN st
                   ELSE [i \in 1..n |-> Entry(IF i <= Len(st) THEN st[i].v ELSE cur, FALSE)]
Resync(M, us, rs, cur) == [ust |-> Fit(M.ust, us, cur), rst |-> Fit(M.rst, rs, cur), last |-> M.last]

---------------------------------------------------------------------------
(* ISOLATION.  E = element table, R / R2 = replica before / after an undo or redo call,         *)
(* trk = elements created by the tracked origin (and by undo / redo themselves).                *)
(* Elements of other origins that were visible stay visible, in their relative order, in every  *)
(* container that can still be reached (a container that became unreachable lost an owning      *)
(* element: if that element is foreign the violation shows in ITS container, if it is the       *)
(* tracked origin's own insertion its removal is what "undone" means).                          *)
C12_ForeignKept(E, R, R2, trk) ==
  \A c \in DOMAIN R.lst :
    (ContReachable(E, R, c) /\ ContReachable(E, R2, c)) =>
       LET F == Range(Visible(E, R, c)) \ trk
       IN Restrict(Visible(E, R2, c), F) = Restrict(Visible(E, R, c), F)

(* containers outside the tracked types are untouched (croot = container key -> root name)      *)
InScope(croot, scope, c) == IF c \in DOMAIN croot THEN croot[c] \in scope ELSE TRUE
C12_UntrackedUntouched(E, R, R2, croot, scope) ==
  \A c \in DOMAIN R.lst \cup DOMAIN R2.lst :
    ~InScope(croot, scope, c) =>
       /\ Without(Lst(R.lst, c), R2.gone) = Lst(R2.lst, c)
       /\ Range(Lst(R2.lst, c)) \cap R.dead = Range(Lst(R2.lst, c)) \cap R2.dead

(* some tracked container changed (lists or tombstones) between R and R2 *)
ScopeChanged(R, R2, croot, scope) ==
  \E c \in DOMAIN R.lst \cup DOMAIN R2.lst :
     /\ InScope(croot, scope, c)
     /\ \/ Lst(R.lst, c) # Lst(R2.lst, c)
        \/ Range(Lst(R.lst, c)) \cap R.dead # Range(Lst(R2.lst, c)) \cap R2.dead
=============================================================================
