CONSTANTS
  Third = {3}
  Kinds = {"inse", "del"}
  MaxEd = 2
  MaxEd3 = 2
  MaxTotal = 5
  MaxPre = 3
  MaxQ = 0
SPECIFICATION Spec
INVARIANTS InvQuiescentEqual InvSound InvOwn InvNothingStashed InvRoundTrip
CHECK_DEADLOCK FALSE
VIEW view
