CONSTANTS
  Kind = "m"
  MaxE = 4
  MaxUR = 2
  MaxF = 1
  UseStop = FALSE
  Flat = TRUE
  Pre = FALSE
  Shape = "any"
  MaxP = 1
  MaxW = 1
SPECIFICATION Spec
INVARIANTS InvExact InvRoundTrip InvNearest InvBounded PrintSchedules
CHECK_DEADLOCK FALSE
